package main

import (
	"fmt"
	"go/ast"
	"go/token"
	"go/types"
	"strings"

	"golang.org/x/tools/go/packages"
)

// Undoing field grouping.
//
// The rules read the fields of the reference structs (`structDesc.hasUnknownFields`, `tType.IsPointer`, ...). A change that
// moves some of them into a new nested struct (`sd.unknown.has`) keeps behaviour, but the fields are no longer fields of the
// struct the rules look at. Before the rename normalisation the tree is therefore flattened where that is exact: a reference
// struct S that lacks reference fields and has a field F whose type U is a struct type the reference tree does not have, is
// declared in the same package, has no methods and embedded fields, is mentioned nowhere but in F's declaration, and F is
// used only as the operand of a further field selection `x.F.g`: then F's declaration is replaced by U's fields under the
// names `F_g` at the same position and every `x.F.g` is written `x.F_g`. The rename normalisation that follows pairs `F_g`
// with the missing reference field of the same type and position. Nothing happens on the reference tree.
func flattenNested(modPkgs []*packages.Package, fset *token.FileSet, readSrc func(string) []byte) (map[string][]byte, []string) {
	refs := parseRefs()
	refType := map[string]bool{}
	refField := map[string][]string{} // pkg\tStruct -> field names
	for _, d := range refs {
		switch d.kind {
		case "T":
			refType[d.pkg+"\t"+d.name] = true
		case "S":
			k := d.pkg + "\t" + container(d.name)
			refField[k] = append(refField[k], simple(d.name))
		}
	}
	overlay := map[string][]byte{}
	var notes []string
	for _, p := range modPkgs {
		if p.Types == nil || p.TypesInfo == nil {
			continue
		}
		info := p.TypesInfo
		sc := p.Types.Scope()
		type plan struct {
			S     *types.TypeName
			F     *types.Var
			U     *types.Named
			ust   *types.Struct
			names map[string]string // g -> F_g
		}
		var plans []*plan
		for _, n := range sc.Names() {
			tn, ok := sc.Lookup(n).(*types.TypeName)
			if !ok || tn.IsAlias() || !refType[p.PkgPath+"\t"+n] {
				continue
			}
			st, ok := tn.Type().Underlying().(*types.Struct)
			if !ok {
				continue
			}
			haveField := map[string]bool{}
			for i := 0; i < st.NumFields(); i++ {
				haveField[st.Field(i).Name()] = true
			}
			missing := 0
			for _, f := range refField[p.PkgPath+"\t"+n] {
				if !haveField[f] {
					missing++
				}
			}
			if missing == 0 {
				continue
			}
			for i := 0; i < st.NumFields(); i++ {
				F := st.Field(i)
				if F.Embedded() {
					continue
				}
				U, ok := F.Type().(*types.Named)
				if !ok || U.Obj().Pkg() != p.Types || refType[p.PkgPath+"\t"+U.Obj().Name()] || U.NumMethods() > 0 || U.TypeParams().Len() > 0 {
					continue
				}
				ust, ok := U.Underlying().(*types.Struct)
				if !ok || ust.NumFields() == 0 || ust.NumFields() > missing {
					continue
				}
				pl := &plan{S: tn, F: F, U: U, ust: ust, names: map[string]string{}}
				good := true
				for j := 0; j < ust.NumFields(); j++ {
					g := ust.Field(j)
					nn := F.Name() + "_" + g.Name()
					if g.Embedded() || haveField[nn] {
						good = false
					}
					pl.names[g.Name()] = nn
				}
				if good {
					plans = append(plans, pl)
				}
			}
		}
		if len(plans) == 0 {
			continue
		}
		// uses: the type only in the field's declaration, the field only under a further selection
		type fileEdits struct {
			tf    *token.File
			edits []textEdit
		}
		for _, pl := range plans {
			ok := true
			typeUses := 0
			var perFile []*fileEdits
			var fieldDecl *ast.Field
			var fieldDeclFile *token.File
			var uDecl *ast.StructType
			var uDeclFile *token.File
			for _, f := range p.Syntax {
				tf := fset.File(f.Pos())
				if tf == nil {
					ok = false
					break
				}
				fe := &fileEdits{tf: tf}
				var stack []ast.Node
				ast.Inspect(f, func(n ast.Node) bool {
					if n == nil {
						stack = stack[:len(stack)-1]
						return true
					}
					stack = append(stack, n)
					switch x := n.(type) {
					case *ast.TypeSpec:
						if info.Defs[x.Name] == pl.U.Obj() {
							if s, isS := x.Type.(*ast.StructType); isS {
								uDecl, uDeclFile = s, tf
							}
						}
					case *ast.Field:
						for _, nm := range x.Names {
							if info.Defs[nm] == pl.F {
								if len(x.Names) != 1 {
									ok = false
								}
								fieldDecl, fieldDeclFile = x, tf
							}
						}
					case *ast.Ident:
						if info.Uses[x] == pl.U.Obj() {
							typeUses++
						}
						if info.Uses[x] == pl.F {
							// must be the Sel of a SelectorExpr that is itself the X of a SelectorExpr naming a field of U
							if len(stack) < 3 {
								ok = false
								return true
							}
							inner, isSel := stack[len(stack)-2].(*ast.SelectorExpr)
							if !isSel || inner.Sel != x {
								ok = false
								return true
							}
							par := stack[len(stack)-3]
							outer, isSel2 := par.(*ast.SelectorExpr)
							if !isSel2 || outer.X != inner {
								ok = false
								return true
							}
							nn, has := pl.names[outer.Sel.Name]
							if !has {
								ok = false
								return true
							}
							fe.edits = append(fe.edits, textEdit{tf.Offset(x.Pos()), tf.Offset(outer.Sel.End()), nn})
						}
					}
					return true
				})
				perFile = append(perFile, fe)
			}
			if !ok || typeUses != 1 || fieldDecl == nil || uDecl == nil {
				continue
			}
			// the replacement declaration: U's fields, in order, with their type texts
			usrc := readSrc(uDeclFile.Name())
			if usrc == nil {
				continue
			}
			var decl []string
			cnt := 0
			for _, uf := range uDecl.Fields.List {
				tt := string(usrc[uDeclFile.Offset(uf.Type.Pos()):uDeclFile.Offset(uf.Type.End())])
				for _, nm := range uf.Names {
					decl = append(decl, pl.names[nm.Name]+" "+tt)
					cnt++
				}
			}
			if cnt != pl.ust.NumFields() {
				continue
			}
			for _, fe := range perFile {
				if fe.tf == fieldDeclFile {
					fe.edits = append(fe.edits, textEdit{fe.tf.Offset(fieldDecl.Pos()), fe.tf.Offset(fieldDecl.Type.End()), strings.Join(decl, "; ")})
				}
			}
			failed := false
			outs := map[string][]byte{}
			for _, fe := range perFile {
				if len(fe.edits) == 0 {
					continue
				}
				src := overlay[fe.tf.Name()]
				if src != nil {
					// a second plan touching a file already edited in this round: offsets no longer match; leave it for the next round
					failed = true
					break
				}
				src = readSrc(fe.tf.Name())
				if src == nil {
					failed = true
					break
				}
				out := applyEdits(src, fe.edits, 0, len(src))
				if out == "" {
					failed = true
					break
				}
				outs[fe.tf.Name()] = []byte(out)
			}
			if failed {
				continue
			}
			for k, v := range outs {
				overlay[k] = v
			}
			notes = append(notes, fmt.Sprintf("read the fields of %s.%s (new struct %s) as fields of %s itself", pl.S.Name(), pl.F.Name(), pl.U.Obj().Name(), pl.S.Name()))
		}
	}
	return overlay, notes
}
