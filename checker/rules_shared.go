package main

import (
	"fmt"
	"go/constant"
	"go/token"
	"go/types"
	"sort"
	"strings"

	"golang.org/x/tools/go/callgraph"
	"golang.org/x/tools/go/ssa"
)

func init() {
	register(&Rule{ID: "E1.globals", Min: 15,
		Text: "every package-level variable of the codec packages is in exactly one class: I (written only by its initialiser or init functions), S (sync.Pool / sync.Mutex / atomic values, touched only through their methods), or L (listed as guarded by a named mutex); a variable that fits none is a violation, so a new unsynchronised global cannot slip in",
		Run:  ruleE1Globals})
	register(&Rule{ID: "E1.lock-only", Min: 8,
		Text: "every function that touches an L-class global, or stores into / takes a writable address of a field of a shared descriptor (structDesc, tField, tType), is lock-only: unreachable from the API roots once the call sites executing under sdsmu are removed; stores into objects allocated in the same function are exempt; Lock is followed by defer Unlock and no function reachable from a locked region locks the same mutex again",
		Run:  ruleE1LockOnly})
	register(&Rule{ID: "E1.cow-publish", Min: 5,
		Text: "mapStructDesc.Set writes only into a slice made in the same call and publishes it with one atomic Store, never through a pointer loaded from a slot; Get only loads; sds.Set is called only from createStructDesc, after the build returned err == nil; tType.Sd is stored only when it was nil (write-once) ",
		Run:  ruleE1Cow})
	register(&Rule{ID: "E3.transactional-build", Min: 6,
		Text: "descriptor construction is all-or-nothing: every tType.Sd link and every prefetch-cache insert made by a build is journalled right where it is made; every path from the build call in createStructDesc to a return passes commitPrefetch (success) or rollbackPrefetch (failure); rollback deletes every journalled key and clears every journalled Sd, both end with empty journals",
		Run:  ruleE3})
}

var lockedGlobals = map[string]string{ // global -> mutex
	"reflect.prefetchStructDescCache": "reflect.sdsmu",
	"reflect.ttypes":                  "reflect.sdsmu",
	"reflect.prefetchPendingKeys":     "reflect.sdsmu",
	"reflect.prefetchPendingTypes":    "reflect.sdsmu",
	"defs.fieldsCache":                "defs.fieldsLock",
}

func globalKey(g *ssa.Global) string { return g.Pkg.Pkg.Name() + "." + g.Name() }

func isSyncType(t types.Type) bool {
	s := t.String()
	return strings.HasPrefix(s, "sync.") || strings.HasPrefix(s, "*sync.") || strings.HasPrefix(s, "sync/atomic.") || strings.HasPrefix(s, "*sync/atomic.")
}

// selfSync: sync types, or a pointer to a struct all of whose fields are atomics (sds).
func selfSync(t types.Type) bool {
	if isSyncType(t) {
		return true
	}
	if p, ok := t.Underlying().(*types.Pointer); ok {
		if st, ok := p.Elem().Underlying().(*types.Struct); ok && st.NumFields() > 0 {
			for i := 0; i < st.NumFields(); i++ {
				ft := st.Field(i).Type()
				if a, ok := ft.Underlying().(*types.Array); ok {
					ft = a.Elem()
				}
				if !isSyncType(ft) {
					return false
				}
			}
			return true
		}
	}
	return false
}

// rootGlobal follows FieldAddr/IndexAddr/loads back to a global (for writes through the global's storage).
func rootGlobal(v ssa.Value) *ssa.Global {
	for i := 0; i < 12; i++ {
		switch x := v.(type) {
		case *ssa.Global:
			return x
		case *ssa.FieldAddr:
			v = x.X
		case *ssa.IndexAddr:
			v = x.X
		case *ssa.UnOp:
			if x.Op != token.MUL {
				return nil
			}
			v = x.X
		case *ssa.Slice:
			v = x.X
		case *ssa.ChangeType:
			v = x.X
		default:
			return nil
		}
	}
	return nil
}

type globalAccess struct {
	fn    *ssa.Function
	in    ssa.Instruction
	write bool
}

// globalAccesses collects reads and writes of package-level variables per global.
func (c *Ctx) globalAccesses(pkgs ...string) map[*ssa.Global][]globalAccess {
	out := map[*ssa.Global][]globalAccess{}
	for _, fn := range c.ModuleFuncs(pkgs...) {
		for _, b := range fn.Blocks {
			for _, ins := range b.Instrs {
				switch x := ins.(type) {
				case *ssa.Store:
					if g := rootGlobal(x.Addr); g != nil {
						out[g] = append(out[g], globalAccess{fn, ins, true})
					}
				case *ssa.MapUpdate:
					if g := rootGlobal(x.Map); g != nil {
						out[g] = append(out[g], globalAccess{fn, ins, true})
					}
				case *ssa.Call:
					if isBuiltin(x, "delete") {
						if g := rootGlobal(x.Call.Args[0]); g != nil {
							out[g] = append(out[g], globalAccess{fn, ins, true})
						}
					}
				case *ssa.UnOp:
					if x.Op == token.MUL {
						if g, ok := x.X.(*ssa.Global); ok {
							out[g] = append(out[g], globalAccess{fn, ins, false})
						}
					}
				}
			}
		}
	}
	return out
}

func isInitFn(fn *ssa.Function) bool {
	for fn.Parent() != nil {
		fn = fn.Parent()
	}
	return fn.Name() == "init" || strings.HasPrefix(fn.Name(), "init#")
}

func ruleE1Globals(c *Ctx) []Ob {
	s := newSink(c, "E1.globals")
	pkgs := []string{pkgReflect, pkgDefs, pkgRoot, pkgOpts, pkgDebug}
	acc := c.globalAccesses(pkgs...)
	for _, pp := range pkgs {
		sp := c.SSA[pp]
		if sp == nil {
			continue
		}
		var names []string
		for n, m := range sp.Members {
			if _, ok := m.(*ssa.Global); ok && n != "init$guard" {
				names = append(names, n)
			}
		}
		sort.Strings(names)
		for _, n := range names {
			g := sp.Members[n].(*ssa.Global)
			key := globalKey(g)
			pos := c.Pos(g.Pos())
			elem := g.Type().Underlying().(*types.Pointer).Elem()
			var lateWrites []string
			for _, a := range acc[g] {
				if a.write && !isInitFn(a.fn) && !c.onlyCalledFromInit(a.fn, 0) {
					lateWrites = append(lateWrites, shortFn(a.fn)+" at "+c.InstrPos(a.in))
				}
			}
			switch {
			case selfSync(elem):
				// S: no plain stores after init
				s.check(len(lateWrites) == 0, key, pos, "class S: "+elem.String()+", used only through its methods", "self-synchronising value is overwritten after init: "+strings.Join(lateWrites, ", "))
			case lockedGlobals[key] != "":
				s.ok(key, pos, "class L: guarded by "+lockedGlobals[key]+" (rule E1.lock-only)")
			case len(lateWrites) == 0:
				s.ok(key, pos, "class I: written only by its initialiser / init functions")
			default:
				s.bad(key, pos, "package-level variable is written after init without being self-synchronising or listed as lock-guarded: "+strings.Join(lateWrites, ", "))
			}
		}
	}
	return s.obs
}

// onlyCalledFromInit: fn has callers and all of them (transitively, bounded) are init functions.
func (c *Ctx) onlyCalledFromInit(fn *ssa.Function, depth int) bool {
	if depth > 3 {
		return false
	}
	n := c.CG().Nodes[fn]
	if n == nil || len(n.In) == 0 {
		return false
	}
	for _, e := range n.In {
		caller := e.Caller.Func
		if isInitFn(caller) {
			continue
		}
		if !c.onlyCalledFromInit(caller, depth+1) {
			return false
		}
	}
	return true
}

// apiRoots: the public entry points.
func (c *Ctx) apiRoots() []*ssa.Function {
	var out []*ssa.Function
	for _, n := range []string{"EncodedSize", "EncodeObject", "DecodeObject", "Pretouch"} {
		if f := c.SSA[pkgRoot].Func(n); f != nil {
			out = append(out, f)
		}
	}
	for _, n := range []string{"EncodedSize", "Append", "Decode"} {
		if f := c.SSA[pkgReflect].Func(n); f != nil {
			out = append(out, f)
		}
	}
	return out
}

// lockedSites returns the call instructions that execute while mutex (global path) is held:
// sites dominated by mutex.Lock() in a function that defers mutex.Unlock().
func (c *Ctx) lockedSites(mutex string, s *obSink) map[ssa.Instruction]bool {
	out := map[ssa.Instruction]bool{}
	for _, fn := range c.ModuleFuncs(pkgReflect, pkgDefs) {
		var locks []*ssa.Call
		var deferUnlock *ssa.Defer
		for _, b := range fn.Blocks {
			for _, ins := range b.Instrs {
				switch x := ins.(type) {
				case *ssa.Call:
					if f := x.Call.StaticCallee(); f != nil && f.Name() == "Lock" && fnPkgPath(f) == "sync" && len(x.Call.Args) > 0 && path(x.Call.Args[0]) == mutex {
						locks = append(locks, x)
					}
				case *ssa.Defer:
					if f := x.Call.StaticCallee(); f != nil && f.Name() == "Unlock" && fnPkgPath(f) == "sync" && len(x.Call.Args) > 0 && path(x.Call.Args[0]) == mutex {
						deferUnlock = x
					}
				}
			}
		}
		for _, l := range locks {
			good := deferUnlock != nil && deferUnlock.Block() == l.Block() && instrIndex(deferUnlock) == instrIndex(l)+1
			if s != nil {
				s.check(good, shortFn(fn)+":lock-unlock", c.InstrPos(l), mutex+".Lock() immediately followed by defer Unlock()", mutex+".Lock() is not immediately followed by defer "+mutex+".Unlock(): an early return or panic would leave the mutex held")
			}
			if !good {
				continue
			}
			for _, b := range fn.Blocks {
				for _, ins := range b.Instrs {
					if _, ok := ins.(ssa.CallInstruction); ok && instrDominates(l, ins) && ins != ssa.Instruction(deferUnlock) {
						out[ins] = true
					}
				}
			}
		}
	}
	return out
}

func ruleE1LockOnly(c *Ctx) []Ob {
	s := newSink(c, "E1.lock-only")
	const mu = "reflect.sdsmu"
	locked := c.lockedSites(mu, s)
	if len(locked) == 0 {
		s.bad("locked-region", "-", "no region guarded by sdsmu found")
		return s.obs
	}
	// reachable from the API roots without entering the locked regions
	hot := c.reachableFrom(c.apiRoots(), func(e *callgraph.Edge) bool { return e.Site != nil && locked[e.Site] })
	// reachable from locked regions (the build closure)
	var buildRoots []*ssa.Function
	g := c.CG()
	for site := range locked {
		fn := site.Parent()
		if n := g.Nodes[fn]; n != nil {
			for _, e := range n.Out {
				if e.Site == site {
					buildRoots = append(buildRoots, e.Callee.Func)
				}
			}
		}
	}
	build := c.reachableFrom(buildRoots, nil)
	// (1) L-class globals
	acc := c.globalAccesses(pkgReflect, pkgDefs)
	var gs []*ssa.Global
	for gl := range acc {
		gs = append(gs, gl)
	}
	sort.Slice(gs, func(i, j int) bool { return globalKey(gs[i]) < globalKey(gs[j]) })
	for _, gl := range gs {
		key := globalKey(gl)
		if lockedGlobals[key] != mu {
			continue
		}
		seenFn := map[*ssa.Function]bool{}
		for _, a := range acc[gl] {
			if seenFn[a.fn] || isInitFn(a.fn) {
				continue
			}
			seenFn[a.fn] = true
			inLocked := false // access inside a function that itself holds the lock at that point
			for site := range locked {
				if site.Parent() == a.fn && instrDominates(lockCallIn(a.fn, mu), a.in) {
					inLocked = true
				}
			}
			ok := !hot[a.fn] || inLocked
			s.check(ok, key+" in "+shortFn(a.fn), c.InstrPos(a.in), "accessed only with "+mu+" held", key+" is accessed in "+shortFn(a.fn)+", which is reachable from the API without holding "+mu+" (data race with a concurrent first use)")
		}
	}
	// (2) descriptor objects: stores and writable address-taking in hot functions
	descTypes := map[string]bool{"structDesc": true, "tField": true, "tType": true}
	var hotFns []*ssa.Function
	for f := range hot {
		if fnPkgPath(f) == pkgReflect && f.Blocks != nil {
			hotFns = append(hotFns, f)
		}
	}
	sort.Slice(hotFns, func(i, j int) bool { return hotFns[i].Pos() < hotFns[j].Pos() })
	nChecked := 0
	for _, fn := range hotFns {
		for _, b := range fn.Blocks {
			for _, ins := range b.Instrs {
				fa, ok := ins.(*ssa.FieldAddr)
				if !ok || !descTypes[namedOf(fa.X.Type())] {
					continue
				}
				// local object?
				if localAlloc(fa.X) {
					continue
				}
				ft := fa.Type().Underlying().(*types.Pointer).Elem()
				for _, r := range referrers(fa) {
					switch x := r.(type) {
					case *ssa.UnOp, *ssa.DebugRef:
					case *ssa.FieldAddr, *ssa.IndexAddr:
						// navigation into a nested value; its own uses are checked when it is a descriptor type, otherwise loads only
					case *ssa.Call:
						if isSyncType(ft) {
							continue // &sd.rvPool as receiver of sync.Pool methods
						}
						nChecked++
						s.bad(shortFn(fn)+":desc-addr", c.InstrPos(x), "address of descriptor field "+path(fa)+" is passed to "+calleeShort(x)+" on a path that does not hold "+mu+": the shared descriptor may be written while other goroutines read it")
					case *ssa.Store:
						nChecked++
						// the function holds the lock itself at this point (the finishing steps of a build written out in the
						// function that took the lock)
						heldHere := false
						for site := range locked {
							if site.Parent() == fn {
								if lk := lockCallIn(fn, mu); lk != nil && instrDominates(lk, x) {
									heldHere = true
								}
							}
						}
						if heldHere {
							s.ok(shortFn(fn)+":desc-store", c.InstrPos(x), "store into a descriptor field with "+mu+" held by this function")
							continue
						}
						if x.Addr == ssa.Value(fa) {
							s.bad(shortFn(fn)+":desc-store", c.InstrPos(x), "store into shared descriptor field "+path(fa)+" outside the locked build: "+c.srcLine(x.Pos()))
						} else {
							s.bad(shortFn(fn)+":desc-addr", c.InstrPos(x), "address of descriptor field "+path(fa)+" is stored")
						}
					default:
						if isSyncType(ft) {
							continue
						}
						nChecked++
						s.bad(shortFn(fn)+":desc-addr", c.InstrPos(r), fmt.Sprintf("address of descriptor field %s escapes (%T) on a path that does not hold %s: the shared descriptor may be written concurrently", path(fa), r, mu))
					}
				}
			}
		}
	}
	s.ok("hot-path-descriptor-writes", "-", fmt.Sprintf("%d functions reachable from the API outside the locked build contain no store into, and take no writable address of, a shared descriptor field", len(hotFns)))
	// (3) no re-lock inside the build closure
	var bfs []*ssa.Function
	for f := range build {
		if f.Blocks != nil && c.InModule(f) {
			bfs = append(bfs, f)
		}
	}
	sort.Slice(bfs, func(i, j int) bool { return bfs[i].Pos() < bfs[j].Pos() })
	relock := false
	for _, f := range bfs {
		if l := lockCallIn(f, mu); l != nil {
			relock = true
			s.bad(shortFn(f)+":relock", c.InstrPos(l), shortFn(f)+" is reachable from a region that already holds "+mu+" and locks it again (sync.Mutex is not re-entrant: deadlock)")
		}
	}
	if !relock {
		s.ok("no-relock", "-", fmt.Sprintf("%d functions of the build closure do not lock %s again", len(bfs), mu))
	}
	return s.obs
}

func lockCallIn(fn *ssa.Function, mutex string) ssa.Instruction {
	for _, b := range fn.Blocks {
		for _, ins := range b.Instrs {
			if x, ok := ins.(*ssa.Call); ok {
				if f := x.Call.StaticCallee(); f != nil && f.Name() == "Lock" && fnPkgPath(f) == "sync" && len(x.Call.Args) > 0 && path(x.Call.Args[0]) == mutex {
					return x
				}
			}
		}
	}
	return nil
}

// localAlloc: v is (a phi of) an object allocated in this function.
func localAlloc(v ssa.Value) bool {
	switch x := v.(type) {
	case *ssa.Alloc:
		return true
	case *ssa.Phi:
		for _, e := range x.Edges {
			if !localAlloc(e) {
				return false
			}
		}
		return true
	case *ssa.IndexAddr:
		return localAlloc(x.X)
	case *ssa.MakeSlice:
		return true
	case *ssa.Slice:
		return localAlloc(x.X)
	}
	return false
}

func ruleE1Cow(c *Ctx) []Ob {
	s := newSink(c, "E1.cow-publish")
	set := c.Func(pkgReflect, "(*mapStructDesc).Set")
	get := c.Func(pkgReflect, "(*mapStructDesc).Get")
	if set == nil || get == nil {
		s.bad("mapStructDesc", "-", "Set/Get not found")
		return s.obs
	}
	// Set: every store targets local memory; atomic Store publishes &local
	nStores := 0
	for _, b := range set.Blocks {
		for _, ins := range b.Instrs {
			switch x := ins.(type) {
			case *ssa.Store:
				nStores++
				root := x.Addr
				for {
					switch y := root.(type) {
					case *ssa.FieldAddr:
						root = y.X
						continue
					case *ssa.IndexAddr:
						root = y.X
						continue
					}
					break
				}
				good := localAlloc(root)
				if u, ok := root.(*ssa.UnOp); ok && u.Op == token.MUL {
					// slice loaded from a local variable that holds a slice made here
					good = localAlloc(u.X) && !loadedFromSlot(u.X)
				}
				s.check(good, "Set:store", c.InstrPos(x), "writes a slice made in this call", "Set writes through "+path(x.Addr)+", which is not memory made in this call (in-place mutation of a published slot: readers may see a torn slice): "+c.srcLine(x.Pos()))
			case *ssa.Call:
				if f := x.Call.StaticCallee(); f != nil && f.Name() == "Store" && strings.Contains(f.String(), "atomic.Pointer") {
					arg := x.Call.Args[len(x.Call.Args)-1]
					s.check(localAlloc(arg), "Set:publish", c.InstrPos(x), "publishes a fresh slice with one atomic Store", "atomic Store publishes a pointer that is not a fresh local slice")
					// no store to the published memory after the publish
					for _, b2 := range set.Blocks {
						for _, in2 := range b2.Instrs {
							if st, ok := in2.(*ssa.Store); ok && (b2 == b && instrIndex(st) > instrIndex(x) || b2 != b && blockReaches(b, b2)) {
								s.bad("Set:write-after-publish", c.InstrPos(st), "store after the slice was published")
							}
						}
					}
				}
			}
		}
	}
	for _, b := range get.Blocks {
		for _, ins := range b.Instrs {
			if st, ok := ins.(*ssa.Store); ok {
				if k, _ := storeRoot(st.Addr); k == "local" {
					continue // copy of an item into a local
				}
				s.bad("Get:store", c.InstrPos(st), "Get writes memory")
			}
		}
	}
	// ... nor through the atomic API: the lock-free reader only loads
	for _, b := range get.Blocks {
		for _, ins := range b.Instrs {
			if call, ok := ins.(*ssa.Call); ok {
				if f := call.Call.StaticCallee(); f != nil && strings.HasPrefix(fnPkgPath(f), "sync/atomic") && f.Name() != "Load" && !strings.HasPrefix(f.Name(), "Load") {
					s.bad("Get:store", c.InstrPos(call), "the lock-free reader updates shared state through atomic."+f.Name()+": state made of more than one word (a cached key and its value) cannot be updated or read as a unit this way, so a reader can pair one goroutine's key with another's value")
				}
			}
		}
	}
	s.ok("Get:read-only", c.Pos(get.Pos()), "Get performs no store")
	// sds.Set only after a descriptor build (or a transaction function around it) returned err == nil
	builders := map[*ssa.Function]bool{}
	if bf := c.buildFn(); bf != nil {
		builders[bf] = true
		for _, tf := range c.transactionFns() {
			builders[tf] = true
		}
	}
	for _, fn := range c.ModuleFuncs(pkgReflect) {
		for _, b := range fn.Blocks {
			for _, ins := range b.Instrs {
				call, ok := ins.(*ssa.Call)
				if !ok || call.Call.StaticCallee() != set {
					continue
				}
				key := shortFn(fn) + ":sds.Set"
				// dominated by the err == nil edge of the build call
				good := false
				for _, cd := range domConds(b) {
					bo, ok := cd.V.(*ssa.BinOp)
					if !ok || !(isNilConst(bo.Y) || isNilConst(bo.X)) {
						continue
					}
					ev := bo.X
					if isNilConst(bo.X) {
						ev = bo.Y
					}
					if ex, ok := ev.(*ssa.Extract); ok {
						if bc, ok := ex.Tuple.(*ssa.Call); ok && builders[bc.Call.StaticCallee()] {
							if bo.Op == token.NEQ && !cd.Truth || bo.Op == token.EQL && cd.Truth {
								good = true
							}
						}
					}
				}
				s.check(good, key, c.InstrPos(call), "published after the build returned err == nil", "descriptor published to the lock-free map without being dominated by the err == nil edge of the descriptor build (before the whole nest of descriptors is known to be complete and valid): readers that do not take the mutex can see a half-built or invalid descriptor")
			}
		}
	}
	// write-once: stores to tType.Sd of non-local objects are under Sd == nil
	for _, fn := range c.ModuleFuncs(pkgReflect) {
		for _, b := range fn.Blocks {
			for _, ins := range b.Instrs {
				st, ok := ins.(*ssa.Store)
				if !ok {
					continue
				}
				recv, typ, f, ok := fieldOf(st.Addr)
				if !ok || typ != "tType" || f != "Sd" || localAlloc(recv) {
					continue
				}
				if isNilConst(st.Val) {
					continue // rollback
				}
				good := false
				for _, cd := range domConds(b) {
					if bo, ok := cd.V.(*ssa.BinOp); ok && (isNilConst(bo.Y) || isNilConst(bo.X)) {
						x := bo.X
						if isNilConst(bo.X) {
							x = bo.Y
						}
						if path(x) == path(st.Addr) && (bo.Op == token.NEQ && !cd.Truth || bo.Op == token.EQL && cd.Truth) {
							good = true
						}
					}
				}
				s.check(good, shortFn(fn)+":Sd-write-once", c.InstrPos(st), "Sd is linked only when it was nil", "tType.Sd of a shared node is overwritten without testing that it was nil")
			}
		}
	}
	return s.obs
}

// loadedFromSlot: the local variable was assigned from an atomic slot load.
func loadedFromSlot(v ssa.Value) bool {
	al, ok := v.(*ssa.Alloc)
	if !ok {
		return false
	}
	for _, r := range referrers(al) {
		if st, ok := r.(*ssa.Store); ok && st.Addr == ssa.Value(al) {
			if u, ok := st.Val.(*ssa.UnOp); ok && u.Op == token.MUL {
				if call, ok := u.X.(*ssa.Call); ok {
					if f := call.Call.StaticCallee(); f != nil && f.Name() == "Load" {
						return true
					}
				}
			}
		}
	}
	return false
}

// journals of the transactional descriptor build
var journals = []string{"reflect.prefetchPendingKeys", "reflect.prefetchPendingTypes"}

func isJournal(k string) bool { return k == journals[0] || k == journals[1] }

// buildFn: the recursive descriptor build = the function that inserts into the prefetch cache.
func (c *Ctx) buildFn() *ssa.Function {
	for _, fn := range c.ModuleFuncs(pkgReflect) {
		for _, b := range fn.Blocks {
			for _, ins := range b.Instrs {
				if mu, ok := ins.(*ssa.MapUpdate); ok {
					if g := rootGlobal(mu.Map); g != nil && globalKey(g) == "reflect.prefetchStructDescCache" {
						return fn
					}
				}
			}
		}
	}
	return nil
}

// staticReach: module functions reachable from fn through static calls (fn included).
func staticReach(fn *ssa.Function) map[*ssa.Function]bool {
	seen := map[*ssa.Function]bool{}
	var walk func(f *ssa.Function)
	walk = func(f *ssa.Function) {
		if f == nil || seen[f] || f.Blocks == nil {
			return
		}
		seen[f] = true
		for _, b := range f.Blocks {
			for _, ins := range b.Instrs {
				if ci, ok := ins.(ssa.CallInstruction); ok {
					walk(ci.Common().StaticCallee())
				}
			}
		}
	}
	walk(fn)
	return seen
}

// transactionFns: the functions that start a build from outside the build's own recursion.
func (c *Ctx) transactionFns() []*ssa.Function {
	build := c.buildFn()
	if build == nil {
		return nil
	}
	inner := staticReach(build)
	var out []*ssa.Function
	for _, fn := range c.ModuleFuncs(pkgReflect) {
		if inner[fn] {
			continue
		}
		if fnHasCall(fn, func(ci ssa.CallInstruction) bool { return ci.Common().StaticCallee() == build }) {
			out = append(out, fn)
		}
	}
	return out
}

// journalEffects summarises what fn (with its static callees, to a small depth) does to the journals:
// which journals it empties, and whether it undoes the journalled cache inserts / Sd links.
type jEffect struct {
	trunc          map[string]bool
	delKeys, nilSd bool
}

func (e jEffect) truncBoth() bool { return e.trunc[journals[0]] && e.trunc[journals[1]] }

func journalEffects(fn *ssa.Function, depth int) jEffect {
	e := jEffect{trunc: map[string]bool{}}
	if fn == nil || fn.Blocks == nil || depth > 3 {
		return e
	}
	for _, b := range fn.Blocks {
		for _, ins := range b.Instrs {
			switch x := ins.(type) {
			case *ssa.Store:
				if g, ok := x.Addr.(*ssa.Global); ok && isJournal(globalKey(g)) && isTruncation(x.Val) {
					e.trunc[globalKey(g)] = true
				}
				if _, typ, f, ok := fieldOf(x.Addr); ok && typ == "tType" && f == "Sd" && isNilConst(x.Val) && strings.HasPrefix(path(x.Addr), "reflect.prefetchPendingTypes[") {
					e.nilSd = true
				}
			case *ssa.Call:
				if isBuiltin(x, "delete") && path(x.Call.Args[0]) == "reflect.prefetchStructDescCache" && strings.HasPrefix(path(x.Call.Args[1]), "reflect.prefetchPendingKeys[") {
					e.delKeys = true
				}
				if f := x.Call.StaticCallee(); f != nil && fnPkgPath(f) == pkgReflect {
					sub := journalEffects(f, depth+1)
					for k := range sub.trunc {
						e.trunc[k] = true
					}
					e.delKeys = e.delKeys || sub.delKeys
					e.nilSd = e.nilSd || sub.nilSd
				}
			}
		}
	}
	return e
}

// isTruncation: v is x[:0] or nil.
func isTruncation(v ssa.Value) bool {
	if sl, ok := v.(*ssa.Slice); ok && sl.High != nil {
		if n, ok := constInt(sl.High); ok && n == 0 {
			return true
		}
	}
	return isNilConst(v)
}

func ruleE3(c *Ctx) []Ob {
	s := newSink(c, "E3.transactional-build")
	sp := c.SSA[pkgReflect]
	build := c.buildFn()
	txs := c.transactionFns()
	if build == nil || len(txs) == 0 {
		s.bad("roles", "-", "no function inserts into the prefetch cache, or the build is started nowhere: a failed build of mutually nested types cannot be rolled back")
		return s.obs
	}
	// (1) in every function that starts a build: every path from the build call to a return passes a call that empties the
	// journals; on the failure edge that call also undoes the journalled inserts and links, on the success edge it does not
	var finishers []*ssa.Function
	inlineFinBlocks := map[*ssa.BasicBlock]bool{}
	for _, tx := range txs {
		var bcall *ssa.Call
		for _, b := range tx.Blocks {
			for _, ins := range b.Instrs {
				if call, ok := ins.(*ssa.Call); ok && call.Call.StaticCallee() == build {
					bcall = call
				}
			}
		}
		fin := map[*ssa.BasicBlock]jEffect{}
		finFn := map[*ssa.BasicBlock]*ssa.Function{}
		for _, b := range tx.Blocks {
			for _, ins := range b.Instrs {
				if call, ok := ins.(*ssa.Call); ok {
					if f := call.Call.StaticCallee(); f != nil && f != build && fnPkgPath(f) == pkgReflect {
						if e := journalEffects(f, 0); e.truncBoth() {
							fin[b] = e
							finFn[b] = f
							finishers = append(finishers, f)
						}
					}
				}
			}
		}
		// the finishing steps written out in this function: a block that truncates both journals itself
		inlineFin := map[*ssa.BasicBlock]bool{}
		for _, b := range tx.Blocks {
			tr := map[string]bool{}
			for _, ins := range b.Instrs {
				if st, ok := ins.(*ssa.Store); ok {
					if g, ok := st.Addr.(*ssa.Global); ok && isJournal(globalKey(g)) && isTruncation(st.Val) {
						tr[globalKey(g)] = true
					}
				}
			}
			if tr[journals[0]] && tr[journals[1]] {
				if _, has := fin[b]; !has {
					fin[b] = jEffect{trunc: tr}
					inlineFin[b] = true
					inlineFinBlocks[b] = true
				}
			}
		}
		var errEdge, okEdge *ssa.BasicBlock // successors of the test of the build's error
		var errTestBlock *ssa.BasicBlock
		for _, r := range referrers(bcall) {
			ex, ok := r.(*ssa.Extract)
			if !ok || !isErrorType(ex.Type()) {
				continue
			}
			for _, rr := range referrers(ex) {
				bo, ok := rr.(*ssa.BinOp)
				if !ok || !(isNilConst(bo.X) || isNilConst(bo.Y)) {
					continue
				}
				for _, r3 := range referrers(bo) {
					if iff, ok := r3.(*ssa.If); ok {
						// the first test after the build (the error may be tested again after a written-out finish)
						if errTestBlock != nil && !(iff.Block().Dominates(errTestBlock) && iff.Block() != errTestBlock) {
							continue
						}
						errTestBlock = iff.Block()
						t, f := iff.Block().Succs[0], iff.Block().Succs[1]
						if bo.Op == token.NEQ {
							errEdge, okEdge = t, f
						} else if bo.Op == token.EQL {
							errEdge, okEdge = f, t
						}
					}
				}
			}
		}
		for _, b := range tx.Blocks {
			ret, ok := b.Instrs[len(b.Instrs)-1].(*ssa.Return)
			if !ok || b == tx.Recover || !(bcall.Block() == b || blockReaches(bcall.Block(), b)) {
				continue
			}
			// search backwards from the return to the build call avoiding finishing blocks
			leak := false
			seen := map[*ssa.BasicBlock]bool{}
			st := []*ssa.BasicBlock{b}
			var via *jEffect
			var viaBlock *ssa.BasicBlock
			viaName := ""
			for len(st) > 0 {
				x := st[len(st)-1]
				st = st[:len(st)-1]
				if seen[x] {
					continue
				}
				seen[x] = true
				if e, ok := fin[x]; ok {
					e := e
					via = &e
					if inlineFin[x] {
						viaName = "the statements at " + c.Pos(firstPos(x))
						viaBlock = x
					} else {
						viaName = finFn[x].Name()
					}
					continue
				}
				if x == bcall.Block() {
					leak = true
					break
				}
				st = append(st, x.Preds...)
			}
			ev := unspill(ret.Results[len(ret.Results)-1], b)
			isErr := definitelyNonNilErr(ev, b)
			onErr := errEdge != nil && (errEdge == b || errEdge.Dominates(b)) && len(errEdge.Preds) == 1
			onOK := okEdge != nil && (okEdge == b || okEdge.Dominates(b)) && len(okEdge.Preds) == 1
			key := shortFn(tx) + ":finish"
			if via != nil && viaBlock != nil && errEdge != nil && okEdge != nil {
				// written-out finish: the undo statements count for a failure return when they lie on the failure edge of the
				// build's error test and cannot be bypassed on the way to the truncation; for a success return they count
				// when they are reachable from the success edge
				undoAt := func(which string) []*ssa.BasicBlock {
					var out []*ssa.BasicBlock
					for _, ub := range tx.Blocks {
						for _, ins := range ub.Instrs {
							switch x := ins.(type) {
							case *ssa.Store:
								if _, typ, f, ok := fieldOf(x.Addr); which == "sd" && ok && typ == "tType" && f == "Sd" && isNilConst(x.Val) && strings.HasPrefix(path(x.Addr), "reflect.prefetchPendingTypes[") {
									out = append(out, ub)
								}
							case *ssa.Call:
								if which == "keys" && isBuiltin(x, "delete") && path(x.Call.Args[0]) == "reflect.prefetchStructDescCache" && strings.HasPrefix(path(x.Call.Args[1]), "reflect.prefetchPendingKeys[") {
									out = append(out, ub)
								}
							}
						}
					}
					return out
				}
				loopHead := func(ub *ssa.BasicBlock) *ssa.BasicBlock {
					for h := ub; h != nil; h = h.Idom() {
						if h != ub && blockReaches(ub, h) && h.Dominates(ub) {
							return h
						}
					}
					return ub
				}
				reachAvoiding := func(from, to, avoid *ssa.BasicBlock) bool {
					seen := map[*ssa.BasicBlock]bool{}
					st := []*ssa.BasicBlock{from}
					for len(st) > 0 {
						x := st[len(st)-1]
						st = st[:len(st)-1]
						if seen[x] || x == avoid {
							continue
						}
						seen[x] = true
						if x == to {
							return true
						}
						st = append(st, x.Succs...)
					}
					return false
				}
				onFailure := func(which string) bool {
					for _, ub := range undoAt(which) {
						h := loopHead(ub)
						if (errEdge == h || errEdge.Dominates(h)) && len(errEdge.Preds) == 1 && !reachAvoiding(errEdge, viaBlock, h) {
							return true
						}
					}
					return false
				}
				onSuccess := func(which string) bool {
					for _, ub := range undoAt(which) {
						if okEdge == ub || blockReaches(okEdge, ub) && !(errEdge == ub || errEdge.Dominates(ub)) {
							return true
						}
					}
					return false
				}
				e2 := jEffect{trunc: via.trunc}
				if isErr || onErr {
					e2.delKeys, e2.nilSd = onFailure("keys"), onFailure("sd")
				} else {
					e2.delKeys, e2.nilSd = onSuccess("keys"), onSuccess("sd")
				}
				via = &e2
			}
			switch {
			case leak:
				s.bad(key, c.InstrPos(ret), "a return after the build is reachable without emptying the journals: the journal of this build stays open and a later failed build rolls back (or a later success commits) the wrong entries")
			case onErr && !isErr:
				s.bad(key, c.InstrPos(ret), "a failed build does not return its error")
			case (isErr || onErr) && !(via.delKeys && via.nilSd):
				s.bad(key, c.InstrPos(ret), "error return after the build does not roll back (the finishing call "+viaName+" does not undo the journalled inserts and links)")
			case (!isErr || onOK) && !onErr && (via.delKeys || via.nilSd):
				s.bad(key, c.InstrPos(ret), "success return after the build does not commit (it undoes the build through "+viaName+")")
			default:
				s.ok(key, c.InstrPos(ret), "finishes the journal with "+viaName)
			}
		}
	}
	// functions that may empty the journals: the finishing calls and everything only they call
	mayTrunc := map[*ssa.Function]bool{}
	for _, f := range finishers {
		for g := range staticReach(f) {
			mayTrunc[g] = true
		}
	}
	for changed := true; changed; {
		changed = false
		for g := range mayTrunc {
			if isFinisher(g, finishers) {
				continue
			}
			// every static caller is itself allowed
			for _, fn := range c.ModuleFuncs(pkgReflect) {
				if mayTrunc[fn] {
					continue
				}
				if fnHasCall(fn, func(ci ssa.CallInstruction) bool { return ci.Common().StaticCallee() == g }) {
					delete(mayTrunc, g)
					changed = true
					break
				}
			}
		}
	}
	// calls that empty a journal are made only at the end of a build (in a function that starts one) or inside the finishing calls
	isTx := map[*ssa.Function]bool{}
	for _, tx := range txs {
		isTx[tx] = true
	}
	finClosure := map[*ssa.Function]bool{}
	for _, f := range finishers {
		for g := range staticReach(f) {
			finClosure[g] = true
		}
	}
	for _, fn := range c.ModuleFuncs(pkgReflect) {
		if isTx[fn] || mayTrunc[fn] {
			continue
		}
		for _, b := range fn.Blocks {
			for _, ins := range b.Instrs {
				if call, ok := ins.(*ssa.Call); ok {
					if f := call.Call.StaticCallee(); f != nil && finClosure[f] && len(journalEffects(f, 0).trunc) > 0 {
						s.bad(shortFn(fn)+":journal-store", c.InstrPos(call), "the build journal is emptied by "+f.Name()+" outside the commit/rollback of a build: entries of the running build are forgotten and a rollback leaves their descriptors in the caches")
					}
				}
			}
		}
	}
	// (2) journalling at the write sites
	for _, fn := range c.ModuleFuncs(pkgReflect) {
		if isInitFn(fn) {
			continue
		}
		for _, b := range fn.Blocks {
			for i, ins := range b.Instrs {
				switch x := ins.(type) {
				case *ssa.Store:
					recv, typ, f, ok := fieldOf(x.Addr)
					if !ok || typ != "tType" || f != "Sd" || localAlloc(recv) || isNilConst(x.Val) {
						continue
					}
					good := appendsTo(b, i, "reflect.prefetchPendingTypes", recv)
					s.check(good, shortFn(fn)+":journal-Sd", c.InstrPos(x), "link is journalled for rollback", "tType.Sd is linked without recording the node in prefetchPendingTypes: a failed build cannot undo the link and the next build of the same invalid type skips the failing member")
				case *ssa.MapUpdate:
					if g := rootGlobal(x.Map); g != nil && globalKey(g) == "reflect.prefetchStructDescCache" {
						good := appendsTo(b, i, "reflect.prefetchPendingKeys", x.Key)
						s.check(good, shortFn(fn)+":journal-cache", c.InstrPos(x), "cache insert is journalled for rollback", "prefetch cache insert is not recorded in prefetchPendingKeys")
					}
				}
			}
		}
	}
	// (2a) a function that links descriptors into shared type nodes changes nothing else in them: rollback knows how to undo
	// the Sd links it finds in the journal, and nothing more (a "visited" mark that survives a failed build makes the next
	// build skip the members whose links were taken back)
	for _, fn := range c.ModuleFuncs(pkgReflect) {
		if isInitFn(fn) {
			continue
		}
		links := false
		for _, b := range fn.Blocks {
			for _, ins := range b.Instrs {
				if x, ok := ins.(*ssa.Store); ok {
					if recv, typ, f, ok := fieldOf(x.Addr); ok && typ == "tType" && f == "Sd" && !localAlloc(recv) && !isNilConst(x.Val) {
						links = true
					}
				}
			}
		}
		if !links {
			continue
		}
		for _, b := range fn.Blocks {
			for _, ins := range b.Instrs {
				x, ok := ins.(*ssa.Store)
				if !ok {
					continue
				}
				recv, typ, f, ok := fieldOf(x.Addr)
				if !ok || typ != "tType" && typ != "structDesc" && typ != "tField" || f == "Sd" || localAlloc(recv) {
					continue
				}
				s.bad(shortFn(fn)+":journal-other", c.InstrPos(x), "a shared descriptor node is modified ("+typ+"."+f+") by the function that links descriptors during a build, and the build journal records only Sd links and cache inserts: after a failed build rollback takes the links back but this change stays, so a later build of a valid type is not completed")
			}
		}
	}
	// (2b) the journals are only ever appended to (at the write sites) or emptied (by the finishing calls): truncating them
	// anywhere else makes a later rollback forget entries of the same build
	for _, fn := range c.ModuleFuncs(pkgReflect) {
		for _, b := range fn.Blocks {
			for _, ins := range b.Instrs {
				st, ok := ins.(*ssa.Store)
				if !ok {
					continue
				}
				g, ok := st.Addr.(*ssa.Global)
				if !ok || !isJournal(globalKey(g)) {
					continue
				}
				good := false
				if call, ok := st.Val.(*ssa.Call); ok && isBuiltin(call, "append") && path(call.Call.Args[0]) == globalKey(g) {
					good = true
				}
				if mayTrunc[fn] && isTruncation(st.Val) {
					good = true
				}
				if isTx[fn] && inlineFinBlocks[b] && isTruncation(st.Val) {
					good = true
				}
				if isInitFn(fn) {
					good = true
				}
				s.check(good, shortFn(fn)+":journal-store", c.InstrPos(st), "journal is appended to / emptied by the finishing call", "the build journal "+globalKey(g)+" is overwritten or truncated outside the commit/rollback of a build: entries of the running build are forgotten and a rollback leaves their descriptors in the caches")
			}
		}
	}
	// (2c) the prefetch walk reaches every nested struct: map keys and values, list/set elements, struct fields
	if fs := sp.Func("fetchStructDesc"); fs != nil {
		t := fs.Params[0].Name()
		rec := map[string]bool{}
		for _, b := range fs.Blocks {
			for _, ins := range b.Instrs {
				if call, ok := ins.(*ssa.Call); ok && call.Call.StaticCallee() == fs {
					rec[path(call.Call.Args[0])] = true
				}
			}
		}
		// ... and for every container kind: the element walk runs for LIST and for SET, the key and value walks for MAP
		if k, err := c.kinds(); err == nil {
			cover := map[string]map[string]bool{"K": {}, "V": {}}
			for _, b := range fs.Blocks {
				for _, ins := range b.Instrs {
					call, ok := ins.(*ssa.Call)
					if !ok || call.Call.StaticCallee() != fs {
						continue
					}
					which := strings.TrimPrefix(path(call.Call.Args[0]), t+".")
					if cover[which] == nil {
						continue
					}
					cs, _ := caseSet(b, ".T")
					if cs == nil {
						// not under a kind test at all: runs for every kind
						for _, kn := range []string{"MAP", "LIST", "SET"} {
							cover[which][kn] = true
						}
						for _, cd := range domConds(b) {
							if l, op, r, ok := relOf(cd.V, cd.Truth, descInt); ok && (op == "==" || op == "!=") && (strings.HasSuffix(l, ".T") || strings.HasSuffix(r, ".T")) {
								// a kind comparison the case-set reader could not fold: be exact instead of optimistic
								cover[which] = map[string]bool{}
								for _, cd2 := range domConds(b) {
									if l2, op2, r2, ok2 := relOf(cd2.V, cd2.Truth, descInt); ok2 && op2 == "==" {
										for _, kn := range []string{"MAP", "LIST", "SET"} {
											if l2 == fmt.Sprint(k.byName[kn]) || r2 == fmt.Sprint(k.byName[kn]) {
												cover[which][kn] = true
											}
										}
									}
								}
								break
							}
						}
						continue
					}
					for _, v := range cs {
						cover[which][k.nameOf(v)] = true
					}
				}
			}
			var lacks []string
			if !cover["K"]["MAP"] {
				lacks = append(lacks, "map keys")
			}
			if !cover["V"]["MAP"] {
				lacks = append(lacks, "map values")
			}
			if !cover["V"]["LIST"] {
				lacks = append(lacks, "list elements")
			}
			if !cover["V"]["SET"] {
				lacks = append(lacks, "set elements")
			}
			s.check(len(lacks) == 0, "fetchStructDesc:kinds", c.Pos(fs.Pos()), "the descriptor walk descends for MAP (key and value), LIST and SET", "the descriptor walk does not descend into "+strings.Join(lacks, ", ")+": a struct that occurs only there keeps a nil descriptor and its first use crashes (note: a `case` with an empty body does not fall through in Go)")
		}
		s.check(rec[t+".K"] && rec[t+".V"], "fetchStructDesc:recursion", c.Pos(fs.Pos()), "descends into map keys, map values and list/set elements", fmt.Sprintf("fetchStructDesc recurses into %v only: a struct that occurs only as a map key (or element) keeps a nil descriptor and the first use crashes", keysOf(rec)))
	}
	if ps := sp.Func("prefetchSubStructDesc"); ps != nil {
		k, _ := c.kinds()
		have := map[string]bool{}
		for _, b := range ps.Blocks {
			for _, ins := range b.Instrs {
				if call, ok := ins.(*ssa.Call); ok && call.Call.StaticCallee() != nil && call.Call.StaticCallee().Name() == "fetchStructDesc" {
					if cs, _ := caseSet(b, ".T"); cs != nil {
						for _, v := range cs {
							have[k.nameOf(v)] = true
						}
					} else {
						// guard by a table of kinds (containerTypes) or no guard at all: every field is visited
						have["STRUCT"], have["MAP"], have["LIST"], have["SET"] = true, true, true, true
						for _, cd := range domConds(b) {
							if _, ok := cd.V.(*ssa.BinOp); ok && !isLoopHeader(cd.If.Block()) {
								// an extra comparison restricts the kinds: evaluate conservatively
								have = map[string]bool{}
								for _, cd2 := range domConds(b) {
									if l, op, r, ok := relOf(cd2.V, cd2.Truth, descInt); ok && op == "==" {
										for _, kn := range []string{"STRUCT", "MAP", "LIST", "SET"} {
											if l == fmt.Sprint(k.byName[kn]) || r == fmt.Sprint(k.byName[kn]) {
												have[kn] = true
											}
										}
									}
									if u, ok := cd2.V.(*ssa.UnOp); ok && strings.Contains(path(u), "containerTypes[") && cd2.Truth {
										have["MAP"], have["LIST"], have["SET"] = true, true, true
									}
								}
							}
						}
					}
				}
			}
		}
		s.check(have["STRUCT"] && have["MAP"] && have["LIST"] && have["SET"], "prefetchSubStructDesc:kinds", c.Pos(ps.Pos()), "struct, map, list and set fields are prefetched", fmt.Sprintf("prefetch visits only kinds %v", keysOf(have)))
	}
	// (3) the undoing finisher reads the journals before it empties them
	for _, rb := range dedupFns(finishers) {
		e := journalEffects(rb, 0)
		if !(e.delKeys || e.nilSd) {
			continue
		}
		s.check(e.delKeys && e.nilSd, shortFn(rb)+":body", c.Pos(rb.Pos()), "deletes every journalled key and clears every journalled Sd", "rollback does not undo both the cache inserts and the Sd links")
		// ordering inside the function that contains the undo loops
		for g := range staticReach(rb) {
			var truncs, reads []ssa.Instruction
			for _, b := range g.Blocks {
				for _, ins := range b.Instrs {
					switch x := ins.(type) {
					case *ssa.Store:
						if gl, ok := x.Addr.(*ssa.Global); ok && isJournal(globalKey(gl)) && isTruncation(x.Val) {
							truncs = append(truncs, ins)
						}
					case *ssa.Call:
						if f := x.Call.StaticCallee(); f != nil && fnPkgPath(f) == pkgReflect && len(journalEffects(f, 1).trunc) > 0 {
							truncs = append(truncs, ins)
						}
					case *ssa.UnOp:
						if gl, ok := x.X.(*ssa.Global); ok && x.Op == token.MUL && isJournal(globalKey(gl)) {
							// a read that feeds the truncation itself (x = x[:0]) is not an undo read
							feeds := false
							for _, r := range referrers(x) {
								if sl, ok := r.(*ssa.Slice); ok && isTruncation(sl) {
									feeds = true
								}
							}
							if !feeds {
								reads = append(reads, ins)
							}
						}
					}
				}
			}
			for _, t := range truncs {
				for _, r := range reads {
					before := t.Block() == r.Block() && instrIndex(t) < instrIndex(r) || t.Block() != r.Block() && blockReaches(t.Block(), r.Block())
					if before {
						s.bad(shortFn(g)+":empties-last", c.InstrPos(t), "the journal is emptied before it is read back: the rollback undoes nothing")
					}
				}
			}
		}
		s.ok(shortFn(rb)+":empties", c.Pos(rb.Pos()), "journals are emptied after the undo")
	}
	return s.obs
}

func isFinisher(f *ssa.Function, fs []*ssa.Function) bool {
	for _, g := range fs {
		if f == g {
			return true
		}
	}
	return false
}

func dedupFns(fs []*ssa.Function) []*ssa.Function {
	seen := map[*ssa.Function]bool{}
	var out []*ssa.Function
	for _, f := range fs {
		if !seen[f] {
			seen[f] = true
			out = append(out, f)
		}
	}
	sort.Slice(out, func(i, j int) bool { return out[i].Pos() < out[j].Pos() })
	return out
}

// appendsTo: after instruction index i in block b there is `journal = append(journal, v)`, directly or through a helper
// whose body appends its parameter.
func appendsTo(b *ssa.BasicBlock, i int, journal string, v ssa.Value) bool {
	for _, ins := range b.Instrs[i+1:] {
		if call, ok := ins.(*ssa.Call); ok {
			if f := call.Call.StaticCallee(); f != nil && f.Blocks != nil && fnPkgPath(f) == pkgReflect {
				for k, prm := range f.Params {
					if k < len(call.Call.Args) && (call.Call.Args[k] == v || path(call.Call.Args[k]) == path(v)) {
						for _, fb := range f.Blocks {
							if appendsTo(fb, -1, journal, prm) && fb.Dominates(exitBlockOf(f)) {
								return true
							}
						}
					}
				}
			}
			continue
		}
		st, ok := ins.(*ssa.Store)
		if !ok {
			continue
		}
		g, ok := st.Addr.(*ssa.Global)
		if !ok || globalKey(g) != journal {
			continue
		}
		call, ok := st.Val.(*ssa.Call)
		if !ok || !isBuiltin(call, "append") {
			continue
		}
		// appended element: stored into the varargs array
		if sl, ok := call.Call.Args[1].(*ssa.Slice); ok {
			if al, ok := sl.X.(*ssa.Alloc); ok {
				for _, r := range referrers(al) {
					if ia, ok := r.(*ssa.IndexAddr); ok {
						for _, rr := range referrers(ia) {
							if s2, ok := rr.(*ssa.Store); ok && (s2.Val == v || path(s2.Val) == path(v)) {
								return true
							}
						}
					}
				}
			}
		}
	}
	return false
}

// exitBlockOf: the single returning block of f, or its entry block when there are several (so that only an
// unconditional append is accepted).
func exitBlockOf(f *ssa.Function) *ssa.BasicBlock {
	var rets []*ssa.BasicBlock
	for _, b := range f.Blocks {
		if _, ok := b.Instrs[len(b.Instrs)-1].(*ssa.Return); ok {
			rets = append(rets, b)
		}
	}
	if len(rets) == 1 {
		return rets[0]
	}
	return f.Blocks[0]
}

// ---------------------------------------------------------------- the built descriptor is published under the lookup key

// getStructDesc / getOrcreateStructDesc look a descriptor up under the type word of the argument. After a successful build
// createStructDesc must leave it there: under the struct type itself (the key of a by-value argument) and, for a pointer
// argument, under the pointer type. Otherwise every later call builds - or at least locks and searches - again: the first-use
// path, which the allocation rule exempts and the lock rule serialises, would be the common path.
func publishKeys(c *Ctx, s *obSink) {
	fn := c.SSA[pkgReflect].Func("createStructDesc")
	if fn == nil || len(fn.Params) != 1 {
		s.bad("publish-keys", "-", "createStructDesc not found")
		return
	}
	var build *ssa.Call
	var sets []*ssa.Call
	for _, b := range fn.Blocks {
		for _, ins := range b.Instrs {
			call, ok := ins.(*ssa.Call)
			if !ok || call.Call.StaticCallee() == nil {
				continue
			}
			switch shortFn(call.Call.StaticCallee()) {
			case "newStructDescAndPrefetch":
				build = call
			case "mapStructDesc.Set":
				sets = append(sets, call)
			}
		}
	}
	if build == nil {
		s.bad("publish-keys", c.Pos(fn.Pos()), "the descriptor build call was not found in createStructDesc")
		return
	}
	// the success return after the build
	var succ *ssa.BasicBlock
	for _, b := range fn.Blocks {
		ret, ok := b.Instrs[len(b.Instrs)-1].(*ssa.Return)
		if !ok || len(ret.Results) != 2 || b == fn.Recover {
			continue
		}
		if build.Block().Dominates(b) && !definitelyNonNilErr(unspill(ret.Results[1], b), b) {
			succ = b
		}
	}
	if succ == nil {
		s.bad("publish-keys", c.Pos(fn.Pos()), "no success return after the build")
		return
	}
	isBuilt := func(v ssa.Value) bool {
		v = unspill(v, succ)
		if ex, ok := v.(*ssa.Extract); ok {
			return ex.Tuple == ssa.Value(build) && ex.Index == 0
		}
		return false
	}
	ptrKind := int64(22)
	if rp := c.ByPath["reflect"]; rp != nil {
		if o, ok := rp.Types.Scope().Lookup("Ptr").(*types.Const); ok {
			if v, ok := constant.Int64Val(o.Val()); ok {
				ptrKind = v
			}
		}
	}
	elemOK, argOK := false, false
	var elemPos, argPos string
	for _, st := range sets {
		if len(st.Call.Args) != 3 || !isBuilt(st.Call.Args[2]) || !build.Block().Dominates(st.Block()) {
			continue
		}
		kc, ok := st.Call.Args[1].(*ssa.Call)
		if !ok || kc.Call.StaticCallee() == nil {
			continue
		}
		switch kc.Call.StaticCallee().Name() {
		case "rtTypePtr":
			// the struct type: unconditionally on the way to the success return
			if st.Block().Dominates(succ) {
				elemOK, elemPos = true, c.InstrPos(st)
			}
		case "rvTypePtr":
			if len(kc.Call.Args) != 1 || unspillParam(kc.Call.Args[0]) != ssa.Value(fn.Params[0]) {
				continue
			}
			// exactly for a pointer argument: the only condition between the build and this store is Kind() == Ptr
			ptr := false
			other := false
			for _, cd := range domConds(st.Block()) {
				if cd.If == nil || !build.Block().Dominates(cd.If.Block()) || cd.If.Block() == build.Block() {
					continue
				}
				bo, ok := cd.V.(*ssa.BinOp)
				if ok {
					if k, isK := constInt(bo.Y); isK && k == ptrKind && (bo.Op == token.EQL && cd.Truth || bo.Op == token.NEQ && !cd.Truth) {
						if kc2, ok := bo.X.(*ssa.Call); ok && kc2.Call.StaticCallee() != nil && kc2.Call.StaticCallee().String() == "(reflect.Value).Kind" {
							ptr = true
							continue
						}
					}
					// the error test of the build itself
					if isNilConst(bo.Y) || isNilConst(bo.X) {
						continue
					}
				}
				other = true
			}
			if ptr && !other && blockReaches(st.Block(), succ) {
				argOK, argPos = true, c.InstrPos(st)
			}
		}
	}
	s.check(elemOK, "publish-keys:struct-type", orDash(elemPos, c.Pos(fn.Pos())), "the built descriptor is stored under the struct type before the success return", "after a successful build the descriptor is not stored in the lock-free map under the struct type: a by-value argument of this type takes the locked first-use path on every call")
	s.check(argOK, "publish-keys:pointer-type", orDash(argPos, c.Pos(fn.Pos())), "for a pointer argument the descriptor is also stored under the pointer type, the key of the lock-free lookup", "after a successful build the descriptor is not stored under the pointer type exactly when the argument is a pointer: the lock-free lookup by the argument's type word never hits, and every call with a pointer takes the locked first-use path again")
}

func orDash(a, b string) string {
	if a != "" {
		return a
	}
	return b
}

func init() {
	registerExtra("E1.cow-publish", publishKeys)
	registerExtra("E10.no-heap", publishKeys)
}
