package main

import (
	_ "embed"
	"fmt"
	"go/ast"
	"go/token"
	"go/types"
	"sort"
	"strings"

	"golang.org/x/tools/go/packages"
)

// Undoing renames of local variables.
//
// Some guards of the refusal catalogue are stated over the text of a condition (`len(ft) == 0`, `rx != Optional`), which
// names parameters and local variables of the reference functions. A change that renames such a variable keeps behaviour.
// After the declarations have been normalised (rename.go), a reference function whose parameters, results and local
// variables are the same in number and have the same types in the same order of declaration as in the reference tree, but
// other names, gets the reference names back in the overlay. The pairing is positional and all-or-nothing per function: a
// function that gained or lost a variable is left alone. known_locals.txt is regenerated with `frugalvet -dumplocals`.

//go:embed known_locals.txt
var knownLocalsTxt string

type localDecl struct {
	name, typ string
	obj       types.Object
}

// localsOf lists the variables a function declaration declares (receiver, parameters, results, locals, also of closures) in
// source order.
func localsOf(fd *ast.FuncDecl, info *types.Info) []localDecl {
	var ids []*ast.Ident
	ast.Inspect(fd, func(n ast.Node) bool {
		if id, ok := n.(*ast.Ident); ok && id.Name != "_" {
			if v, ok := info.Defs[id].(*types.Var); ok && !v.IsField() {
				ids = append(ids, id)
			}
		}
		return true
	})
	sort.Slice(ids, func(i, j int) bool { return ids[i].Pos() < ids[j].Pos() })
	var out []localDecl
	for _, id := range ids {
		o := info.Defs[id]
		out = append(out, localDecl{id.Name, typeStr(o.Type()), o})
	}
	return out
}

func dumpLocals(modPkgs []*packages.Package) []string {
	var out []string
	for _, p := range modPkgs {
		if p.TypesInfo == nil {
			continue
		}
		for _, f := range p.Syntax {
			for _, d := range f.Decls {
				fd, ok := d.(*ast.FuncDecl)
				if !ok || fd.Body == nil {
					continue
				}
				var parts []string
				for _, l := range localsOf(fd, p.TypesInfo) {
					parts = append(parts, l.name+"\x1f"+l.typ)
				}
				out = append(out, funcDeclKey(p.PkgPath, fd)+"\t"+strings.Join(parts, "\x1e"))
			}
		}
	}
	sort.Strings(out)
	return out
}

func undoLocalRenames(modPkgs []*packages.Package, fset *token.FileSet, readSrc func(string) []byte) (map[string][]byte, []string) {
	ref := map[string][]localDecl{}
	for _, l := range strings.Split(knownLocalsTxt, "\n") {
		if l == "" || strings.HasPrefix(l, "#") {
			continue
		}
		f := strings.SplitN(l, "\t", 3)
		if len(f) < 3 {
			continue
		}
		var ds []localDecl
		if f[2] != "" {
			for _, part := range strings.Split(f[2], "\x1e") {
				nt := strings.SplitN(part, "\x1f", 2)
				if len(nt) == 2 {
					ds = append(ds, localDecl{name: nt[0], typ: nt[1]})
				}
			}
		}
		ref[f[0]+"\t"+f[1]] = ds
	}
	overlay := map[string][]byte{}
	var notes []string
	for _, p := range modPkgs {
		info := p.TypesInfo
		if info == nil {
			continue
		}
		for _, f := range p.Syntax {
			tf := fset.File(f.Pos())
			if tf == nil {
				continue
			}
			rename := map[types.Object]string{}
			for _, d := range f.Decls {
				fd, ok := d.(*ast.FuncDecl)
				if !ok || fd.Body == nil {
					continue
				}
				want, has := ref[funcDeclKey(p.PkgPath, fd)]
				if !has {
					continue
				}
				cur := localsOf(fd, info)
				if len(cur) != len(want) || len(cur) == 0 {
					continue
				}
				same, differs := true, false
				for i := range cur {
					if cur[i].typ != want[i].typ {
						same = false
						break
					}
					if cur[i].name != want[i].name {
						differs = true
					}
				}
				if !same || !differs {
					continue
				}
				n := 0
				for i := range cur {
					if cur[i].name != want[i].name {
						rename[cur[i].obj] = want[i].name
						n++
					}
				}
				notes = append(notes, fmt.Sprintf("read %d renamed local variable(s) of %s under their reference names", n, fd.Name.Name))
			}
			if len(rename) == 0 {
				continue
			}
			src := readSrc(tf.Name())
			if src == nil {
				continue
			}
			var edits []textEdit
			ast.Inspect(f, func(n ast.Node) bool {
				id, ok := n.(*ast.Ident)
				if !ok {
					return true
				}
				o := info.Defs[id]
				if o == nil {
					o = info.Uses[id]
				}
				if nn, ok := rename[o]; ok && id.Name != nn {
					edits = append(edits, textEdit{tf.Offset(id.Pos()), tf.Offset(id.End()), nn})
				}
				return true
			})
			if out := applyEdits(src, edits, 0, len(src)); out != "" {
				overlay[tf.Name()] = []byte(out)
			}
		}
	}
	return overlay, notes
}

// bindingShape: for every function declaration of the given files, which declaring identifier each identifier resolves to
// (by ordinal within the function; -1 for anything declared outside it). Two versions of a file that differ only by a
// capture-free renaming of locals have the same shape; a renaming that makes a use resolve to another variable does not.
func bindingShape(modPkgs []*packages.Package, fset *token.FileSet, files map[string]bool) map[string][]int {
	out := map[string][]int{}
	for _, p := range modPkgs {
		if p.TypesInfo == nil {
			continue
		}
		for _, f := range p.Syntax {
			tf := fset.File(f.Pos())
			if tf == nil || !files[tf.Name()] {
				continue
			}
			for di, d := range f.Decls {
				fd, ok := d.(*ast.FuncDecl)
				if !ok || fd.Body == nil {
					continue
				}
				var ids []*ast.Ident
				ast.Inspect(fd, func(n ast.Node) bool {
					if id, ok := n.(*ast.Ident); ok {
						ids = append(ids, id)
					}
					return true
				})
				declAt := map[types.Object]int{}
				for i, id := range ids {
					if o := p.TypesInfo.Defs[id]; o != nil {
						declAt[o] = i
					}
				}
				shape := make([]int, len(ids))
				for i, id := range ids {
					shape[i] = -1
					o := p.TypesInfo.Defs[id]
					if o == nil {
						o = p.TypesInfo.Uses[id]
					}
					if o != nil {
						if k, ok := declAt[o]; ok {
							shape[i] = k
						}
					}
				}
				out[fmt.Sprintf("%s#%d", tf.Name(), di)] = shape
			}
		}
	}
	return out
}

func sameShapes(a, b map[string][]int) bool {
	if len(a) != len(b) {
		return false
	}
	for k, x := range a {
		y, ok := b[k]
		if !ok || len(x) != len(y) {
			return false
		}
		for i := range x {
			if x[i] != y[i] {
				return false
			}
		}
	}
	return true
}
