package main

import (
	"fmt"
	"go/token"
	"go/types"
	"math"
	"sort"
	"strings"

	"golang.org/x/tools/go/callgraph"
	"golang.org/x/tools/go/ssa"
)

func init() {
	register(&Rule{ID: "E4.array-index", Min: 6,
		Text: "every index into a fixed-size array made by a function reachable from the codec entry points - in this module or in the thrift helper package it calls - is within the array by the value range of its operand (type width, masks, shifts, constants, dominating comparisons); a signed narrow operand (e.g. a wire type byte held as int8) needs a dominating non-negativity test, or every call path from the decoder to the function passes a function that recovers the panic into an error",
		Run:  ruleArrayIndex})
}

const gopkgPrefix = "github.com/cloudwego/gopkg/"

type ivl struct {
	lo, hi int64
	known  bool // false: nothing known beyond 64 bits
}

func typeIvl(t types.Type) ivl {
	b, ok := t.Underlying().(*types.Basic)
	if !ok {
		return ivl{}
	}
	switch b.Kind() {
	case types.Bool:
		return ivl{0, 1, true}
	case types.Uint8:
		return ivl{0, math.MaxUint8, true}
	case types.Int8:
		return ivl{math.MinInt8, math.MaxInt8, true}
	case types.Uint16:
		return ivl{0, math.MaxUint16, true}
	case types.Int16:
		return ivl{math.MinInt16, math.MaxInt16, true}
	case types.Uint32:
		return ivl{0, math.MaxUint32, true}
	case types.Int32:
		return ivl{math.MinInt32, math.MaxInt32, true}
	case types.Uint, types.Uint64, types.Uintptr:
		return ivl{0, math.MaxInt64, false}
	}
	return ivl{math.MinInt64, math.MaxInt64, false}
}

func (a ivl) within(b ivl) bool { return a.lo >= b.lo && a.hi <= b.hi }

func valueIvl(v ssa.Value, depth int, seen map[ssa.Value]bool) ivl {
	tr := typeIvl(v.Type())
	if depth > 8 || seen[v] {
		return tr
	}
	seen[v] = true
	defer delete(seen, v)
	clip := func(r ivl) ivl {
		if r.lo < tr.lo || r.hi > tr.hi {
			return tr // may wrap
		}
		r.known = true
		return r
	}
	switch x := v.(type) {
	case *ssa.Const:
		if n, ok := constInt(x); ok {
			return ivl{n, n, true}
		}
	case *ssa.Convert:
		src := valueIvl(x.X, depth+1, seen)
		if (src.known || src.lo >= 0) && src.within(tr) {
			src.known = true
			return src
		}
		return tr
	case *ssa.ChangeType:
		return valueIvl(x.X, depth+1, seen)
	case *ssa.Extract:
		if call, ok := x.Tuple.(*ssa.Call); ok {
			if r, ok := calleeResultIvl(call, x.Index, depth, seen); ok {
				return r
			}
		}
	case *ssa.Call:
		if r, ok := calleeResultIvl(x, 0, depth, seen); ok {
			return r
		}
	case *ssa.Phi:
		out := ivl{math.MaxInt64, math.MinInt64, true}
		for _, e := range x.Edges {
			r := valueIvl(e, depth+1, seen)
			if r.lo < out.lo {
				out.lo = r.lo
			}
			if r.hi > out.hi {
				out.hi = r.hi
			}
			out.known = out.known && r.known
		}
		return out
	case *ssa.BinOp:
		a, b := valueIvl(x.X, depth+1, seen), valueIvl(x.Y, depth+1, seen)
		switch x.Op {
		case token.AND:
			if b.lo == b.hi && b.lo >= 0 {
				return ivl{0, b.lo, true}
			}
			if a.lo == a.hi && a.lo >= 0 {
				return ivl{0, a.lo, true}
			}
			if a.lo >= 0 && b.lo >= 0 {
				h := a.hi
				if b.hi < h {
					h = b.hi
				}
				return ivl{0, h, true}
			}
		case token.SHR:
			if b.lo == b.hi && b.lo >= 0 && b.lo < 63 && a.lo >= 0 {
				return ivl{a.lo >> uint(b.lo), a.hi >> uint(b.lo), true}
			}
		case token.QUO:
			if b.lo == b.hi && b.lo > 0 && a.lo >= 0 {
				return ivl{a.lo / b.lo, a.hi / b.lo, true}
			}
		case token.REM:
			if b.lo == b.hi && b.lo > 0 && a.lo >= 0 {
				return ivl{0, b.lo - 1, true}
			}
		case token.ADD:
			if a.known && b.known {
				return clip(ivl{a.lo + b.lo, a.hi + b.hi, true})
			}
		case token.SUB:
			if a.known && b.known {
				return clip(ivl{a.lo - b.hi, a.hi - b.lo, true})
			}
		case token.MUL:
			if a.known && b.known && a.lo >= 0 && b.lo >= 0 && a.hi < 1<<31 && b.hi < 1<<31 {
				return clip(ivl{a.lo * b.lo, a.hi * b.hi, true})
			}
		}
	}
	return tr
}

// refineByGuards narrows the range of v with the comparisons against constants that dominate block b.
func refineByGuards(v ssa.Value, r ivl, b *ssa.BasicBlock) ivl {
	dv := descInt(v)
	for _, cd := range domConds(b) {
		l, op, rr, ok := relOf(cd.V, cd.Truth, descInt)
		if !ok {
			continue
		}
		var cst int64
		switch {
		case l == dv:
			if _, err := fmt.Sscan(rr, &cst); err != nil {
				continue
			}
			switch op {
			case "<":
				if cst-1 < r.hi {
					r.hi = cst - 1
				}
			case "<=":
				if cst < r.hi {
					r.hi = cst
				}
			case "==":
				r.lo, r.hi = cst, cst
			}
		case rr == dv:
			if _, err := fmt.Sscan(l, &cst); err != nil {
				continue
			}
			switch op {
			case "<":
				if cst+1 > r.lo {
					r.lo = cst + 1
				}
			case "<=":
				if cst > r.lo {
					r.lo = cst
				}
			case "==":
				r.lo, r.hi = cst, cst
			}
		}
	}
	return r
}

// recovers: fn defers a function literal that calls recover() (and so turns a panic of its callees into its own result).
func recovers(fn *ssa.Function) bool {
	for _, b := range fn.Blocks {
		for _, ins := range b.Instrs {
			d, ok := ins.(*ssa.Defer)
			if !ok {
				continue
			}
			var lit *ssa.Function
			switch x := d.Call.Value.(type) {
			case *ssa.MakeClosure:
				lit, _ = x.Fn.(*ssa.Function)
			case *ssa.Function:
				lit = x
			}
			if lit == nil {
				continue
			}
			// the recovered panic becomes the function's error result: where recover() returned something, a non-nil error is
			// stored into a captured error variable (the named result)
			var rec *ssa.Call
			for _, lb := range lit.Blocks {
				for _, li := range lb.Instrs {
					if call, ok := li.(*ssa.Call); ok {
						if bi, ok := call.Call.Value.(*ssa.Builtin); ok && bi.Name() == "recover" {
							rec = call
						}
					}
				}
			}
			if rec == nil {
				continue
			}
			for _, lb := range lit.Blocks {
				for _, li := range lb.Instrs {
					st, ok := li.(*ssa.Store)
					if !ok {
						continue
					}
					// the named result: captured by the literal, or handed to a deferred function by address
					var fv ssa.Value
					switch a := st.Addr.(type) {
					case *ssa.FreeVar:
						fv = a
					case *ssa.Parameter:
						fv = a
					}
					if fv == nil {
						continue
					}
					pt, ok := fv.Type().Underlying().(*types.Pointer)
					if !ok || !isErrorType(pt.Elem()) || !definitelyNonNilErr(st.Val, lb) {
						continue
					}
					for _, cd := range domConds(lb) {
						if bo, ok := cd.V.(*ssa.BinOp); ok && (bo.X == ssa.Value(rec) || bo.Y == ssa.Value(rec)) && (isNilConst(bo.X) || isNilConst(bo.Y)) {
							if bo.Op == token.NEQ && cd.Truth || bo.Op == token.EQL && !cd.Truth {
								return true
							}
						}
					}
				}
			}
		}
	}
	return false
}

func ruleArrayIndex(c *Ctx) []Ob {
	s := newSink(c, "E4.array-index")
	roots := c.apiRoots()
	if len(roots) == 0 {
		s.bad("roots", "-", "codec entry points not found")
		return s.obs
	}
	inScope := func(f *ssa.Function) bool {
		return f.Blocks != nil && (c.InModule(f) || strings.HasPrefix(fnPkgPath(f), gopkgPrefix))
	}
	all := c.reachableFrom(roots, nil)
	// functions still reachable when calls out of recovering functions are not followed
	unprotected := c.reachableFrom(roots, func(e *callgraph.Edge) bool {
		return e.Caller.Func != nil && recovers(e.Caller.Func)
	})
	var fns []*ssa.Function
	for f := range all {
		if inScope(f) {
			fns = append(fns, f)
		}
	}
	sort.Slice(fns, func(i, j int) bool {
		if fnPkgPath(fns[i]) != fnPkgPath(fns[j]) {
			return fnPkgPath(fns[i]) < fnPkgPath(fns[j])
		}
		return fns[i].Pos() < fns[j].Pos()
	})
	for _, fn := range fns {
		for _, b := range fn.Blocks {
			for _, ins := range b.Instrs {
				var arr types.Type
				var idx ssa.Value
				var name string
				switch x := ins.(type) {
				case *ssa.IndexAddr:
					if pt, ok := x.X.Type().Underlying().(*types.Pointer); ok {
						arr, idx, name = pt.Elem(), x.Index, path(x.X)
					}
				case *ssa.Index:
					arr, idx, name = x.X.Type(), x.Index, path(x.X)
				}
				if arr == nil {
					continue
				}
				at, ok := arr.Underlying().(*types.Array)
				if !ok {
					continue
				}
				if al, ok := rootOfAddr(ins.(ssa.Value)).(*ssa.Alloc); ok && strings.HasPrefix(al.Comment, "varargs") {
					continue // compiler-made argument arrays, constant indices
				}
				r := valueIvl(idx, 0, map[ssa.Value]bool{})
				r = refineByGuards(idx, r, b)
				key := shortFn(fn) + ":" + strings.TrimPrefix(name, "&") + "[" + descInt(idx) + "]"
				if !c.InModule(fn) {
					key = fnPkgPath(fn)[strings.LastIndex(fnPkgPath(fn), "/")+1:] + "." + key
				}
				pos := c.InstrPos(ins)
				switch {
				case r.lo >= 0 && r.hi < at.Len():
					s.ok(key, pos, fmt.Sprintf("index in [%d, %d] of an array of %d", r.lo, r.hi, at.Len()))
				case !unprotected[fn]:
					s.ok(key, pos, fmt.Sprintf("index range [%d, %d] exceeds the array of %d, but every call path from the decoder passes a function that recovers the panic into an error", r.lo, r.hi, at.Len()))
				case !r.known && r.lo >= 0 && typeIvl(idx.Type()).lo >= 0 || !r.known && r.lo == math.MinInt64:
					// a full-width operand: the rule does not track such values; bounds come from loop/guard structure
					if isLoopBoundedIndex(idx, at.Len(), b) {
						s.ok(key, pos, "index is a loop counter below the array length")
					} else {
						s.undec(key, pos, fmt.Sprintf("index %s into an array of %d has no range the rule can establish", descInt(idx), at.Len()))
					}
				default:
					s.bad(key, pos, fmt.Sprintf("index %s can be in [%d, %d] but the array has %d elements: input that drives it out of range makes the decoder panic (a signed byte used as an index is negative for values >= 0x80)", descInt(idx), r.lo, r.hi, at.Len()))
				}
			}
		}
	}
	return s.obs
}

// isLoopBoundedIndex: idx is a range index / counter compared below n in its loop header.
func isLoopBoundedIndex(idx ssa.Value, n int64, b *ssa.BasicBlock) bool {
	phi, ok := idx.(*ssa.Phi)
	if !ok {
		return false
	}
	for _, cd := range domConds(b) {
		l, op, r, ok := relOf(cd.V, cd.Truth, descInt)
		if !ok || l != descInt(phi) || op != "<" {
			continue
		}
		var cst int64
		if _, err := fmt.Sscan(r, &cst); err == nil && cst <= n {
			return true
		}
	}
	return false
}

// calleeResultIvl: the range of result idx of a static module callee, as the union over its returns (parameters range over
// their types).
func calleeResultIvl(call *ssa.Call, idx int, depth int, seen map[ssa.Value]bool) (ivl, bool) {
	f := call.Call.StaticCallee()
	if f == nil || f.Blocks == nil || depth > 4 {
		return ivl{}, false
	}
	out := ivl{math.MaxInt64, math.MinInt64, true}
	n := 0
	for _, b := range f.Blocks {
		ret, ok := b.Instrs[len(b.Instrs)-1].(*ssa.Return)
		if !ok || idx >= len(ret.Results) {
			continue
		}
		n++
		r := valueIvl(unspill(ret.Results[idx], b), depth+2, seen)
		if r.lo < out.lo {
			out.lo = r.lo
		}
		if r.hi > out.hi {
			out.hi = r.hi
		}
		out.known = out.known && r.known
	}
	if n == 0 {
		return ivl{}, false
	}
	tr := typeIvl(call.Type())
	if tup, ok := call.Type().(*types.Tuple); ok && idx < tup.Len() {
		tr = typeIvl(tup.At(idx).Type())
	}
	if out.lo < tr.lo || out.hi > tr.hi {
		return tr, true
	}
	return out, true
}
