#!/bin/bash
# usage: ./run.sh <property> [quick|thorough] [--only <replay file>]
# Decides the structural clauses of one property on the current working tree of /repo
# (override with FRUGAL_REPO for scratch copies). Static analysis only: nothing in /repo is executed.
set -u
cd "$(dirname "$0")"
prop="${1:?property id}"; shift
tier="${1:-${VERIF_TIER:-quick}}"; [ $# -gt 0 ] && shift
export GOPROXY=off GOSUMDB=off GOTOOLCHAIN=local GOWORK=off
if ! (cd checker && GOFLAGS=-mod=vendor go build -o ../bin/frugalvet . ) >bin.build.log 2>&1; then
  cat bin.build.log
  mkdir -p evidence/replay
  echo '{"rule":"ANALYSIS-ERROR","key":"build","verdict":"UNDECIDED","reason":"checker build failed"}' > "evidence/replay/$prop-build.json"
  echo "VIOLATION property=$prop replay=evidence/replay/$prop-build.json"
  exit 1
fi
rm -f bin.build.log
extra=()
if [ "${1:-}" = "--only" ]; then extra=(-only "$2"); fi
bin/frugalvet -repo "${FRUGAL_REPO:-/repo}" -prop "$prop" -tier "$tier" \
  -evidence "${FRUGAL_EVIDENCE_DIR:-evidence}/$prop.json" -known known-findings.txt "${extra[@]}"
rc=$?
if [ $rc -ne 0 ] && [ $rc -ne 1 ]; then
  # the analyser itself died (a runtime fault cannot be turned into a report from inside): undecided, which fails
  mkdir -p evidence/replay
  echo '{"rule":"ANALYSIS-ERROR","key":"analyser-crash","verdict":"UNDECIDED","reason":"the analyser terminated abnormally (exit status '$rc')"}' > "evidence/replay/$prop-crash.json"
  echo "VIOLATION property=$prop replay=evidence/replay/$prop-crash.json"
  exit 1
fi
exit $rc
