#!/bin/bash
# usage: revalidate_seed.sh <worktree> <seed-id>...   -- re-confirms stored seeds against /repo HEAD: patch applies, baseline passes with it,
# demo fails with it, demo passes without it. Prints one RESULT line per seed.
export GOFLAGS=-mod=mod GOPROXY=off GOSUMDB=off GOTOOLCHAIN=local; unset GOWORK
wt=$1; shift
root=$(cd "$(dirname "$0")/.." && pwd)
for id in "$@"; do
  d=$root/seeded/$id
  cd "$wt" || exit 2
  git reset -q --hard; git clean -fdq; git checkout -q --detach $(git -C /repo rev-parse HEAD)
  place=$(python3 -c "import json;print(json.load(open('$d/meta.json'))['demo_place'].split()[0])")
  python3 -c "import json;print(json.load(open('$d/meta.json'))['demo_cmd'])" > /tmp/scratch/redemo_$$.sh
  if ! git apply "$d/patch.diff" 2>/dev/null; then echo "RESULT $id patch-does-not-apply"; continue; fi
  b=ok
  for m in . fuzz tests; do (cd $m && go test -vet=off -count=1 ./... >/dev/null 2>&1) || b=FAIL; done
  cp "$d/demo_test.go.txt" "$place"
  if (timeout 900 bash /tmp/scratch/redemo_$$.sh >/dev/null 2>&1); then w=PASSES; else w=fails; fi
  git apply -R "$d/patch.diff"
  if (timeout 900 bash /tmp/scratch/redemo_$$.sh >/dev/null 2>&1); then wo=passes; else wo=FAILS; fi
  rm -f "$place" /tmp/scratch/redemo_$$.sh
  git reset -q --hard; git clean -fdq
  echo "RESULT $id baseline=$b demo_with=$w demo_without=$wo"
done
