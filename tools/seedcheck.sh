#!/bin/bash
# usage: seedcheck.sh [seed ids...]  -- for each seeded change: apply it to a scratch worktree of /repo HEAD, run every rule on the
# changed tree once (-prop ALL) and record in seeded/<id>/meta.json (detected_by) which rules report it; the change counts as
# reported by the check of its own property when at least one of those rules belongs to that property's rule list
# (the rule lists come from `${FRUGALVET:-bin/frugalvet} -describe`, i.e. exactly what `./run.sh <prop>` runs).
cd "$(dirname "$0")/.."
wt=${SEED_WT:-/tmp/scratch/seedwt}
[ -d $wt ] || git -C /repo worktree add -q --detach $wt HEAD
ids=("$@"); [ ${#ids[@]} -eq 0 ] && ids=($(ls seeded))
${FRUGALVET:-bin/frugalvet} -describe > /tmp/scratch/describe_$$.json
miss=0
for id in "${ids[@]}"; do
  d=seeded/$id; prop=${id%%-*}
  git -C $wt checkout -q --detach $(git -C /repo rev-parse HEAD) 2>/dev/null; git -C $wt checkout -q -- . ; git -C $wt clean -fdq
  if ! git -C $wt apply "$(readlink -f $d/patch.diff)" 2>/dev/null; then echo "$id: PATCH-DOES-NOT-APPLY"; continue; fi
  out=$(${FRUGALVET:-bin/frugalvet} -repo $wt -prop ALL -replaydir /tmp/scratch/seedreplay 2>&1); rc=$?
  all=$(echo "$out" | grep -o "\(VIOLATED\|UNDECIDED\) \[[^]]*\]" | sed 's/.*\[\(.*\)\]/\1/' | sort -u | tr '\n' ' ')
  if echo "$out" | grep -q "ANALYSIS-ERROR"; then all="$all ANALYSIS-ERROR"; fi
  git -C $wt checkout -q -- .
  own=$(python3 - "$d/meta.json" "$prop" "$all" "$rc" /tmp/scratch/describe_$$.json <<'PY'
import json,sys
p,prop,allr,rc,desc=sys.argv[1:]
rules=[]
for e in json.load(open(desc))['properties']:
    if e.get('ID')==prop:
        rules=e.get('Rules') or []
allr=allr.split()
own=[r for r in allr if r in rules or r=='ANALYSIS-ERROR']
m=json.load(open(p))
m['detected_by']={'check':prop,'exit_status':1 if own else 0,'rules_of_its_property':own,'all_rules':allr}
json.dump(m,open(p,'w'),indent=1)
print(' '.join(own))
PY
)
  if [ -z "$own" ]; then echo "$id: MISSED by check $prop (other rules: ${all:-none})"; miss=$((miss+1)); else echo "$id: $prop exit=1 rules: $own"; fi
done
rm -f /tmp/scratch/describe_$$.json
echo "missed by own property check: $miss"
