#!/usr/bin/env python3
"""Regenerates the seeded/benign tables of DESIGN.md section 9 from seeded/*/meta.json and benign/*/meta.json."""
import json, glob, os, re
root = os.path.dirname(os.path.dirname(os.path.abspath(__file__)))
rows = []
for p in sorted(glob.glob(root + "/seeded/*/meta.json")):
    m = json.load(open(p))
    d = m.get("detected_by") or {}
    own = ", ".join(d.get("rules_of_its_property", [])) if isinstance(d, dict) else ""
    summ = (m.get("summary") or "").replace("|", "/").replace("\n", " ")
    if len(summ) > 150:
        summ = summ[:147] + "..."
    files = ", ".join(os.path.basename(f) for f in (m.get("files_changed") or []))
    rows.append("| %s | %s | %s | `./run.sh %s quick` exit 1: %s |" % (m["id"], files, summ, m["property"], own or "**MISSED**"))
t = "| seed | files | change | reported by |\n|---|---|---|---|\n" + "\n".join(rows) + "\n"
b = []
res = {}
rp = root + "/benign/RESULTS.txt"
if os.path.exists(rp):
    for line in open(rp):
        if ":" in line:
            k, v = line.split(":", 1)
            res[k.strip()] = v.strip()
for p in sorted(glob.glob(root + "/benign/*/meta.json")):
    m = json.load(open(p))
    bid = os.path.basename(os.path.dirname(p))
    b.append("| %s | %s | %s | %s |" % (bid, m.get("kind", ""), (m.get("summary") or "").replace("|", "/").replace("\n", " ")[:140], res.get(bid, "")))
bt = "| patch | kind | change | all rules on the patched tree |\n|---|---|---|---|\n" + "\n".join(b) + "\n"
s = open(root + "/DESIGN.md").read()
s = re.sub(r"<!-- SEEDS-BEGIN -->.*?<!-- SEEDS-END -->", "<!-- SEEDS-BEGIN -->\n" + t + "<!-- SEEDS-END -->", s, flags=re.S)
s = re.sub(r"<!-- BENIGN-BEGIN -->.*?<!-- BENIGN-END -->", "<!-- BENIGN-BEGIN -->\n" + bt + "<!-- BENIGN-END -->", s, flags=re.S)
open(root + "/DESIGN.md", "w").write(s)
print(len(rows), "seeds,", len(b), "benign")
