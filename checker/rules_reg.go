package main

import (
	"fmt"
	"go/token"
	"go/types"
	"sort"
	"strings"

	"golang.org/x/tools/go/ssa"
)

// kindSpec: what the protocol and the Go representation say about a frugal kind (value of tType.T).
type kindSpec struct {
	name   string
	wire   int      // fixed wire width; -1 string (4+n); -2 composite (delegated)
	reps   []string // Go representations that the type parser maps to this kind
	hash   string   // hash class of the representation when used as a map key
	scalar bool
}

var kindSpecs = map[string]kindSpec{
	"BOOL":   {"BOOL", 1, []string{"bool"}, "mem1", true},
	"BYTE":   {"BYTE", 1, []string{"int8"}, "mem1", true},
	"I16":    {"I16", 2, []string{"int16"}, "mem2", true},
	"I32":    {"I32", 4, []string{"int32"}, "mem4", true},
	"I64":    {"I64", 8, []string{"int64"}, "mem8", true},
	"DOUBLE": {"DOUBLE", 8, []string{"float64"}, "f64", true},
	"ENUM":   {"ENUM", 4, []string{"int64"}, "mem8", true}, // kitex enums: int64 in memory, i32 on the wire
	"STRING": {"STRING", -1, []string{"string", "[]byte"}, "str", true},
	"STRUCT": {"STRUCT", -2, nil, "", false},
	"MAP":    {"MAP", -2, nil, "", false},
	"SET":    {"SET", -2, nil, "", false},
	"LIST":   {"LIST", -2, nil, "", false},
}

func (c *Ctx) repSize(rep string) int64 {
	switch rep {
	case "bool", "int8":
		return 1
	case "int16":
		return 2
	case "int32":
		return 4
	case "int64", "float64":
		return 8
	case "string":
		return c.Sizes.Sizeof(types.Typ[types.String])
	case "[]byte":
		return c.Sizes.Sizeof(types.NewSlice(types.Typ[types.Byte]))
	}
	return -1
}

// hashClass of a Go type used as a map key: types in the same class share the runtime hash function.
func hashClass(t types.Type, sizes types.Sizes) string {
	b, ok := t.Underlying().(*types.Basic)
	if !ok {
		return "other:" + t.String()
	}
	switch {
	case b.Info()&types.IsFloat != 0:
		return fmt.Sprintf("f%d", sizes.Sizeof(t)*8)
	case b.Info()&types.IsString != 0:
		return "str"
	case b.Info()&(types.IsInteger|types.IsBoolean) != 0:
		return fmt.Sprintf("mem%d", sizes.Sizeof(t))
	}
	return "other:" + t.String()
}

type registration struct {
	k, v   int64 // kind constants (v only for maps)
	fn     *ssa.Function
	call   *ssa.Call
	isList bool
}

func (c *Ctx) registrations() (regs []registration, problems []string) {
	sp := c.SSA[pkgReflect]
	regMap, regList := sp.Func("registerMapAppendFunc"), sp.Func("registerListAppendFunc")
	if regMap == nil || regList == nil {
		return nil, []string{"registerMapAppendFunc/registerListAppendFunc not found"}
	}
	for _, fn := range c.ModuleFuncs(pkgReflect) {
		for _, b := range fn.Blocks {
			for _, in := range b.Instrs {
				call, ok := in.(*ssa.Call)
				if !ok {
					continue
				}
				callee := call.Call.StaticCallee()
				if callee != regMap && callee != regList {
					continue
				}
				if !strings.HasPrefix(fn.Name(), "init") {
					problems = append(problems, fmt.Sprintf("%s: registration outside init (in %s)", c.InstrPos(call), fn.Name()))
				}
				isList := callee == regList
				ks, ok1 := constSetOf(call.Call.Args[0])
				fi := 1
				vs, ok2 := []int64{0}, true
				if !isList {
					vs, ok2 = constSetOf(call.Call.Args[1])
					fi = 2
				}
				f, ok3 := strip(call.Call.Args[fi]).(*ssa.Function)
				if !ok1 || !ok2 || !ok3 {
					problems = append(problems, fmt.Sprintf("%s: registration with non-constant kind or non-static function", c.InstrPos(call)))
					continue
				}
				for _, kk := range ks {
					for _, vv := range vs {
						regs = append(regs, registration{k: kk, v: vv, fn: f, call: call, isList: isList})
					}
				}
			}
		}
	}
	sort.SliceStable(regs, func(i, j int) bool {
		if regs[i].call.Pos() != regs[j].call.Pos() {
			return regs[i].call.Pos() < regs[j].call.Pos()
		}
		if regs[i].k != regs[j].k {
			return regs[i].k < regs[j].k
		}
		return regs[i].v < regs[j].v
	})
	return
}

// constSetOf: v is a constant, or the element variable of a range loop over an array/slice literal of constants.
func constSetOf(v ssa.Value) ([]int64, bool) {
	if n, ok := constInt(v); ok {
		return []int64{n}, true
	}
	// the indexed array: a local composite literal (possibly copied once)
	var lit *ssa.Alloc
	switch e := v.(type) {
	case *ssa.Index: // value array indexed by the range variable: (*lit)[i]
		if u, ok := e.X.(*ssa.UnOp); ok && u.Op == token.MUL {
			lit, _ = u.X.(*ssa.Alloc)
		}
	case *ssa.UnOp:
		if e.Op != token.MUL {
			return nil, false
		}
		ia, ok := e.X.(*ssa.IndexAddr)
		if !ok {
			return nil, false
		}
		switch x := ia.X.(type) {
		case *ssa.Alloc:
			lit = x
		case *ssa.Slice:
			lit, _ = x.X.(*ssa.Alloc)
		}
	}
	if lit == nil {
		return nil, false
	}
	collect := func(al *ssa.Alloc) ([]int64, bool) {
		var out []int64
		okAll := true
		for _, r := range referrers(al) {
			e, ok := r.(*ssa.IndexAddr)
			if !ok {
				continue
			}
			if _, isConstIdx := constInt(e.Index); !isConstIdx {
				continue // the loop's own read
			}
			for _, rr := range referrers(e) {
				if st, ok := rr.(*ssa.Store); ok && st.Addr == ssa.Value(e) {
					n, ok := constInt(st.Val)
					if !ok {
						okAll = false
					}
					out = append(out, n)
				}
			}
		}
		return out, okAll && len(out) > 0
	}
	if out, ok := collect(lit); ok {
		return out, true
	}
	// copy of another literal: *lit = *src
	for _, r := range referrers(lit) {
		if st, ok := r.(*ssa.Store); ok && st.Addr == ssa.Value(lit) {
			if u, ok := st.Val.(*ssa.UnOp); ok {
				if src, ok := u.X.(*ssa.Alloc); ok {
					return collect(src)
				}
			}
		}
	}
	return nil, false
}

func init() {
	register(&Rule{ID: "T6.map-registrations", Min: 60,
		Text: "for each registerMapAppendFunc(k, v, f): a native `range *(*map[KT]VT)(p)` has sizeof(KT)/sizeof(VT) equal to the size of every Go representation that can reach kinds k/v at the lookup and KT in the same runtime hash class as the key representation; what the iterator yields first is loaded/emitted with kind k's Go size and wire width (through t.K), the second with kind v's (through t.V), key before value; header via appendMapHeader(t,b,p); n decremented once per iteration and every success return goes through checkMapN(n); the registration/lookup tables use (k: K.T, v: V.T)",
		Run:  ruleT6})
	register(&Rule{ID: "T5.list-registrations", Min: 8,
		Text: "for each registerListAppendFunc(c, f) and the generic list routine: header via appendListHeader(t.V,b,p); counted loop i<n over the header count; element pointer advanced by the element descriptor's Size; element load size and emitted width match kind c (string: 4-byte length then payload; composite: dispatch through the element descriptor's AppendFunc with the same descriptor); lookup uses t.V.T",
		Run:  ruleT5})
}

// ---------------------------------------------------------------- map routines

type mapRoutine struct {
	fn        *ssa.Function
	native    bool
	kt, vt    types.Type // cast map key/elem types (native)
	keyEv     []string   // problems are collected in probs; these describe what was seen
	probs     []string
	keyDesc   string // how the key is emitted: "fixed:N:load M", "string", "dyn"
	valDesc   string
	keyLoad   int64 // load size of key (iter) / sizeof(KT) (native), 0 for dyn
	valLoad   int64
	keyWidth  int // emitted width: N, -1 string, -2 dyn
	valWidth  int
	keyConv32 bool // key passed through a 32-bit conversion before emission (ENUM)
	valConv32 bool
	keyBool   bool // emitted through appendMapBool (native bool)
	valBool   bool
}

func analyseMapRoutine(c *Ctx, fn *ssa.Function) *mapRoutine {
	m := &mapRoutine{fn: fn}
	bad := func(f string, a ...interface{}) { m.probs = append(m.probs, fmt.Sprintf(f, a...)) }
	if len(fn.Params) != 3 {
		bad("unexpected signature")
		return m
	}
	pt, pb, pp := fn.Params[0], fn.Params[1], fn.Params[2]
	ei := analyseEmits(fn)
	if len(ei.events) == 0 {
		bad("no emission found")
		return m
	}
	hdr := ei.events[0]
	var hdrN ssa.Value
	switch {
	case hdr.Kind == "call" && hdr.Callee != nil && hdr.Callee.Name() == "appendMapHeader" &&
		hdr.Call.Call.Args[0] == pt && hdr.Call.Call.Args[1] == pb && hdr.Call.Call.Args[2] == pp:
		for _, r := range referrers(hdr.Call) {
			if ex, ok := r.(*ssa.Extract); ok && ex.Index == 1 {
				hdrN = ex
			}
		}
	case hdr.Kind == "bytes" && hdr.N == 6:
		// the header helper written out: the same six bytes, from the same live count
		good, count := mapHeaderEvent(hdr, pt.Name())
		if !good {
			bad("first emission is neither appendMapHeader(t, b, p) nor the six header bytes [K.WT, V.WT, live count]")
			return m
		}
		hdrN = count
	default:
		bad("first emission is not appendMapHeader(t, b, p)")
		return m
	}
	if len(ei.foreign) > 0 {
		bad("output buffer used other than by append at %s", c.InstrPos(ei.foreign[0]))
	}
	// iteration source
	var rng *ssa.Range
	var nexts []*ssa.Next
	var iterNexts []*ssa.Call
	for _, b := range fn.Blocks {
		for _, in := range b.Instrs {
			switch x := in.(type) {
			case *ssa.Range:
				if rng != nil {
					bad("more than one range loop")
				}
				rng = x
			case *ssa.Next:
				nexts = append(nexts, x)
			case *ssa.Call:
				if f := x.Call.StaticCallee(); f != nil && f.Name() == "Next" && strings.Contains(f.String(), "mapIter") {
					iterNexts = append(iterNexts, x)
				}
			}
		}
	}
	keyRoot, valRoot := "", ""
	switch {
	case rng != nil:
		m.native = true
		ld := loadOf(rng.X)
		if ld == nil || ld.Ptr != pp {
			bad("range operand is not *(*map[K]V)(p)")
			return m
		}
		mt, ok := ld.T.Underlying().(*types.Map)
		if !ok {
			bad("range operand is not a map")
			return m
		}
		m.kt, m.vt = mt.Key(), mt.Elem()
		m.keyLoad, m.valLoad = c.Sizes.Sizeof(m.kt), c.Sizes.Sizeof(m.vt)
		keyRoot, valRoot = "range#1", "range#2"
		if len(nexts) != 1 || nexts[0].Iter != rng {
			bad("unexpected iteration structure")
		}
	case len(iterNexts) > 0:
		keyRoot, valRoot = "call:mapIter.Next#0", "call:mapIter.Next#1"
		// iterator must be newMapIter(rvWithPtr(t.RV, p))
		okIter := false
		for _, b := range fn.Blocks {
			for _, in := range b.Instrs {
				if call, ok := in.(*ssa.Call); ok {
					if f := call.Call.StaticCallee(); f != nil && f.Name() == "rvWithPtr" && len(call.Call.Args) == 2 {
						if path(call.Call.Args[0]) == pt.Name()+".RV" && call.Call.Args[1] == pp {
							okIter = true
						}
					}
				}
			}
		}
		if !okIter {
			bad("reflect iterator is not built from rvWithPtr(t.RV, p)")
		}
	default:
		bad("no iteration over the map found")
		return m
	}
	classify := func(v ssa.Value) (string, *loadDesc, bool) { // "key"/"val"/"" ; load desc; through len()
		viaLen := false
		for {
			if cv, ok := v.(*ssa.Convert); ok {
				v = cv.X
				continue
			}
			if call, ok := v.(*ssa.Call); ok && isBuiltin(call, "len") {
				v = call.Call.Args[0]
				viaLen = true
				continue
			}
			break
		}
		var ld *loadDesc
		root := v
		if !m.native {
			ld = loadOf(v)
			if ld == nil {
				return "", nil, viaLen
			}
			root = ld.Ptr
		}
		rs := ptrRoots(root)
		if len(rs) == 1 && rs[0] == keyRoot {
			return "key", ld, viaLen
		}
		if len(rs) == 1 && rs[0] == valRoot {
			return "val", ld, viaLen
		}
		return "", ld, viaLen
	}
	type part struct {
		ev   *Emit
		side string
		what string // fixed | len | payload | dyn | bool
		load int64
		c32  bool
		desc string
	}
	var parts []part
	for _, e := range ei.events[1:] {
		p := part{ev: e}
		switch e.Kind {
		case "bytes", "uint", "bool":
			if e.Kind == "bytes" && e.N != 1 {
				bad("%s: multi-byte literal append in a map routine", c.InstrPos(e.Instr))
				continue
			}
			src := e.Srcs[0]
			side, ld, viaLen := classify(src)
			if e.LenOf != nil {
				viaLen = true
			}
			p.side = side
			if viaLen {
				p.what = "len"
				if e.N != 4 {
					bad("%s: string length emitted with %d bytes", c.InstrPos(e.Instr), e.N)
				}
			} else {
				p.what = "fixed"
				if e.Kind == "bool" {
					p.what = "bool"
				}
				if ld != nil {
					p.load = c.Sizes.Sizeof(ld.T)
				}
				// narrowing conversion to a 32-bit type before the emission (ENUM)
				for v := src; ; {
					cv, ok := v.(*ssa.Convert)
					if !ok {
						break
					}
					if isInt(cv.Type()) && c.Sizes.Sizeof(cv.Type()) == 4 && c.Sizes.Sizeof(cv.X.Type()) == 8 {
						p.c32 = true
					}
					v = cv.X
				}
			}
		case "payload":
			side, _, _ := classify(e.Srcs[0])
			p.side, p.what = side, "payload"
			if !m.native {
				if ld := loadOf(e.Srcs[0]); ld != nil {
					p.load = c.Sizes.Sizeof(ld.T)
					if b, ok := ld.T.Underlying().(*types.Basic); !ok || b.Kind() != types.String {
						bad("%s: payload is not loaded as a string", c.InstrPos(e.Instr))
					}
				}
			}
		case "dyn", "call":
			args := e.Call.Call.Args
			if len(args) != 3 {
				bad("%s: unexpected delegated call", c.InstrPos(e.Instr))
				continue
			}
			desc := path(args[0])
			ptr := args[2]
			// optional chase *(*unsafe.Pointer)(x)
			if ld := loadOf(ptr); ld != nil && isUnsafePointer(ld.T) {
				ptr = ld.Ptr
			}
			rs := ptrRoots(ptr)
			switch {
			case len(rs) == 1 && rs[0] == keyRoot:
				p.side = "key"
			case len(rs) == 1 && rs[0] == valRoot:
				p.side = "val"
			}
			p.what, p.desc = "dyn", desc
			want := pt.Name() + ".K"
			if p.side == "val" {
				want = pt.Name() + ".V"
			}
			if desc != want {
				bad("%s: %s is encoded with descriptor %s, expected %s", c.InstrPos(e.Instr), p.side, desc, want)
			}
			if e.Kind == "dyn" {
				if fv := path(e.Call.Call.Value); fv != want+".AppendFunc" {
					bad("%s: %s dispatches through %s, expected %s.AppendFunc", c.InstrPos(e.Instr), p.side, fv, want)
				}
			} else if e.Callee.Name() != "appendAny" && !isDispatchHelper(e.Callee) {
				bad("%s: unexpected delegate %s", c.InstrPos(e.Instr), e.Callee.Name())
			}
		}
		if p.side == "" {
			bad("%s: emission whose source is neither the iteration key nor the value", c.InstrPos(e.Instr))
			continue
		}
		parts = append(parts, p)
	}
	// order: keys before values
	lastKey, firstVal := -1, -1
	for i, p := range parts {
		if p.side == "key" {
			lastKey = i
		}
		if p.side == "val" && firstVal < 0 {
			firstVal = i
		}
	}
	for i, p := range parts {
		for j, q := range parts {
			if p.side == "val" && q.side == "key" && !evBefore(q.ev, p.ev) && i != j {
				// alternatives on different branches are fine only if same side; a key after a value is not
				bad("%s: key emitted after value", c.InstrPos(q.ev.Instr))
			}
		}
	}
	_ = lastKey
	_ = firstVal
	summar := func(side string) (width int, load int64, c32, isBool bool, desc string) {
		var ps []part
		for _, p := range parts {
			if p.side == side {
				ps = append(ps, p)
			}
		}
		if len(ps) == 0 {
			bad("no %s emission", side)
			return 0, 0, false, false, "none"
		}
		switch {
		case ps[0].what == "dyn":
			for _, p := range ps {
				if p.what != "dyn" {
					bad("%s mixes dispatch and direct emission", side)
				}
			}
			return -2, 0, false, false, "dispatch"
		case ps[0].what == "len":
			if len(ps) != 2 || ps[1].what != "payload" {
				bad("%s: string must be emitted as 4-byte length then payload", side)
			}
			l := int64(0)
			if len(ps) == 2 {
				l = ps[1].load
			}
			return -1, l, false, false, "string"
		default:
			if len(ps) != 1 {
				bad("%s: %d emissions for a fixed-width kind", side, len(ps))
			}
			return ps[0].ev.N, ps[0].load, ps[0].c32, ps[0].what == "bool", fmt.Sprintf("fixed %d", ps[0].ev.N)
		}
	}
	var kl, vl int64
	m.keyWidth, kl, m.keyConv32, m.keyBool, m.keyDesc = summar("key")
	m.valWidth, vl, m.valConv32, m.valBool, m.valDesc = summar("val")
	if !m.native {
		m.keyLoad, m.valLoad = kl, vl
	}
	// count discipline
	checkCount(c, fn, hdrN, ei, bad)
	return m
}

// checkCount: n (second result of the header) is decremented exactly once per iteration and every return that reports
// success after the loop goes through checkMapN(n).
func checkCount(c *Ctx, fn *ssa.Function, hdrN ssa.Value, ei *emitInfo, bad func(string, ...interface{})) {
	if hdrN == nil {
		bad("header count is not used")
		return
	}
	var nphi *ssa.Phi
	for _, r := range referrers(hdrN) {
		if p, ok := r.(*ssa.Phi); ok {
			nphi = p
		}
	}
	if nphi == nil {
		bad("no loop-carried count")
		return
	}
	decs := 0
	for i, e := range nphi.Edges {
		if e == hdrN {
			continue
		}
		bo, ok := e.(*ssa.BinOp)
		one, isOne := int64(0), false
		if ok {
			one, isOne = constInt(bo.Y)
		}
		if !ok || bo.Op != token.SUB || bo.X != nphi || !isOne || one != 1 {
			bad("count is not decremented by exactly 1 per iteration")
			continue
		}
		decs++
		pred := nphi.Block().Preds[i]
		if !(bo.Block() == pred || bo.Block().Dominates(pred)) {
			bad("count decrement is skipped on some iteration path")
		}
	}
	if decs == 0 {
		bad("count is never decremented")
	}
	for _, b := range fn.Blocks {
		ret, ok := b.Instrs[len(b.Instrs)-1].(*ssa.Return)
		if !ok || len(ret.Results) != 2 {
			continue
		}
		errv := ret.Results[1]
		if call, ok := errv.(*ssa.Call); ok {
			if f := call.Call.StaticCallee(); f != nil && f.Name() == "checkMapN" && call.Call.Args[0] == nphi {
				continue
			}
		}
		if definitelyNonNilErr(errv, b) {
			continue // a failure, whatever the count
		}
		if isNilConst(errv) {
			// allowed only on the n == 0 early exit, or where the remaining count is known to be 0 (checkMapN written out)
			okEarly := false
			for _, cd := range domConds(b) {
				if bo, ok := cd.V.(*ssa.BinOp); ok && (bo.X == hdrN || bo.X == ssa.Value(nphi)) {
					if z, ok := constInt(bo.Y); ok && z == 0 && (bo.Op == token.EQL && cd.Truth || bo.Op == token.NEQ && !cd.Truth) {
						okEarly = true
					}
				}
			}
			if !okEarly {
				bad("%s: success return without checkMapN(n)", c.InstrPos(ret))
			}
			continue
		}
		// error propagation: must be under err != nil
		okProp := false
		for _, cd := range domConds(b) {
			if bo, ok := cd.V.(*ssa.BinOp); ok && bo.Op == token.NEQ && bo.X == errv && isNilConst(bo.Y) && cd.Truth {
				okProp = true
			}
		}
		if !okProp {
			bad("%s: return of an error value that is not known to be non-nil and is not checkMapN(n)", c.InstrPos(ret))
		}
	}
}

func (c *Ctx) checkKindAgainst(side string, ks kindSpec, reps []string, m *mapRoutine, width int, load int64, conv32, isBool bool, castT types.Type) (probs []string) {
	bad := func(f string, a ...interface{}) { probs = append(probs, side+": "+fmt.Sprintf(f, a...)) }
	if width == -2 { // dispatch through the descriptor: valid for every kind
		if m.native {
			bad("native range with dispatch")
		}
		return
	}
	if !ks.scalar {
		bad("kind %s is composite but the routine emits it inline", ks.name)
		return
	}
	// emitted width
	switch {
	case ks.wire == -1:
		if width != -1 {
			bad("kind STRING must be emitted as length+payload, routine emits %d bytes", width)
		}
	default:
		if width != ks.wire {
			bad("kind %s is %d bytes on the wire, routine emits %d", ks.name, ks.wire, width)
		}
	}
	if ks.name == "ENUM" && !conv32 {
		bad("ENUM must be narrowed to 32 bits before emission")
	}
	if ks.name != "ENUM" && conv32 {
		bad("kind %s is narrowed from 64 to 32 bits before emission", ks.name)
	}
	// representation sizes
	for _, rep := range reps {
		rs := c.repSize(rep)
		if m.native {
			if load != rs {
				bad("Go representation %s is %d bytes, the cast map type has %d-byte %s slots", rep, rs, load, side)
			}
		} else if ks.wire == -1 {
			if load > rs || load == 0 {
				bad("string load of %d bytes from a %d-byte %s", load, rs, rep)
			}
		} else if load != rs {
			bad("Go representation %s is %d bytes, the routine loads %d", rep, rs, load)
		}
	}
	if m.native && side == "key" && castT != nil {
		if hc := hashClass(castT, c.Sizes); hc != ks.hash {
			bad("cast key type %s hashes as %s but kind %s keys hash as %s: ranging over a growing map re-hashes keys with the static type's function", castT, hc, ks.name, ks.hash)
		}
	}
	if m.native && isBool != (ks.name == "BOOL") && castT != nil {
		if b, ok := castT.Underlying().(*types.Basic); ok && (b.Kind() == types.Bool) != (ks.name == "BOOL") {
			bad("bool/non-bool mismatch between cast type %s and kind %s", castT, ks.name)
		}
	}
	return
}

func ruleT6(c *Ctx) []Ob {
	s := newSink(c, "T6.map-registrations")
	k, err := c.kinds()
	if err != nil {
		s.undec("kinds", "-", err.Error())
		return s.obs
	}
	regs, probs := c.registrations()
	for _, p := range probs {
		s.bad("registration-site", "-", p)
	}
	// value representations reaching the table lookup in updateMapAppendFunc
	valueBinaryExcluded, lookOK := c.checkMapLookup(s)
	cache := map[*ssa.Function]*mapRoutine{}
	seenPair := map[[2]int64]bool{}
	for _, r := range regs {
		if r.isList {
			continue
		}
		kn, vn := k.nameOf(r.k), k.nameOf(r.v)
		key := fmt.Sprintf("map(%s,%s)->%s", kn, vn, r.fn.Name())
		pos := c.InstrPos(r.call)
		if seenPair[[2]int64{r.k, r.v}] {
			s.bad(key, pos, "duplicate registration for the same kind pair (the later one wins silently)")
			continue
		}
		seenPair[[2]int64{r.k, r.v}] = true
		ks, ok1 := kindSpecs[kn]
		vs, ok2 := kindSpecs[vn]
		if !ok1 || !ok2 {
			s.bad(key, pos, "registration for a kind that the type parser never produces")
			continue
		}
		m := cache[r.fn]
		if m == nil {
			m = analyseMapRoutine(c, r.fn)
			cache[r.fn] = m
		}
		var ps []string
		ps = append(ps, m.probs...)
		kreps := ks.reps
		if kn == "STRING" {
			kreps = []string{"string"} // binary is not a key type (IsKeyType), checked by rule K2
		}
		vreps := vs.reps
		if vn == "STRING" && valueBinaryExcluded {
			vreps = []string{"string"}
		}
		ps = append(ps, c.checkKindAgainst("key", ks, kreps, m, m.keyWidth, m.keyLoad, m.keyConv32, m.keyBool, m.kt)...)
		ps = append(ps, c.checkKindAgainst("value", vs, vreps, m, m.valWidth, m.valLoad, m.valConv32, m.valBool, m.vt)...)
		if len(ps) == 0 {
			how := "reflect iterator"
			if m.native {
				how = fmt.Sprintf("native range map[%s]%s", m.kt, m.vt)
			}
			s.ok(key, pos, fmt.Sprintf("%s; key %s, value %s", how, m.keyDesc, m.valDesc))
		} else {
			s.bad(key, pos, strings.Join(dedup(ps), "; "))
		}
	}
	// generic fallback
	if f := c.SSA[pkgReflect].Func("appendMapAnyAny"); f != nil {
		m := analyseMapRoutine(c, f)
		ps := append([]string{}, m.probs...)
		if m.native || m.keyWidth != -2 || m.valWidth != -2 {
			ps = append(ps, "generic routine must dispatch key and value through appendAny with t.K / t.V")
		}
		s.check(len(ps) == 0, "generic:appendMapAnyAny", c.Pos(f.Pos()), "reflect iterator, key and value through appendAny(t.K/t.V)", strings.Join(ps, "; "))
	} else {
		s.bad("generic:appendMapAnyAny", "-", "generic map routine not found")
	}
	_ = lookOK
	// appendMapBool
	if f := c.SSA[pkgReflect].Func("appendMapBool"); f != nil {
		ei := analyseEmits(f)
		good := len(ei.events) > 0
		for _, e := range ei.events {
			if e.Kind != "bytes" || e.N != 1 {
				good = false
				continue
			}
			v, ok := constInt(e.Srcs[0])
			truth, found := false, false
			for _, cd := range domConds(e.Instr.Block()) {
				if cd.V == f.Params[1] {
					truth, found = cd.Truth, true
				}
			}
			if !ok || !found || (truth && v != 1) || (!truth && v != 0) {
				good = false
			}
		}
		s.check(good, "appendMapBool", c.Pos(f.Pos()), "emits exactly one byte: 1 for true, 0 for false", "appendMapBool does not emit 1/0 in one byte on every path")
	}
	return s.obs
}

// checkMapLookup checks registerMapAppendFunc / updateMapAppendFunc key construction; reports whether a guard excluding binary values dominates the lookup.
func (c *Ctx) checkMapLookup(s *obSink) (binaryExcluded bool, ok bool) {
	sp := c.SSA[pkgReflect]
	keyFields := func(fn *ssa.Function, keyVal ssa.Value) map[string]string {
		// key struct is built in an Alloc by field stores, then loaded
		out := map[string]string{}
		ld, isLoad := keyVal.(*ssa.UnOp)
		if !isLoad {
			return out
		}
		for _, r := range referrers(ld.X) {
			fa, ok := r.(*ssa.FieldAddr)
			if !ok {
				continue
			}
			for _, rr := range referrers(fa) {
				if st, ok := rr.(*ssa.Store); ok && st.Addr == fa {
					out[fieldName(fa.X.Type(), fa.Field)] = path(st.Val)
				}
			}
		}
		return out
	}
	ok = true
	if fn := sp.Func("registerMapAppendFunc"); fn != nil {
		found := false
		for _, b := range fn.Blocks {
			for _, in := range b.Instrs {
				if mu, isMU := in.(*ssa.MapUpdate); isMU && path(mu.Map) == "reflect.mapAppendFuncs" {
					found = true
					kf := keyFields(fn, mu.Key)
					good := kf["k"] == fn.Params[0].Name() && kf["v"] == fn.Params[1].Name() && mu.Value == ssa.Value(fn.Params[2])
					s.check(good, "registerMapAppendFunc", c.InstrPos(mu), "stores f under {k: k, v: v}", fmt.Sprintf("table key built as %v, expected {k: %s, v: %s}", kf, fn.Params[0].Name(), fn.Params[1].Name()))
					ok = ok && good
				}
			}
		}
		if !found {
			s.bad("registerMapAppendFunc", c.Pos(fn.Pos()), "no store into mapAppendFuncs")
			ok = false
		}
	} else {
		s.bad("registerMapAppendFunc", "-", "not found")
		ok = false
	}
	var fn *ssa.Function
	for _, cand := range c.ModuleFuncs(pkgReflect) {
		for _, b := range cand.Blocks {
			for _, in := range b.Instrs {
				if lk, isLk := in.(*ssa.Lookup); isLk && path(lk.X) == "reflect.mapAppendFuncs" {
					fn = cand
				}
			}
		}
	}
	if fn == nil {
		s.bad("updateMapAppendFunc", "-", "no function looks fast paths up in mapAppendFuncs")
		return false, false
	}
	t := ""
	if dp := descParam(fn); dp != nil {
		t = dp.Name()
	} else {
		// the lookup written out where the descriptor is built: the descriptor is the variable the key is read from
		for _, b := range fn.Blocks {
			for _, in := range b.Instrs {
				if lk, isLk := in.(*ssa.Lookup); isLk && path(lk.X) == "reflect.mapAppendFuncs" {
					if kp := keyFields(fn, lk.Index)["k"]; strings.HasSuffix(kp, ".K.T") {
						t = strings.TrimSuffix(kp, ".K.T")
					}
				}
			}
		}
		if t == "" {
			s.bad("updateMapAppendFunc", "-", "no function looks fast paths up in mapAppendFuncs with the key kind of a descriptor")
			return false, false
		}
	}
	// the lookup may live in a helper that receives the key and value descriptors: read its parameters as the caller's
	// t.K and t.V when every call site passes exactly those
	norm := func(p string) string { return p }
	var tparams []*ssa.Parameter
	for _, prm := range fn.Params {
		if namedOf(prm.Type()) == "tType" {
			tparams = append(tparams, prm)
		}
	}
	if len(tparams) == 2 {
		okBind, nCalls := true, 0
		for _, caller := range c.ModuleFuncs(pkgReflect) {
			for _, cb := range caller.Blocks {
				for _, ci := range cb.Instrs {
					call, isCall := ci.(*ssa.Call)
					if !isCall || call.Call.StaticCallee() != fn {
						continue
					}
					nCalls++
					cd := descParam(caller)
					var a0, a1 string
					for k, prm := range fn.Params {
						if prm == tparams[0] {
							a0 = path(call.Call.Args[k])
						}
						if prm == tparams[1] {
							a1 = path(call.Call.Args[k])
						}
					}
					if cd == nil || a0 != cd.Name()+".K" || a1 != cd.Name()+".V" {
						okBind = false
					}
				}
			}
		}
		if okBind && nCalls > 0 {
			k0, v0 := tparams[0].Name(), tparams[1].Name()
			t = "t"
			norm = func(p string) string {
				switch {
				case p == k0 || strings.HasPrefix(p, k0+"."):
					return "t.K" + p[len(k0):]
				case p == v0 || strings.HasPrefix(p, v0+"."):
					return "t.V" + p[len(v0):]
				}
				return p
			}
		}
	}
	found := false
	for _, b := range fn.Blocks {
		for _, in := range b.Instrs {
			lk, isLk := in.(*ssa.Lookup)
			if !isLk || path(lk.X) != "reflect.mapAppendFuncs" {
				continue
			}
			found = true
			kf := keyFields(fn, lk.Index)
			for kk, vv := range kf {
				kf[kk] = norm(vv)
			}
			good := kf["k"] == t+".K.T" && kf["v"] == t+".V.T"
			s.check(good, "updateMapAppendFunc.lookup", c.InstrPos(lk), "looks up {k: t.K.T, v: t.V.T}", fmt.Sprintf("lookup key built as %v, expected {k: %s.K.T, v: %s.V.T}", kf, t, t))
			ok = ok && good
			tb, hasBin := c.constOf(pkgDefs, "T_binary")
			for _, cd := range domConds(b) {
				bo, isB := cd.V.(*ssa.BinOp)
				if !isB || bo.Op != token.EQL && bo.Op != token.NEQ {
					continue
				}
				cv, isC := constInt(bo.Y)
				if !isC || !hasBin || cv != tb || norm(path(bo.X)) != t+".V.Tag" {
					continue
				}
				if (bo.Op == token.EQL && !cd.Truth) || (bo.Op == token.NEQ && cd.Truth) {
					binaryExcluded = true
				}
			}
		}
	}
	if !found {
		s.bad("updateMapAppendFunc.lookup", c.Pos(fn.Pos()), "no lookup in mapAppendFuncs")
		ok = false
	}
	// the selected routine is the looked-up function or the generic routine: check what the lookup function stores / returns
	var selAt *ssa.BasicBlock // the block of the store / return being judged
	var selected func(v ssa.Value) (bool, string)
	selected = func(v ssa.Value) (bool, string) {
		v = strip(v)
		if phi, isPhi := v.(*ssa.Phi); isPhi {
			var whats []string
			for _, e := range phi.Edges {
				g, w := selected(e)
				if !g {
					return false, w
				}
				whats = append(whats, w)
			}
			return len(phi.Edges) > 0, strings.Join(dedup(whats), " or ")
		}
		if f, isF := v.(*ssa.Function); isF {
			return f.Name() == "appendMapAnyAny", f.Name()
		}
		if _, isEx := v.(*ssa.Extract); isEx {
			if isTableEntry(v, nil) {
				return true, "table entry"
			}
			return false, "an entry of a table other than mapAppendFuncs (its registrations are not covered by the lens)"
		}
		if lk, isLk := v.(*ssa.Lookup); isLk && selAt != nil {
			return isTableEntry(lk, selAt), "table entry"
		}
		return false, path(v)
	}
	// binary values may also be kept off the table after the lookup: the table entry reaches the installed value only on
	// an edge where the value tag is known not to be binary
	notBinaryAt := func(p *ssa.BasicBlock, succ *ssa.BasicBlock) bool {
		tb, hasBin := c.constOf(pkgDefs, "T_binary")
		cs := domConds(p)
		if iff, ok := p.Instrs[len(p.Instrs)-1].(*ssa.If); ok && p.Succs[0] != p.Succs[1] {
			cs = append(cs, Cond{V: iff.Cond, Truth: p.Succs[0] == succ, If: iff})
		}
		for _, cd := range cs {
			bo, isB := cd.V.(*ssa.BinOp)
			if !isB || bo.Op != token.EQL && bo.Op != token.NEQ {
				continue
			}
			cv, isC := constInt(bo.Y)
			if !isC || !hasBin || cv != tb || norm(path(bo.X)) != t+".V.Tag" {
				continue
			}
			if (bo.Op == token.EQL && !cd.Truth) || (bo.Op == token.NEQ && cd.Truth) {
				return true
			}
		}
		return false
	}
	var entryEdgesGuarded func(v ssa.Value, at, succ *ssa.BasicBlock) (n int, all bool)
	entryEdgesGuarded = func(v ssa.Value, at, succ *ssa.BasicBlock) (int, bool) {
		v = strip(v)
		if phi, isPhi := v.(*ssa.Phi); isPhi {
			n, all := 0, true
			for i, e := range phi.Edges {
				k, a := entryEdgesGuarded(e, phi.Block().Preds[i], phi.Block())
				n += k
				all = all && a
			}
			return n, all
		}
		if _, isF := v.(*ssa.Function); isF {
			return 0, true
		}
		return 1, notBinaryAt(at, succ)
	}
	nSel := 0
	for _, b := range fn.Blocks {
		for _, in := range b.Instrs {
			switch x := in.(type) {
			case *ssa.Store:
				if !strings.HasSuffix(path(x.Addr), ".AppendFunc") {
					continue
				}
				if fn.Name() != "updateMapAppendFunc" && !strings.Contains(fmt.Sprint(selectedSources(x.Val)), "map") {
					continue // the constructor also installs the list routine
				}
				if n, all := entryEdgesGuarded(x.Val, b, nil); n > 0 && all {
					binaryExcluded = true
				}
				nSel++
				selAt = b
				good, what := selected(x.Val)
				s.check(good, "updateMapAppendFunc.store", c.InstrPos(x), "AppendFunc = "+what, "AppendFunc set to "+what+", expected the table entry or appendMapAnyAny")
			case *ssa.Return:
				if len(x.Results) == 1 && strings.Contains(x.Results[0].Type().String(), "appendFuncType") {
					nSel++
					selAt = b
					good, what := selected(x.Results[0])
					s.check(good, "updateMapAppendFunc.store", c.InstrPos(x), "selects "+what, "selects "+what+", expected the table entry or appendMapAnyAny")
				}
			}
		}
	}
	if nSel == 0 {
		s.bad("updateMapAppendFunc.store", c.Pos(fn.Pos()), "the looked-up routine is never installed")
	}
	return binaryExcluded, ok
}

// isTableEntry: v is what a lookup in a registration table found: the value of a (value, ok) lookup, or the value of a plain
// lookup used where it was tested to be non-nil (a missing entry of a table of function values reads as nil).
func isTableEntry(v ssa.Value, at *ssa.BasicBlock) bool {
	// only the two registration tables, whose every entry the lens checks against the routine it names
	regTable := func(lk *ssa.Lookup) bool {
		p := path(lk.X)
		return p == "reflect.mapAppendFuncs" || p == "reflect.listAppendFuncs"
	}
	if ex, ok := v.(*ssa.Extract); ok {
		lk, isLk := ex.Tuple.(*ssa.Lookup)
		return isLk && regTable(lk)
	}
	lk, ok := v.(*ssa.Lookup)
	if !ok || lk.CommaOk || at == nil || !regTable(lk) {
		return false
	}
	for _, cd := range domConds(at) {
		bo, ok := cd.V.(*ssa.BinOp)
		if !ok || !(bo.X == ssa.Value(lk) && isNilConst(bo.Y) || bo.Y == ssa.Value(lk) && isNilConst(bo.X)) {
			continue
		}
		if bo.Op == token.NEQ && cd.Truth || bo.Op == token.EQL && !cd.Truth {
			return true
		}
	}
	return false
}

func dedup(ss []string) []string {
	seen := map[string]bool{}
	var out []string
	for _, s := range ss {
		if !seen[s] {
			seen[s] = true
			out = append(out, s)
		}
	}
	return out
}

// ---------------------------------------------------------------- list routines

type listRoutine struct {
	probs  []string
	width  int // N, -1 string, -2 dispatch
	load   int64
	conv32 bool
	desc   string
	viaAny bool
}

func analyseListRoutine(c *Ctx, fn *ssa.Function) *listRoutine {
	l := &listRoutine{}
	bad := func(f string, a ...interface{}) { l.probs = append(l.probs, fmt.Sprintf(f, a...)) }
	if len(fn.Params) != 3 {
		bad("unexpected signature")
		return l
	}
	pt, pb, pp := fn.Params[0], fn.Params[1], fn.Params[2]
	ei := analyseEmits(fn)
	if len(ei.events) == 0 {
		bad("no emission found")
		return l
	}
	if len(ei.foreign) > 0 {
		bad("output buffer used other than by append at %s", c.InstrPos(ei.foreign[0]))
	}
	hdr := ei.events[0]
	elemDesc := pt.Name() + ".V"
	var hdrN, hdrP ssa.Value
	nHdr := 1 // leading events that make up the header
	elemRoot := "call:appendListHeader#2"
	switch {
	case hdr.Kind == "call" && hdr.Callee != nil && hdr.Callee.Name() == "appendListHeader" &&
		(path(hdr.Call.Call.Args[0]) == elemDesc || path(hdr.Call.Call.Args[0]) == elemDesc+".WT") && hdr.Call.Call.Args[1] == pb && hdr.Call.Call.Args[2] == pp:
		for _, r := range referrers(hdr.Call) {
			if ex, ok := r.(*ssa.Extract); ok {
				switch ex.Index {
				case 1:
					hdrN = ex
				case 2:
					hdrP = ex
				}
			}
		}
	case hdr.Kind == "bytes" && hdr.N == 5:
		// the header helper written out: five header bytes (a zero count for the nil slice, the live length otherwise), the
		// elements start at the slice's data pointer
		nHdr = 0
		for _, e := range ei.events {
			if e.Kind != "bytes" || e.N != 5 {
				break
			}
			nHdr++
			good, why, live, count := listHeaderEvent(e, elemDesc, pp)
			if !good {
				bad("list header written out in the routine: %s", why)
				return l
			}
			if live {
				hdrN = count
			}
		}
		for _, b := range fn.Blocks {
			for _, in := range b.Instrs {
				if u, ok := in.(*ssa.UnOp); ok && u.Op == token.MUL {
					if recv, typ, f, ok := fieldOf(u); ok && typ == "sliceHeader" && f == "Data" {
						if cv, ok := recv.(*ssa.Convert); ok && cv.X == ssa.Value(pp) && hdrP == nil {
							hdrP = u
							elemRoot = "load:" + path(u.X)
						}
					}
				}
			}
		}
	default:
		bad("first emission is not appendListHeader(t.V, b, p)")
		return l
	}
	if hdrN == nil || hdrP == nil {
		bad("header count / data pointer unused")
		return l
	}
	// element pointer: every unsafe.Add rooted at the header's data pointer advances by the element descriptor's Size
	// (once per iteration) or computes base + i*Size
	nAdd := 0
	for _, b := range fn.Blocks {
		for _, ins := range b.Instrs {
			ad, ok := ins.(*ssa.Call)
			if !ok || !isBuiltin(ad, "Add") || !rootedAt(ad.Call.Args[0], hdrP) {
				continue
			}
			nAdd++
			if ok2, what := strideOK(ad.Call.Args[1], elemDesc+".Size"); !ok2 {
				bad("element pointer advanced by %s, expected %s.Size", what, elemDesc)
			}
		}
	}
	if nAdd == 0 {
		bad("no element pointer advanced per iteration")
	}
	// loop bound: some phi i with edges 0 and i+1, compared i < n
	boundOK := false
	for _, b := range fn.Blocks {
		for _, in := range b.Instrs {
			bo, ok := in.(*ssa.BinOp)
			if !ok || bo.Op != token.LSS || bo.Y != hdrN {
				continue
			}
			if ip, ok := bo.X.(*ssa.Phi); ok {
				z, inc := false, false
				for _, e := range ip.Edges {
					if v, ok := constInt(e); ok && v == 0 {
						z = true
					}
					if a, ok := e.(*ssa.BinOp); ok && a.Op == token.ADD && a.X == ip {
						if v, ok := constInt(a.Y); ok && v == 1 {
							inc = true
						}
					}
				}
				if z && inc {
					boundOK = true
				}
			}
		}
	}
	if !boundOK {
		// count-down form: c starts at the header count, decreases by one per iteration, the loop ends when it reaches 0
		// and is entered only when the count is not 0
		for _, b := range fn.Blocks {
			for _, in := range b.Instrs {
				cp, ok := in.(*ssa.Phi)
				if !ok {
					continue
				}
				var dec *ssa.BinOp
				start := false
				for _, e := range cp.Edges {
					if e == hdrN {
						start = true
					}
					if a, ok := e.(*ssa.BinOp); ok && a.Op == token.SUB && a.X == ssa.Value(cp) {
						if v, ok := constInt(a.Y); ok && v == 1 {
							dec = a
						}
					}
				}
				if !start || dec == nil || len(cp.Edges) != 2 {
					continue
				}
				// exit test on the decremented value (bottom-tested) or on the counter (top-tested)
				tested := false
				for _, tv := range []ssa.Value{dec, cp} {
					for _, r := range referrers(tv) {
						if cmp, ok := r.(*ssa.BinOp); ok && (cmp.Op == token.EQL || cmp.Op == token.NEQ || cmp.Op == token.GTR) {
							if z, ok := constInt(cmp.Y); ok && z == 0 {
								for _, rr := range referrers(cmp) {
									if iff, ok := rr.(*ssa.If); ok {
										// one successor stays in the loop, the other leaves it
										in0, in1 := blockReaches(iff.Block().Succs[0], b) || iff.Block().Succs[0] == b, blockReaches(iff.Block().Succs[1], b) || iff.Block().Succs[1] == b
										stay := in0
										if cmp.Op == token.EQL {
											stay = in1
										}
										if in0 != in1 && stay {
											tested = true
										}
									}
								}
							}
						}
					}
				}
				entered := holdsAt(b, descInt(hdrN), "!=", "0", descInt) || holdsAt(b, "0", "!=", descInt(hdrN), descInt) || holdsAt(b, "0", "<", descInt(hdrN), descInt)
				if !entered {
					// the header is a merge: look at the entry edges (predecessors outside the loop)
					entered = true
					nEntry := 0
					for _, p := range b.Preds {
						if blockReaches(b, p) {
							continue // back edge
						}
						nEntry++
						okEdge := holdsAt(p, descInt(hdrN), "!=", "0", descInt) || holdsAt(p, "0", "!=", descInt(hdrN), descInt) || holdsAt(p, "0", "<", descInt(hdrN), descInt)
						if iff, ok := p.Instrs[len(p.Instrs)-1].(*ssa.If); ok && p.Succs[0] != p.Succs[1] {
							if l, op, r, ok := relOf(iff.Cond, p.Succs[0] == b, descInt); ok {
								if (op == "!=" || op == "<") && (l == "0" && r == descInt(hdrN)) || op == "!=" && l == descInt(hdrN) && r == "0" {
									okEdge = true
								}
							}
						}
						if !okEdge {
							entered = false
						}
					}
					if nEntry == 0 {
						entered = false
					}
				}
				if tested && (entered || cp.Block() != dec.Block() && false) {
					boundOK = true
				}
				if tested && !entered {
					// top-tested count-down needs no entry guard
					for _, r := range referrers(cp) {
						if cmp, ok := r.(*ssa.BinOp); ok && cmp.Block() == b {
							if z, ok := constInt(cmp.Y); ok && z == 0 {
								boundOK = true
							}
						}
					}
				}
			}
		}
	}
	if !boundOK {
		// bottom-tested count-up form: the body runs, then the loop continues while the number of elements done is < n; entered
		// only when n != 0. The tested value is 1 at the first test: a counter from 1, or the incremented value of one from 0.
		for _, b := range fn.Blocks {
			for _, in := range b.Instrs {
				ip, ok := in.(*ssa.Phi)
				if !ok || len(ip.Edges) != 2 {
					continue
				}
				start, hasStart := int64(0), false
				var inc *ssa.BinOp
				for _, e := range ip.Edges {
					if v, ok := constInt(e); ok {
						start, hasStart = v, true
					}
					if a, ok := e.(*ssa.BinOp); ok && a.Op == token.ADD && a.X == ssa.Value(ip) {
						if v, ok := constInt(a.Y); ok && v == 1 {
							inc = a
						}
					}
				}
				if !hasStart || inc == nil {
					continue
				}
				var tested ssa.Value
				switch start {
				case 1:
					tested = ip
				case 0:
					tested = inc
				default:
					continue
				}
				stays := false
				for _, r := range referrers(tested) {
					cmp, ok := r.(*ssa.BinOp)
					if !ok || cmp.X != tested || cmp.Y != hdrN || cmp.Op != token.LSS && cmp.Op != token.GEQ {
						continue
					}
					for _, rr := range referrers(cmp) {
						iff, ok := rr.(*ssa.If)
						if !ok {
							continue
						}
						tb := iff.Block()
						in0 := blockReaches(tb.Succs[0], b) || tb.Succs[0] == b
						in1 := blockReaches(tb.Succs[1], b) || tb.Succs[1] == b
						stay := in0
						if cmp.Op == token.GEQ {
							stay = in1
						}
						// the test comes after the element was emitted: every emission in the loop dominates it
						after := true
						for _, e := range ei.events[nHdr:] {
							eb := e.Instr.Block()
							if (eb == b || b.Dominates(eb)) && blockReaches(eb, b) && !(eb == tb || eb.Dominates(tb)) {
								after = false
							}
						}
						if in0 != in1 && stay && after && tb != b {
							stays = true
						}
					}
				}
				if !stays {
					continue
				}
				entered := true
				nEntry := 0
				for _, p := range b.Preds {
					if blockReaches(b, p) {
						continue // back edge
					}
					nEntry++
					okEdge := holdsAt(p, descInt(hdrN), "!=", "0", descInt) || holdsAt(p, "0", "!=", descInt(hdrN), descInt) || holdsAt(p, "0", "<", descInt(hdrN), descInt)
					if !okEdge {
						entered = false
					}
				}
				if entered && nEntry > 0 {
					boundOK = true
				}
			}
		}
	}
	if !boundOK {
		bad("loop is not `for i := 0; i < n; i++` over the header count")
	}
	// per-element emissions
	// the current element, or - the optional-pointer chase of appendAny written out in the loop - the pointer loaded from it
	// (PTR-CHASE decides whether that chase is conditioned on IsPointer)
	var isElemPtr func(v ssa.Value) bool
	isElemPtr = func(v ssa.Value) bool {
		rs := ptrRoots(v)
		for _, r := range rs {
			if r == elemRoot {
				continue
			}
			if !strings.HasPrefix(r, "load:") {
				return false
			}
			// find the chase(s) behind this root: loads of an unsafe.Pointer through the element pointer
			okChase := false
			seen := map[ssa.Value]bool{}
			var walk func(x ssa.Value)
			walk = func(x ssa.Value) {
				if x == nil || seen[x] {
					return
				}
				seen[x] = true
				switch y := x.(type) {
				case *ssa.Phi:
					for _, e := range y.Edges {
						walk(e)
					}
				case *ssa.Convert:
					walk(y.X)
				case *ssa.ChangeType:
					walk(y.X)
				case *ssa.Call:
					if isBuiltin(y, "Add") {
						walk(y.Call.Args[0])
					}
				case *ssa.UnOp:
					if y.Op == token.MUL && "load:"+path(y.X) == r && isUnsafePointer(y.Type()) {
						inner := ptrRoots(y.X)
						all := len(inner) > 0
						for _, ir := range inner {
							if ir != elemRoot {
								all = false
							}
						}
						if all {
							okChase = true
						}
					}
				}
			}
			walk(v)
			if !okChase {
				return false
			}
		}
		return len(rs) > 0
	}
	type part struct {
		what string
		ev   *Emit
		load int64
		c32  bool
	}
	var parts []part
	for _, e := range ei.events[nHdr:] {
		switch e.Kind {
		case "bytes", "uint", "bool":
			if e.Kind == "bytes" && e.N != 1 {
				bad("%s: multi-byte literal append", c.InstrPos(e.Instr))
				continue
			}
			src := e.Srcs[0]
			viaLen := false
			c32 := false
			for {
				if cv, ok := src.(*ssa.Convert); ok {
					if isInt(cv.Type()) && c.Sizes.Sizeof(cv.Type()) == 4 && c.Sizes.Sizeof(cv.X.Type()) == 8 && !viaLen {
						c32 = true
					}
					src = cv.X
					continue
				}
				if call, ok := src.(*ssa.Call); ok && isBuiltin(call, "len") {
					src = call.Call.Args[0]
					viaLen = true
					c32 = false
					continue
				}
				break
			}
			if e.LenOf != nil {
				viaLen, c32 = true, false
			}
			ld := loadOf(src)
			if ld == nil || !isElemPtr(ld.Ptr) {
				bad("%s: emission not sourced from the current element", c.InstrPos(e.Instr))
				continue
			}
			if cs, subj := caseSet(e.Instr.Block(), ".T"); cs != nil && subj == elemDesc+".T" {
				// the scalar switch of appendAny written out in the loop (T4 checks every case of it): part of the dispatch
				parts = append(parts, part{what: "dyn", ev: e})
				l.viaAny = true
				continue
			}
			if viaLen {
				if e.N != 4 {
					bad("%s: string length emitted with %d bytes", c.InstrPos(e.Instr), e.N)
				}
				parts = append(parts, part{what: "len", ev: e, load: c.Sizes.Sizeof(ld.T)})
			} else {
				parts = append(parts, part{what: "fixed", ev: e, load: c.Sizes.Sizeof(ld.T), c32: c32})
			}
		case "payload":
			ld := loadOf(e.Srcs[0])
			if ld == nil || !isElemPtr(ld.Ptr) {
				bad("%s: payload not sourced from the current element", c.InstrPos(e.Instr))
				continue
			}
			if cs, subj := caseSet(e.Instr.Block(), ".T"); cs != nil && subj == elemDesc+".T" {
				parts = append(parts, part{what: "dyn", ev: e})
				l.viaAny = true
				continue
			}
			if b, ok := ld.T.Underlying().(*types.Basic); !ok || b.Kind() != types.String {
				bad("%s: payload is not loaded as a string", c.InstrPos(e.Instr))
			}
			parts = append(parts, part{what: "payload", ev: e, load: c.Sizes.Sizeof(ld.T)})
		case "dyn", "call":
			args := e.Call.Call.Args
			if len(args) != 3 {
				bad("%s: unexpected delegated call", c.InstrPos(e.Instr))
				continue
			}
			ptr := args[2]
			if ld := loadOf(ptr); ld != nil && isUnsafePointer(ld.T) {
				ptr = ld.Ptr
			}
			if !isElemPtr(ptr) {
				bad("%s: delegated call not on the current element", c.InstrPos(e.Instr))
			}
			if d := path(args[0]); d != elemDesc {
				bad("%s: element encoded with descriptor %s, expected %s", c.InstrPos(e.Instr), d, elemDesc)
			}
			if e.Kind == "dyn" {
				if fv := path(e.Call.Call.Value); fv != elemDesc+".AppendFunc" {
					bad("%s: dispatch through %s, expected %s.AppendFunc", c.InstrPos(e.Instr), fv, elemDesc)
				}
			} else if e.Callee.Name() == "appendAny" {
				l.viaAny = true
			} else if !isDispatchHelper(e.Callee) {
				bad("%s: unexpected delegate %s", c.InstrPos(e.Instr), e.Callee.Name())
			}
			parts = append(parts, part{what: "dyn", ev: e})
		}
	}
	switch {
	case len(parts) == 0:
		bad("no per-element emission")
	case parts[0].what == "dyn":
		l.width, l.desc = -2, "dispatch"
		for _, p := range parts {
			if p.what != "dyn" {
				bad("mixes dispatch and direct emission")
			}
		}
	case parts[0].what == "len":
		l.width, l.desc = -1, "string"
		if len(parts) != 2 || parts[1].what != "payload" {
			bad("string must be emitted as 4-byte length then payload")
		} else {
			l.load = parts[1].load
		}
	default:
		if len(parts) != 1 {
			bad("%d emissions for a fixed-width kind", len(parts))
		}
		l.width, l.load, l.conv32, l.desc = parts[0].ev.N, parts[0].load, parts[0].c32, fmt.Sprintf("fixed %d (load %d)", parts[0].ev.N, parts[0].load)
	}
	// returns: nil error on success, or propagated non-nil error
	for _, b := range fn.Blocks {
		ret, ok := b.Instrs[len(b.Instrs)-1].(*ssa.Return)
		if !ok || len(ret.Results) != 2 {
			continue
		}
		if !ei.chain[ret.Results[0]] {
			bad("%s: returns a buffer that is not the output chain", c.InstrPos(ret))
		}
	}
	return l
}

func ruleT5(c *Ctx) []Ob {
	s := newSink(c, "T5.list-registrations")
	k, err := c.kinds()
	if err != nil {
		s.undec("kinds", "-", err.Error())
		return s.obs
	}
	regs, _ := c.registrations()
	cache := map[*ssa.Function]*listRoutine{}
	seen := map[int64]bool{}
	for _, r := range regs {
		if !r.isList {
			continue
		}
		kn := k.nameOf(r.k)
		key := fmt.Sprintf("list(%s)->%s", kn, r.fn.Name())
		pos := c.InstrPos(r.call)
		if seen[r.k] {
			s.bad(key, pos, "duplicate registration for the same element kind")
			continue
		}
		seen[r.k] = true
		ks, ok := kindSpecs[kn]
		if !ok {
			s.bad(key, pos, "registration for a kind that the type parser never produces")
			continue
		}
		l := cache[r.fn]
		if l == nil {
			l = analyseListRoutine(c, r.fn)
			cache[r.fn] = l
		}
		ps := append([]string{}, l.probs...)
		if l.width != -2 {
			if !ks.scalar {
				ps = append(ps, "composite kind emitted inline")
			} else {
				if ks.wire == -1 && l.width != -1 {
					ps = append(ps, fmt.Sprintf("STRING must be length+payload, routine emits %d bytes", l.width))
				}
				if ks.wire > 0 && l.width != ks.wire {
					ps = append(ps, fmt.Sprintf("kind %s is %d bytes on the wire, routine emits %d", kn, ks.wire, l.width))
				}
				if (kn == "ENUM") != l.conv32 {
					ps = append(ps, "64-to-32-bit narrowing present exactly for ENUM is required")
				}
				for _, rep := range ks.reps {
					rs := c.repSize(rep)
					if ks.wire == -1 {
						if l.load > rs || l.load == 0 {
							ps = append(ps, fmt.Sprintf("string load of %d bytes from a %d-byte %s", l.load, rs, rep))
						}
					} else if l.load != rs {
						ps = append(ps, fmt.Sprintf("Go representation %s is %d bytes, routine loads %d", rep, rs, l.load))
					}
				}
			}
		}
		s.check(len(ps) == 0, key, pos, "stride t.V.Size; element "+l.desc, strings.Join(dedup(ps), "; "))
	}
	if f := c.SSA[pkgReflect].Func("appendListAny"); f != nil {
		l := analyseListRoutine(c, f)
		ps := append([]string{}, l.probs...)
		if l.width != -2 || !l.viaAny {
			ps = append(ps, "generic list routine must encode every element through appendAny(t.V, ...)")
		}
		s.check(len(ps) == 0, "generic:appendListAny", c.Pos(f.Pos()), "elements through appendAny(t.V)", strings.Join(ps, "; "))
	} else {
		s.bad("generic:appendListAny", "-", "generic list routine not found")
	}
	// lookup: listAppendFuncs[t.V.T]; store: table entry or appendListAny
	sp := c.SSA[pkgReflect]
	var lfn *ssa.Function
	for _, cand := range c.ModuleFuncs(pkgReflect) {
		for _, b := range cand.Blocks {
			for _, in := range b.Instrs {
				if lk, isLk := in.(*ssa.Lookup); isLk && path(lk.X) == "reflect.listAppendFuncs" {
					lfn = cand
				}
			}
		}
	}
	if fn := lfn; fn != nil {
		// the descriptor is whatever the lookup key is read from: <t>.V.T (a parameter today; a local of the constructor when
		// the helper is written out there)
		t := ""
		found := false
		for _, b := range fn.Blocks {
			for _, in := range b.Instrs {
				if lk, ok := in.(*ssa.Lookup); ok && path(lk.X) == "reflect.listAppendFuncs" {
					found = true
					kp := path(lk.Index)
					if strings.HasSuffix(kp, ".V.T") {
						t = strings.TrimSuffix(kp, ".V.T")
					}
					s.check(t != "", "updateListAppendFunc.lookup", c.InstrPos(lk), "looks up t.V.T", "lookup key is "+kp+", expected the element kind <t>.V.T of the descriptor being completed")
				}
			}
		}
		var sel func(v ssa.Value, at *ssa.BasicBlock) (bool, string)
		sel = func(v ssa.Value, at *ssa.BasicBlock) (bool, string) {
			v = strip(v)
			if phi, isPhi := v.(*ssa.Phi); isPhi {
				var whats []string
				for i, e := range phi.Edges {
					g, w := sel(e, phi.Block().Preds[i])
					if !g {
						return false, w
					}
					whats = append(whats, w)
				}
				return len(phi.Edges) > 0, strings.Join(dedup(whats), " or ")
			}
			if f, isF := v.(*ssa.Function); isF {
				return f.Name() == "appendListAny", f.Name()
			}
			if isTableEntry(v, at) {
				return true, "table entry"
			}
			if _, isEx := v.(*ssa.Extract); isEx && isTableEntry(v, nil) {
				return true, "table entry"
			}
			return false, path(v)
		}
		for _, b := range fn.Blocks {
			for _, in := range b.Instrs {
				if st, ok := in.(*ssa.Store); ok && t != "" && path(st.Addr) == t+".AppendFunc" {
					// only the store that completes a list / set descriptor (the constructor also installs the map routine)
					if fn.Name() != "updateListAppendFunc" {
						uses := false
						var walk func(v ssa.Value, d int)
						walk = func(v ssa.Value, d int) {
							if d > 6 || v == nil {
								return
							}
							switch x := v.(type) {
							case *ssa.Phi:
								for _, e := range x.Edges {
									walk(e, d+1)
								}
							case *ssa.Extract:
								if lk, ok := x.Tuple.(*ssa.Lookup); ok && path(lk.X) == "reflect.listAppendFuncs" {
									uses = true
								}
							case *ssa.Lookup:
								if path(x.X) == "reflect.listAppendFuncs" {
									uses = true
								}
							case *ssa.Function:
								if x.Name() == "appendListAny" {
									uses = true
								}
							}
						}
						walk(strip(st.Val), 0)
						if !uses {
							continue
						}
					}
					good, what := sel(st.Val, st.Block())
					s.check(good, "updateListAppendFunc.store", c.InstrPos(st), "AppendFunc = "+what, "AppendFunc set to "+what)
				}
			}
		}
		if !found {
			s.bad("updateListAppendFunc.lookup", c.Pos(fn.Pos()), "no lookup in listAppendFuncs")
		}
	} else {
		s.bad("updateListAppendFunc", "-", "not found")
	}
	if fn := sp.Func("registerListAppendFunc"); fn != nil {
		good := false
		for _, b := range fn.Blocks {
			for _, in := range b.Instrs {
				if mu, ok := in.(*ssa.MapUpdate); ok && path(mu.Map) == "reflect.listAppendFuncs" {
					good = mu.Key == ssa.Value(fn.Params[0]) && mu.Value == ssa.Value(fn.Params[1])
				}
			}
		}
		s.check(good, "registerListAppendFunc", c.Pos(fn.Pos()), "stores f under t", "registration does not store f under its kind")
	}
	return s.obs
}

// storesAppendFunc: on every path from its entry to a return, f stores the AppendFunc field of its descriptor parameter
// (directly, or by calling a function that does).
func storesAppendFunc(f *ssa.Function, depth int) bool { return storesAppendFuncFrom(f, nil, depth) }

// storesAppendFuncFrom starts the path search at block `from` (the block that allocates the descriptor) instead of the entry.
func storesAppendFuncFrom(f *ssa.Function, from *ssa.BasicBlock, depth int) bool {
	if f == nil || f.Blocks == nil || depth > 2 {
		return false
	}
	setters := map[*ssa.BasicBlock]bool{}
	for _, b := range f.Blocks {
		for _, ins := range b.Instrs {
			switch x := ins.(type) {
			case *ssa.Store:
				if _, typ, fld, ok := fieldOf(x.Addr); ok && typ == "tType" && fld == "AppendFunc" && !isNilConst(x.Val) {
					setters[b] = true
				}
			case *ssa.Call:
				if cf := x.Call.StaticCallee(); cf != nil && cf != f && fnPkgPath(cf) == pkgReflect && len(cf.Params) == 1 && namedOf(cf.Params[0].Type()) == "tType" && storesAppendFunc(cf, depth+1) {
					setters[b] = true
				}
			}
		}
	}
	if len(setters) == 0 {
		return false
	}
	// a return reachable from the entry without passing a setting block?
	seen := map[*ssa.BasicBlock]bool{}
	start := f.Blocks[0]
	if from != nil {
		start = from
	}
	stack := []*ssa.BasicBlock{start}
	for len(stack) > 0 {
		b := stack[len(stack)-1]
		stack = stack[:len(stack)-1]
		if seen[b] || setters[b] {
			continue
		}
		seen[b] = true
		if _, ok := b.Instrs[len(b.Instrs)-1].(*ssa.Return); ok {
			return false
		}
		stack = append(stack, b.Succs...)
	}
	return true
}

func init() {
	registerExtra("T6.map-registrations", func(c *Ctx, s *obSink) {
		// every descriptor gets an encode routine: the generic map/list routines and the (DOUBLE, scalar) fast paths call
		// t.K.AppendFunc / t.V.AppendFunc for scalar kinds too, so no kind may be left with a nil function value
		var ctor *ssa.Function
		var allocBlk *ssa.BasicBlock
		for _, fn := range c.ModuleFuncs(pkgReflect) {
			for _, b := range fn.Blocks {
				for _, ins := range b.Instrs {
					if st, ok := ins.(*ssa.Store); ok {
						if recv, typ, fld, ok := fieldOf(st.Addr); ok && typ == "tType" && fld == "AppendFunc" && localAlloc(recv) {
							ctor = fn
							if al, ok := recv.(*ssa.Alloc); ok {
								allocBlk = al.Block()
							}
						}
					}
				}
			}
		}
		if ctor == nil {
			s.bad("AppendFunc:total", "-", "no function installs AppendFunc on a descriptor it builds")
			return
		}
		s.check(storesAppendFuncFrom(ctor, allocBlk, 0), "AppendFunc:total", c.Pos(ctor.Pos()), "every path of "+ctor.Name()+" installs an encode routine", "a descriptor can leave "+ctor.Name()+" without an encode routine (AppendFunc nil for some kind): the generic map/list routines and the (DOUBLE, scalar) map fast paths call the key/value descriptor's AppendFunc for scalar kinds as well and would call a nil function")
	})
}

// selectedSources names what a stored routine value is chosen from (tables and functions), for telling the list store from
// the map store when both live in one function.
func selectedSources(v ssa.Value) []string {
	var out []string
	seen := map[ssa.Value]bool{}
	var walk func(v ssa.Value, d int)
	walk = func(v ssa.Value, d int) {
		if v == nil || seen[v] || d > 8 {
			return
		}
		seen[v] = true
		switch x := strip(v).(type) {
		case *ssa.Phi:
			for _, e := range x.Edges {
				walk(e, d+1)
			}
		case *ssa.Extract:
			walk(x.Tuple, d+1)
		case *ssa.Lookup:
			if strings.Contains(path(x.X), "mapAppendFuncs") {
				out = append(out, "map table")
			} else {
				out = append(out, "other table "+path(x.X))
			}
		case *ssa.Function:
			if strings.Contains(x.Name(), "Map") {
				out = append(out, "map routine "+x.Name())
			} else {
				out = append(out, "routine "+x.Name())
			}
		}
	}
	walk(v, 0)
	return out
}
