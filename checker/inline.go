package main

import (
	_ "embed"
	"fmt"
	"go/ast"
	"go/token"
	"go/types"
	"sort"
	"strings"

	"golang.org/x/tools/go/packages"
)

// Helper expansion.
//
// The rules are written against the functions of the tree they were developed on. A maintenance edit that moves a few
// statements into a new helper function leaves behaviour alone but hides those statements from a rule that reads one
// function at a time. Before the SSA program is built, every function of the module that is NOT in the list of functions
// of the reference tree (known_funcs.txt) - i.e. a helper introduced by the change under analysis - is expanded at its call
// sites, when it is simple enough for the expansion to be exact: no defer / go / recover / goto, not recursive, not generic,
// not variadic, and called as a statement, as the right-hand side of an assignment, in an if-initialiser or as the operand
// of a return. The expansion is textual and scoped:
//
//	var r1_iK T1; var r2_iK T2; { var p_iK T = arg; L_iK: switch { default: <body, returns rewritten to assignments + break> } }
//	lhs... = r1_iK, r2_iK
//
// with every identifier declared by the helper renamed (suffix _iK), so it can neither capture nor be captured. The modified
// files are given to go/packages as an overlay and type-checked again; if that fails the unexpanded program is analysed.
// On the reference tree there is nothing to expand, so its analysis is exactly the plain one. //line directives keep the
// reported positions on the lines of the real files.

//go:embed known_funcs.txt
var knownFuncsTxt string

func knownFuncSet() map[string]bool {
	out := map[string]bool{}
	for _, l := range strings.Split(knownFuncsTxt, "\n") {
		l = strings.TrimSpace(l)
		if l != "" && !strings.HasPrefix(l, "#") {
			out[l] = true
		}
	}
	return out
}

func funcDeclKey(pkgPath string, fd *ast.FuncDecl) string {
	name := fd.Name.Name
	if fd.Recv != nil && len(fd.Recv.List) > 0 {
		t := fd.Recv.List[0].Type
		for {
			switch x := t.(type) {
			case *ast.StarExpr:
				t = x.X
				continue
			case *ast.ParenExpr:
				t = x.X
				continue
			case *ast.IndexExpr:
				t = x.X
				continue
			case *ast.IndexListExpr:
				t = x.X
				continue
			}
			break
		}
		if id, ok := t.(*ast.Ident); ok {
			name = id.Name + "." + name
		}
	}
	return pkgPath + "\t" + name
}

type textEdit struct {
	start, end int
	text       string
}

type inlineCand struct {
	fd   *ast.FuncDecl
	file *ast.File
	obj  *types.Func
}

func inlinable(fd *ast.FuncDecl, info *types.Info) bool {
	if fd.Body == nil || len(fd.Body.List) == 0 || len(fd.Body.List) > 80 {
		return false
	}
	if fd.Type.TypeParams != nil && fd.Recv != nil {
		return false
	}
	if fd.Recv != nil {
		for _, f := range fd.Recv.List {
			switch t := f.Type.(type) {
			case *ast.IndexExpr, *ast.IndexListExpr:
				return false
			case *ast.StarExpr:
				switch t.X.(type) {
				case *ast.IndexExpr, *ast.IndexListExpr:
					return false
				}
			}
		}
	}
	if fd.Type.Params != nil {
		for _, f := range fd.Type.Params.List {
			if _, ok := f.Type.(*ast.Ellipsis); ok {
				return false
			}
		}
	}
	self := info.Defs[fd.Name]
	ok := true
	ast.Inspect(fd.Body, func(n ast.Node) bool {
		switch x := n.(type) {
		case *ast.DeferStmt, *ast.GoStmt:
			ok = false
		case *ast.BranchStmt:
			if x.Tok == token.GOTO {
				ok = false
			}
		case *ast.CallExpr:
			if id, isId := x.Fun.(*ast.Ident); isId {
				if id.Name == "recover" {
					ok = false
				}
				if self != nil && info.Uses[id] == self {
					ok = false
				}
			}
			if sel, isSel := x.Fun.(*ast.SelectorExpr); isSel && self != nil && info.Uses[sel.Sel] == self {
				ok = false
			}
		}
		return ok
	})
	return ok
}

// usedPkgNames: local package name -> import path for every imported package referred to inside node.
func usedPkgNames(node ast.Node, info *types.Info) map[string]string {
	out := map[string]string{}
	ast.Inspect(node, func(n ast.Node) bool {
		if id, ok := n.(*ast.Ident); ok {
			if pn, ok := info.Uses[id].(*types.PkgName); ok {
				out[pn.Name()] = pn.Imported().Path()
			}
		}
		return true
	})
	return out
}

// expandHelpers returns an overlay (file name -> new content) in which the calls of new helper functions are expanded,
// and notes describing what was done.
func expandHelpers(modPkgs []*packages.Package, fset *token.FileSet, readSrc func(string) []byte, pass int, skip map[string]bool) (map[string][]byte, []string) {
	known := knownFuncSet()
	overlay := map[string][]byte{}
	var notes []string
	site := 0
	for _, p := range modPkgs {
		info := p.TypesInfo
		if info == nil {
			continue
		}
		cands := map[*types.Func]*inlineCand{}
		for _, f := range p.Syntax {
			for _, d := range f.Decls {
				fd, ok := d.(*ast.FuncDecl)
				if !ok || known[funcDeclKey(p.PkgPath, fd)] || skip[funcDeclKey(p.PkgPath, fd)] || fd.Name.Name == "init" || fd.Name.Name == "main" {
					continue
				}
				if !inlinable(fd, info) {
					continue
				}
				if obj, ok := info.Defs[fd.Name].(*types.Func); ok {
					cands[obj] = &inlineCand{fd: fd, file: f, obj: obj}
				}
			}
		}
		if len(cands) == 0 {
			continue
		}
		_ = site
		// a helper that is no longer referred to (all its calls were expanded in an earlier round) is dropped: its body
		// lives on at the former call sites, and analysing it on its own would judge it without its callers' guards
		refs := map[*types.Func]int{}
		for _, o := range info.Uses {
			if fo, ok := o.(*types.Func); ok && cands[fo] != nil {
				refs[fo]++
			}
		}
		dead := map[*ast.File][]*inlineCand{}
		for fo, c := range cands {
			if refs[fo] == 0 && !ast.IsExported(c.fd.Name.Name) {
				dead[c.file] = append(dead[c.file], c)
				delete(cands, fo)
			}
		}
		calleeOf := func(call *ast.CallExpr) (*inlineCand, ast.Expr) {
			switch fn := call.Fun.(type) {
			case *ast.Ident:
				if o, ok := info.Uses[fn].(*types.Func); ok {
					return cands[o], nil
				}
			case *ast.SelectorExpr:
				if o, ok := info.Uses[fn.Sel].(*types.Func); ok {
					if c := cands[o]; c != nil {
						if sel := info.Selections[fn]; sel != nil && sel.Kind() == types.MethodVal {
							return c, fn.X
						}
					}
				}
			}
			return nil, nil
		}
		for _, f := range p.Syntax {
			tf := fset.File(f.Pos())
			if tf == nil {
				continue
			}
			fname := tf.Name()
			src := readSrc(fname)
			if src == nil {
				continue
			}
			off := func(pos token.Pos) int { return tf.Offset(pos) }
			text := func(a, b token.Pos) string { return string(src[off(a):off(b)]) }
			callerPkgs := usedPkgNames(f, info)
			var edits []textEdit
			// build the expansion of one call; returns the declarations+block and the result names
			// thread: when the caller tests the helper's error result right away (`if err != nil { ...; return }`), every
			// error return of the helper assigns the caller's variables and runs that handler directly, so the success path
			// keeps the helper's control flow (and the facts its guards established) instead of merging with the failures
			expand := func(call *ast.CallExpr, c *inlineCand, recvExpr ast.Expr, th *threadSpec) (prefix string, results []string, ok bool) {
				ctf := fset.File(c.fd.Pos())
				csrc := readSrc(ctf.Name())
				if csrc == nil {
					return "", nil, false
				}
				if c.file != f {
					for n, pth := range usedPkgNames(c.fd, info) {
						if callerPkgs[n] != pth {
							return "", nil, false
						}
					}
				}
				coff := func(pos token.Pos) int { return ctf.Offset(pos) }
				// a generic helper: the type arguments of this instantiation replace its type parameters
				tsub := map[types.Object]string{}
				if c.fd.Type.TypeParams != nil {
					var fid *ast.Ident
					switch fn := call.Fun.(type) {
					case *ast.Ident:
						fid = fn
					case *ast.IndexExpr:
						fid, _ = fn.X.(*ast.Ident)
					case *ast.IndexListExpr:
						fid, _ = fn.X.(*ast.Ident)
					}
					inst, okInst := info.Instances[fid]
					if fid == nil || !okInst || inst.TypeArgs == nil {
						return "", nil, false
					}
					k := 0
					for _, fld := range c.fd.Type.TypeParams.List {
						for _, nm := range fld.Names {
							if k >= inst.TypeArgs.Len() {
								return "", nil, false
							}
							ta := inst.TypeArgs.At(k)
							k++
							// only predeclared / same-package types can be written without import bookkeeping
							str := types.TypeString(ta, func(p *types.Package) string {
								if p == c.obj.Pkg() {
									return ""
								}
								return "\x00"
							})
							if strings.Contains(str, "\x00") {
								return "", nil, false
							}
							if o := info.Defs[nm]; o != nil {
								tsub[o] = str
							}
						}
					}
				}
				typeText := func(e ast.Expr) string {
					var tes []textEdit
					ast.Inspect(e, func(n ast.Node) bool {
						if id, ok := n.(*ast.Ident); ok {
							if o := info.Uses[id]; o != nil {
								if r, ok := tsub[o]; ok {
									tes = append(tes, textEdit{coff(id.Pos()), coff(id.End()), r})
								}
							}
						}
						return true
					})
					return applyEdits(csrc, tes, coff(e.Pos()), coff(e.End()))
				}
				site++
				sfx := fmt.Sprintf("_i%d%d", pass, site)
				// objects declared by the helper
				declared := map[types.Object]bool{}
				ast.Inspect(c.fd, func(n ast.Node) bool {
					if id, ok := n.(*ast.Ident); ok {
						if o := info.Defs[id]; o != nil && o != types.Object(c.obj) {
							declared[o] = true
						}
					}
					return true
				})
				var sb strings.Builder
				// results
				nres := 0
				if c.fd.Type.Results != nil {
					for _, fld := range c.fd.Type.Results.List {
						tt := typeText(fld.Type)
						if len(fld.Names) == 0 {
							nres++
							name := fmt.Sprintf("r%d%s", nres, sfx)
							results = append(results, name)
							fmt.Fprintf(&sb, "var %s %s; ", name, tt)
						}
						for _, nm := range fld.Names {
							nres++
							name := nm.Name + sfx
							if nm.Name == "_" {
								name = fmt.Sprintf("r%d%s", nres, sfx)
							}
							results = append(results, name)
							fmt.Fprintf(&sb, "var %s %s; ", name, tt)
						}
					}
				}
				for _, r := range results {
					fmt.Fprintf(&sb, "_ = %s; ", r)
				}
				sb.WriteString("{ ")
				// receiver
				if c.fd.Recv != nil && len(c.fd.Recv.List) == 1 {
					if recvExpr == nil {
						return "", nil, false
					}
					rf := c.fd.Recv.List[0]
					rt := typeText(rf.Type)
					rx := text(recvExpr.Pos(), recvExpr.End())
					_, wantPtr := rf.Type.(*ast.StarExpr)
					_, havePtr := info.TypeOf(recvExpr).Underlying().(*types.Pointer)
					switch {
					case wantPtr && !havePtr:
						rx = "&(" + rx + ")"
					case !wantPtr && havePtr:
						rx = "*(" + rx + ")"
					}
					if len(rf.Names) == 1 && rf.Names[0].Name != "_" {
						fmt.Fprintf(&sb, "var %s%s %s = %s; _ = %s%s; ", rf.Names[0].Name, sfx, rt, rx, rf.Names[0].Name, sfx)
					} else {
						fmt.Fprintf(&sb, "_ = %s; ", rx)
					}
				} else if recvExpr != nil {
					return "", nil, false
				}
				// parameters
				ai := 0
				if c.fd.Type.Params != nil {
					for _, fld := range c.fd.Type.Params.List {
						tt := typeText(fld.Type)
						names := fld.Names
						if len(names) == 0 {
							names = []*ast.Ident{nil}
						}
						for _, nm := range names {
							if ai >= len(call.Args) {
								return "", nil, false
							}
							at := text(call.Args[ai].Pos(), call.Args[ai].End())
							ai++
							if nm == nil || nm.Name == "_" {
								fmt.Fprintf(&sb, "var _ %s = %s; ", tt, at)
							} else {
								fmt.Fprintf(&sb, "var %s%s %s = %s; _ = %s%s; ", nm.Name, sfx, tt, at, nm.Name, sfx)
							}
						}
					}
				}
				if ai != len(call.Args) {
					return "", nil, false
				}
				// body with renames and rewritten returns
				var bedits []textEdit
				label := "L" + sfx
				usedLabel := false
				var walk func(n ast.Node, inLit bool)
				walk = func(n ast.Node, inLit bool) {
					ast.Inspect(n, func(m ast.Node) bool {
						switch x := m.(type) {
						case *ast.FuncLit:
							if m != n {
								walk(x.Body, true)
								// parameters of the literal are declared objects too: renamed consistently through info
								if x.Type != nil {
									ast.Inspect(x.Type, func(t ast.Node) bool {
										if id, ok := t.(*ast.Ident); ok {
											o := info.Defs[id]
											if o == nil {
												o = info.Uses[id]
											}
											if o != nil && declared[o] && id.Name != "_" {
												bedits = append(bedits, textEdit{coff(id.Pos()), coff(id.End()), id.Name + sfx})
											}
										}
										return true
									})
								}
								return false
							}
						case *ast.Ident:
							o := info.Defs[x]
							if o == nil {
								o = info.Uses[x]
							}
							if r, isTP := tsub[o]; isTP && o != nil {
								bedits = append(bedits, textEdit{coff(x.Pos()), coff(x.End()), r})
							} else if o != nil && declared[o] && x.Name != "_" {
								bedits = append(bedits, textEdit{coff(x.Pos()), coff(x.End()), x.Name + sfx})
							}
						case *ast.ReturnStmt:
							if inLit {
								return true
							}
							if th != nil && th.tail {
								if len(x.Results) == 0 {
									bedits = append(bedits, textEdit{coff(x.Pos()), coff(x.End()), "return " + strings.Join(results, ", ")})
								} else {
									bedits = append(bedits, textEdit{coff(x.Pos()), coff(x.Pos()) + len("return"), "{ " + strings.Join(results, ", ") + " ="})
									bedits = append(bedits, textEdit{coff(x.End()), coff(x.End()), "; return " + strings.Join(results, ", ") + " }"})
								}
								return true
							}
							if th != nil && len(x.Results) == len(th.lhs) && len(x.Results) > 0 {
								last := x.Results[len(x.Results)-1]
								isFail := false
								if th.nilIdiom {
									if id, isId := last.(*ast.Ident); isId && id.Name == "nil" {
										isFail = true
									} else {
										th.all = false // the value may still be nil at run time: the caller's own test stays
									}
								} else if th.okIdiom {
									if id, isId := last.(*ast.Ident); isId && id.Name == "false" {
										isFail = true
									} else if isId && id.Name == "true" {
										// success
									} else {
										th.all = false
									}
								} else if id, isId := last.(*ast.Ident); isId && id.Name == "nil" {
									// success
								} else if definiteErrorExpr(last, x, c.fd, info) {
									isFail = true
								} else {
									th.all = false
								}
								if isFail {
									// a failure return: hand the values to the caller's variables and run its handler here
									bedits = append(bedits, textEdit{coff(x.Pos()), coff(x.Pos()) + len("return"), "{ " + strings.Join(th.lhs, ", ") + " ="})
									bedits = append(bedits, textEdit{coff(x.End()), coff(x.End()), "; " + th.handler + " }"})
									th.n++
									return true
								}
							} else if th != nil {
								th.all = false
							}
							usedLabel = true
							if len(x.Results) == 0 {
								bedits = append(bedits, textEdit{coff(x.Pos()), coff(x.End()), "break " + label})
							} else {
								bedits = append(bedits, textEdit{coff(x.Pos()), coff(x.Pos()) + len("return"), "{ " + strings.Join(results, ", ") + " ="})
								bedits = append(bedits, textEdit{coff(x.End()), coff(x.End()), "; break " + label + " }"})
							}
						}
						return true
					})
				}
				walk(c.fd.Body, false)
				bodyStart, bodyEnd := coff(c.fd.Body.Lbrace)+1, coff(c.fd.Body.Rbrace)
				body := applyEdits(csrc, bedits, bodyStart, bodyEnd)
				if body == "" && len(bedits) > 0 {
					return "", nil, false
				}
				line := fset.PositionFor(c.fd.Body.Lbrace, false).Line
				if usedLabel {
					fmt.Fprintf(&sb, "%s: switch { default:\n//line %s:%d:1\n%s\n} }", label, ctf.Name(), line, body)
				} else {
					fmt.Fprintf(&sb, "{\n//line %s:%d:1\n%s\n} }", ctf.Name(), line, body)
				}
				notes = append(notes, fmt.Sprintf("expanded helper %s at %s", c.obj.Name(), fset.PositionFor(call.Pos(), false)))
				return sb.String(), results, true
			}
			resync := func(stmtStart, stmtEnd token.Pos, final string) string {
				l0 := fset.PositionFor(stmtStart, false).Line
				l1 := fset.PositionFor(stmtEnd, false).Line
				return fmt.Sprintf("\n//line %s:%d:1\n%s%s", fname, l0, final, strings.Repeat("\n", l1-l0))
			}
			handleList := func(list []ast.Stmt) {
				for si, st := range list {
					switch x := st.(type) {
					case *ast.ExprStmt:
						call, ok := x.X.(*ast.CallExpr)
						if !ok {
							continue
						}
						c, recv := calleeOf(call)
						if c == nil {
							continue
						}
						if prefix, res, ok := expand(call, c, recv, nil); ok {
							final := ""
							if len(res) > 0 {
								final = strings.Repeat("_, ", len(res)-1) + "_ = " + strings.Join(res, ", ")
							}
							edits = append(edits, textEdit{off(x.Pos()), off(x.End()), prefix + resync(x.Pos(), x.End(), final)})
						}
					case *ast.AssignStmt:
						if len(x.Rhs) != 1 {
							continue
						}
						call, ok := x.Rhs[0].(*ast.CallExpr)
						if !ok {
							continue
						}
						c, recv := calleeOf(call)
						if c == nil {
							continue
						}
						// the error idiom: the next statement is `if <err> != nil { ...; return|continue }`
						var th *threadSpec
						decl := ""
						tok := x.Tok.String()
						if si+1 < len(list) {
							if nx, ok := list[si+1].(*ast.IfStmt); ok && nx.Init == nil && nx.Else == nil {
								th, decl = threadFor(x.Lhs, x.Tok, nx, c, text, info, fset, readSrc)
							}
						}
						if th != nil {
							tok = "="
						}
						if prefix, res, ok := expand(call, c, recv, th); ok && len(res) == len(x.Lhs) {
							final := text(x.Lhs[0].Pos(), x.Lhs[len(x.Lhs)-1].End()) + " " + tok + " " + strings.Join(res, ", ")
							edits = append(edits, textEdit{off(x.Pos()), off(x.End()), decl + prefix + resync(x.Pos(), x.End(), final)})
							if th != nil && th.all && th.n > 0 {
								// the caller's test can no longer succeed: every failure already ran the handler
								nx := list[si+1]
								edits = append(edits, textEdit{off(nx.Pos()), off(nx.End()), strings.Repeat("\n", strings.Count(text(nx.Pos(), nx.End()), "\n"))})
							}
						}
					case *ast.ReturnStmt:
						if len(x.Results) > 1 {
							// return helper(...), nil  (one helper call with one result among constant results)
							ci := -1
							okForm := true
							for ri, r := range x.Results {
								switch rr := r.(type) {
								case *ast.CallExpr:
									if ci >= 0 {
										okForm = false
									}
									ci = ri
								case *ast.BasicLit:
								case *ast.Ident:
									if _, isNil := info.Uses[rr].(*types.Nil); !isNil {
										if cst, isConst := info.Uses[rr].(*types.Const); !isConst || cst.Pkg() != nil {
											okForm = false
										}
									}
								default:
									okForm = false
								}
							}
							if !okForm || ci < 0 {
								continue
							}
							call := x.Results[ci].(*ast.CallExpr)
							c, recv := calleeOf(call)
							if c == nil {
								continue
							}
							if prefix, res, ok := expand(call, c, recv, nil); ok && len(res) == 1 {
								var parts []string
								for ri, r := range x.Results {
									if ri == ci {
										parts = append(parts, res[0])
									} else {
										parts = append(parts, text(r.Pos(), r.End()))
									}
								}
								edits = append(edits, textEdit{off(x.Pos()), off(x.End()), prefix + resync(x.Pos(), x.End(), "return "+strings.Join(parts, ", "))})
							}
							continue
						}
						if len(x.Results) != 1 {
							continue
						}
						call, ok := x.Results[0].(*ast.CallExpr)
						if !ok {
							continue
						}
						c, recv := calleeOf(call)
						if c == nil {
							continue
						}
						// only when the helper's body ends in a return (so that the expanded block is a terminating statement)
						if n := len(c.fd.Body.List); n > 0 {
							if _, endsInReturn := c.fd.Body.List[n-1].(*ast.ReturnStmt); endsInReturn && c.fd.Type.Results != nil {
								if prefix, _, ok := expand(call, c, recv, &threadSpec{tail: true}); ok {
									edits = append(edits, textEdit{off(x.Pos()), off(x.End()), prefix + resync(x.Pos(), x.End(), "")})
								}
								continue
							}
						}
						if prefix, res, ok := expand(call, c, recv, nil); ok {
							edits = append(edits, textEdit{off(x.Pos()), off(x.End()), prefix + resync(x.Pos(), x.End(), "return "+strings.Join(res, ", "))})
						}
					case *ast.IfStmt:
						as, ok := x.Init.(*ast.AssignStmt)
						if !ok || len(as.Rhs) != 1 {
							continue
						}
						call, ok := as.Rhs[0].(*ast.CallExpr)
						if !ok {
							continue
						}
						c, recv := calleeOf(call)
						if c == nil {
							continue
						}
						var th *threadSpec
						decl := ""
						if x.Else == nil {
							th, decl = threadFor(as.Lhs, as.Tok, x, c, text, info, fset, readSrc)
						}
						if prefix, res, ok := expand(call, c, recv, th); ok && len(res) == len(as.Lhs) {
							// { <expansion>; if lhs := results; cond { ... } }
							l0 := fset.PositionFor(x.Pos(), false).Line
							if th != nil && th.all && th.n > 0 {
								// only the success path reaches this point: the if (whose body handled failures) becomes the plain assignment
								edits = append(edits, textEdit{off(x.Pos()), off(x.End()), "{ " + decl + prefix + fmt.Sprintf("\n//line %s:%d:1\n", fname, l0) + strings.Join(th.lhs, ", ") + " = " + strings.Join(res, ", ") + strings.Repeat("\n", strings.Count(text(x.Pos(), x.End()), "\n")) + " }"})
								continue
							}
							edits = append(edits, textEdit{off(x.Pos()), off(x.Pos()), "{ " + decl + prefix + fmt.Sprintf("\n//line %s:%d:1\n", fname, l0)})
							if th != nil {
								edits = append(edits, textEdit{off(as.Pos()), off(as.End()), strings.Join(th.lhs, ", ") + " = " + strings.Join(res, ", ")})
							} else {
								edits = append(edits, textEdit{off(call.Pos()), off(call.End()), strings.Join(res, ", ")})
							}
							edits = append(edits, textEdit{off(x.End()), off(x.End()), " }"})
						}
					}
				}
			}
			for _, d := range f.Decls {
				fd, ok := d.(*ast.FuncDecl)
				if !ok || fd.Body == nil {
					continue
				}
				ast.Inspect(fd.Body, func(n ast.Node) bool {
					switch x := n.(type) {
					case *ast.BlockStmt:
						handleList(x.List)
					case *ast.CaseClause:
						handleList(x.Body)
					case *ast.CommClause:
						handleList(x.Body)
					}
					return true
				})
			}
			// expression helpers: a helper whose body is a single `return <expression>` is also expanded where it is called
			// inside a larger expression, by substituting the (side-effect free) arguments for the parameters
			for _, d := range f.Decls {
				fd, ok := d.(*ast.FuncDecl)
				if !ok || fd.Body == nil {
					continue
				}
				ast.Inspect(fd.Body, func(n ast.Node) bool {
					call, ok := n.(*ast.CallExpr)
					if !ok {
						return true
					}
					c, recv := calleeOf(call)
					if c == nil || c.fd.Type.TypeParams != nil || (recv != nil) != (c.fd.Recv != nil) {
						return true
					}
					exprRecv = recv
					if repl, ok := exprExpansion(call, c, info, fset, readSrc, c.file == f, callerPkgs); ok {
						nl := strings.Count(text(call.Pos(), call.End()), "\n")
						edits = append(edits, textEdit{off(call.Pos()), off(call.End()), repl + strings.Repeat("\n", nl)})
						notes = append(notes, fmt.Sprintf("expanded expression helper %s at %s", c.obj.Name(), fset.PositionFor(call.Pos(), false)))
					}
					return true
				})
			}
			for _, c := range dead[f] {
				start := c.fd.Pos()
				if c.fd.Doc != nil {
					start = c.fd.Doc.Pos()
				}
				n := strings.Count(text(start, c.fd.End()), "\n")
				edits = append(edits, textEdit{off(start), off(c.fd.End()), strings.Repeat("\n", n)})
				notes = append(notes, "dropped the expanded helper "+c.obj.Name())
			}
			if len(edits) == 0 {
				continue
			}
			// drop edits nested inside another edit's range (the outer statement is expanded first; the inner one in a later pass)
			sort.SliceStable(edits, func(i, j int) bool {
				if edits[i].start != edits[j].start {
					return edits[i].start < edits[j].start
				}
				return edits[i].end > edits[j].end
			})
			var flat []textEdit
			lastEnd := -1
			for _, e := range edits {
				if e.start < lastEnd && !(e.start == e.end) {
					continue
				}
				if e.start < lastEnd && e.start == e.end {
					continue
				}
				flat = append(flat, e)
				if e.end > lastEnd {
					lastEnd = e.end
				}
			}
			out := applyEdits(src, flat, 0, len(src))
			if out != "" {
				overlay[fname] = []byte(out)
			}
		}
	}
	return overlay, notes
}

// applyEdits applies non-overlapping edits (absolute offsets) to src[lo:hi]; returns "" when edits overlap or lie outside.
func applyEdits(src []byte, edits []textEdit, lo, hi int) string {
	es := append([]textEdit{}, edits...)
	sort.SliceStable(es, func(i, j int) bool {
		if es[i].start != es[j].start {
			return es[i].start < es[j].start
		}
		return es[i].end < es[j].end
	})
	var sb strings.Builder
	cur := lo
	for _, e := range es {
		if e.start < cur || e.end > hi || e.end < e.start {
			return ""
		}
		sb.Write(src[cur:e.start])
		sb.WriteString(e.text)
		cur = e.end
	}
	sb.Write(src[cur:hi])
	return sb.String()
}

// threadFor decides whether the error idiom applies to an assignment `lhs... := helper(...)` followed (or guarded) by the
// test ifs: the last result of the helper is an error, ifs tests exactly that variable against nil, has no else, its body
// ends in return or continue and contains no unlabelled break. It returns the targets and handler text, plus the
// declarations needed for variables that the assignment would have defined.
type threadSpec struct {
	lhs     []string // caller's assignment targets, one per result
	handler string   // text of the handler's statements
	// set by the expansion: every return of the helper was either a failure handed to the handler or a `..., nil` return, so
	// the caller's own test of the error is dead afterwards
	all bool
	n   int
	// okIdiom: the helper's last result is a bool tested as `!ok`: a failure return is one whose last result is the literal false
	okIdiom bool
	// nilIdiom: the helper's last result is a reference tested as `x == nil`: a failure return is the literal nil
	nilIdiom bool
	// tail: the call is the operand of a return: the helper's returns become returns of the caller (through the typed result
	// variables), so every exit keeps its own path
	tail bool
}

func threadFor(lhs []ast.Expr, tok token.Token, ifs *ast.IfStmt, c *inlineCand, text func(a, b token.Pos) string, info *types.Info, fset *token.FileSet, readSrc func(string) []byte) (*threadSpec, string) {
	res := c.fd.Type.Results
	if res == nil || len(lhs) < 1 {
		return nil, ""
	}
	// flatten result types
	ctf := fset.File(c.fd.Pos())
	csrc := readSrc(ctf.Name())
	if csrc == nil {
		return nil, ""
	}
	var rtypes []string
	for _, f := range res.List {
		n := len(f.Names)
		if n == 0 {
			n = 1
		}
		for i := 0; i < n; i++ {
			rtypes = append(rtypes, string(csrc[ctf.Offset(f.Type.Pos()):ctf.Offset(f.Type.End())]))
		}
	}
	lastT := strings.TrimSpace(rtypes[len(rtypes)-1])
	if len(rtypes) != len(lhs) {
		return nil, ""
	}
	nilIdiom := false
	if lastT != "error" && lastT != "bool" {
		// a reference result tested against nil
		be, ok := ifs.Cond.(*ast.BinaryExpr)
		if !ok || be.Op != token.EQL {
			return nil, ""
		}
		if y, ok := be.Y.(*ast.Ident); !ok || y.Name != "nil" {
			return nil, ""
		}
		nilIdiom = true
	}
	errID, ok := lhs[len(lhs)-1].(*ast.Ident)
	if !ok || errID.Name == "_" {
		return nil, ""
	}
	okIdiom := lastT == "bool"
	if nilIdiom {
		be := ifs.Cond.(*ast.BinaryExpr)
		if id, ok := be.X.(*ast.Ident); !ok || id.Name != errID.Name {
			return nil, ""
		}
	} else if okIdiom {
		ue, ok := ifs.Cond.(*ast.UnaryExpr)
		if !ok || ue.Op != token.NOT {
			return nil, ""
		}
		if id, ok := ue.X.(*ast.Ident); !ok || id.Name != errID.Name {
			return nil, ""
		}
	} else {
		be, ok := ifs.Cond.(*ast.BinaryExpr)
		if !ok || be.Op != token.NEQ {
			return nil, ""
		}
		cx, okx := be.X.(*ast.Ident)
		cy, oky := be.Y.(*ast.Ident)
		if !okx || !oky || cx.Name != errID.Name || cy.Name != "nil" {
			return nil, ""
		}
	}
	if len(ifs.Body.List) == 0 {
		return nil, ""
	}
	switch last := ifs.Body.List[len(ifs.Body.List)-1].(type) {
	case *ast.ReturnStmt:
	case *ast.BranchStmt:
		if last.Tok != token.CONTINUE {
			return nil, ""
		}
	default:
		return nil, ""
	}
	bad := false
	ast.Inspect(ifs.Body, func(n ast.Node) bool {
		switch x := n.(type) {
		case *ast.BranchStmt:
			if x.Tok == token.BREAK && x.Label == nil {
				bad = true
			}
		case *ast.FuncLit:
			return false
		}
		return true
	})
	if bad {
		return nil, ""
	}
	var names []string
	decl := ""
	for i, e := range lhs {
		id, ok := e.(*ast.Ident)
		if !ok {
			// an assignable expression (x.f, a[i]): keep as the target
			names = append(names, text(e.Pos(), e.End()))
			continue
		}
		names = append(names, id.Name)
		if tok == token.DEFINE && id.Name != "_" {
			if _, isNew := info.Defs[id].(*types.Var); isNew {
				decl += fmt.Sprintf("var %s %s; _ = %s; ", id.Name, rtypes[i], id.Name)
			}
		}
	}
	handler := text(ifs.Body.Lbrace+1, ifs.Body.Rbrace)
	return &threadSpec{lhs: names, handler: strings.TrimSpace(handler), all: true, okIdiom: okIdiom && !nilIdiom, nilIdiom: nilIdiom}, decl
}

// definiteErrorExpr: the returned error expression cannot be nil: an error constructor call, a package-level error value, or
// a variable that an enclosing `if v != nil` has just tested.
func definiteErrorExpr(e ast.Expr, ret *ast.ReturnStmt, fd *ast.FuncDecl, info *types.Info) bool {
	switch x := e.(type) {
	case *ast.CallExpr:
		name := ""
		switch f := x.Fun.(type) {
		case *ast.Ident:
			name = f.Name
		case *ast.SelectorExpr:
			if id, ok := f.X.(*ast.Ident); ok {
				name = id.Name + "." + f.Sel.Name
			}
		}
		if name == "fmt.Errorf" || name == "errors.New" || strings.HasPrefix(name, "new") && (strings.Contains(name, "Exception") || strings.Contains(name, "Err") || strings.Contains(name, "Mismatch")) {
			return true
		}
		if strings.HasPrefix(name, "E") && len(name) > 1 && name[1] >= 'A' && name[1] <= 'Z' {
			return true // defs.EType, ESetList ...: error constructors of the parser
		}
	case *ast.SelectorExpr:
		// io.ErrShortBuffer and the like: exported error values of another package
		if id, ok := x.X.(*ast.Ident); ok {
			if _, isPkg := info.Uses[id].(*types.PkgName); isPkg && strings.HasPrefix(x.Sel.Name, "Err") {
				return true
			}
		}
	case *ast.Ident:
		if v, ok := info.Uses[x].(*types.Var); ok {
			if v.Parent() == v.Pkg().Scope() && (strings.HasPrefix(x.Name, "err") || strings.HasPrefix(x.Name, "Err")) {
				return true
			}
			// tested by an enclosing if
			found := false
			var stack []ast.Node
			ast.Inspect(fd.Body, func(n ast.Node) bool {
				if n == nil {
					stack = stack[:len(stack)-1]
					return true
				}
				stack = append(stack, n)
				if n == ast.Node(ret) {
					for i := len(stack) - 2; i >= 0; i-- {
						ifs, ok := stack[i].(*ast.IfStmt)
						if !ok || i+1 >= len(stack) || stack[i+1] != ast.Node(ifs.Body) {
							continue
						}
						if be, ok := ifs.Cond.(*ast.BinaryExpr); ok && be.Op == token.NEQ {
							if a, ok := be.X.(*ast.Ident); ok && info.Uses[a] == types.Object(v) {
								if b, ok := be.Y.(*ast.Ident); ok && b.Name == "nil" {
									// no assignment to v between the test and the return is checked syntactically: the body up to
									// the return must not assign v
									assigned := false
									ast.Inspect(ifs.Body, func(m ast.Node) bool {
										if as, ok := m.(*ast.AssignStmt); ok && as.Pos() < ret.Pos() {
											for _, l := range as.Lhs {
												if id, ok := l.(*ast.Ident); ok && (info.Uses[id] == types.Object(v) || info.Defs[id] == types.Object(v)) {
													assigned = true
												}
											}
										}
										return true
									})
									if !assigned {
										found = true
									}
								}
							}
						}
					}
				}
				return true
			})
			return found
		}
	}
	return false
}

// newFuncKeys: the functions of the module that are not in the reference list.
func newFuncKeys(modPkgs []*packages.Package) map[string]bool {
	known := knownFuncSet()
	out := map[string]bool{}
	for _, p := range modPkgs {
		for _, f := range p.Syntax {
			for _, d := range f.Decls {
				if fd, ok := d.(*ast.FuncDecl); ok && !known[funcDeclKey(p.PkgPath, fd)] {
					out[funcDeclKey(p.PkgPath, fd)] = true
				}
			}
		}
	}
	return out
}

// exprRecv: the receiver expression of the call handed to exprExpansion (nil for a plain function).
var exprRecv ast.Expr

// exprExpansion: the text that replaces a call of a single-return-expression helper inside an expression.
func exprExpansion(call *ast.CallExpr, c *inlineCand, info *types.Info, fset *token.FileSet, readSrc func(string) []byte, sameFile bool, callerPkgs map[string]string) (string, bool) {
	if len(c.fd.Body.List) != 1 || c.fd.Type.Results == nil || len(c.fd.Type.Results.List) != 1 || len(c.fd.Type.Results.List[0].Names) > 1 {
		return "", false
	}
	ret, ok := c.fd.Body.List[0].(*ast.ReturnStmt)
	if !ok || len(ret.Results) != 1 {
		return "", false
	}
	if !sameFile {
		for n, pth := range usedPkgNames(c.fd, info) {
			if callerPkgs[n] != pth {
				return "", false
			}
		}
	}
	ctf := fset.File(c.fd.Pos())
	csrc := readSrc(ctf.Name())
	atf := fset.File(call.Pos())
	asrc := readSrc(atf.Name())
	if csrc == nil || asrc == nil {
		return "", false
	}
	var pure func(e ast.Expr) bool
	pure = func(e ast.Expr) bool {
		switch x := e.(type) {
		case *ast.Ident, *ast.BasicLit:
			return true
		case *ast.ParenExpr:
			return pure(x.X)
		case *ast.SelectorExpr:
			return pure(x.X)
		case *ast.StarExpr:
			return pure(x.X)
		case *ast.IndexExpr:
			return pure(x.X) && pure(x.Index)
		case *ast.SliceExpr:
			return pure(x.X) && (x.Low == nil || pure(x.Low)) && (x.High == nil || pure(x.High)) && (x.Max == nil || pure(x.Max))
		case *ast.UnaryExpr:
			return x.Op != token.ARROW && pure(x.X)
		case *ast.BinaryExpr:
			return pure(x.X) && pure(x.Y)
		case *ast.CallExpr:
			if tv, ok := info.Types[x.Fun]; ok && tv.IsType() && len(x.Args) == 1 {
				return pure(x.Args[0])
			}
			if id, ok := x.Fun.(*ast.Ident); ok && (id.Name == "len" || id.Name == "cap") && len(x.Args) == 1 {
				if _, isBuiltin := info.Uses[id].(*types.Builtin); isBuiltin {
					return pure(x.Args[0])
				}
			}
		}
		return false
	}
	// parameters -> argument text
	sub := map[types.Object]string{}
	// a method: the receiver is substituted like a parameter when the call's receiver expression is side-effect free and
	// has the pointer level the method declares (a pointer for a pointer receiver, a value for a value receiver)
	if c.fd.Recv != nil {
		recvExpr := exprRecv
		if recvExpr == nil || len(c.fd.Recv.List) != 1 || !pure(recvExpr) {
			return "", false
		}
		rf := c.fd.Recv.List[0]
		_, wantPtr := rf.Type.(*ast.StarExpr)
		rtv := info.TypeOf(recvExpr)
		if rtv == nil {
			return "", false
		}
		_, havePtr := rtv.Underlying().(*types.Pointer)
		if wantPtr != havePtr {
			return "", false
		}
		rx := string(asrc[atf.Offset(recvExpr.Pos()):atf.Offset(recvExpr.End())])
		if strings.Contains(rx, "//") || strings.Contains(rx, "\n") {
			return "", false
		}
		if len(rf.Names) == 1 && rf.Names[0].Name != "_" {
			if o := info.Defs[rf.Names[0]]; o != nil {
				sub[o] = "(" + rx + ")"
			}
		}
	}
	k := 0
	if c.fd.Type.Params != nil {
		for _, fld := range c.fd.Type.Params.List {
			if len(fld.Names) == 0 {
				return "", false
			}
			for _, nm := range fld.Names {
				if k >= len(call.Args) || !pure(call.Args[k]) {
					return "", false
				}
				at := string(asrc[atf.Offset(call.Args[k].Pos()):atf.Offset(call.Args[k].End())])
				if strings.Contains(at, "//") || strings.Contains(at, "\n") {
					return "", false
				}
				pt := string(csrc[ctf.Offset(fld.Type.Pos()):ctf.Offset(fld.Type.End())])
				if tv, ok := info.Types[call.Args[k]]; ok && tv.Value != nil {
					at = "(" + pt + ")(" + at + ")" // a constant keeps the parameter's type
				} else {
					at = "(" + at + ")"
				}
				if o := info.Defs[nm]; o != nil {
					sub[o] = at
				}
				k++
			}
		}
	}
	if k != len(call.Args) || call.Ellipsis.IsValid() {
		return "", false
	}
	var tes []textEdit
	okSub := true
	ast.Inspect(ret.Results[0], func(n ast.Node) bool {
		switch x := n.(type) {
		case *ast.FuncLit:
			okSub = false
		case *ast.Ident:
			if o := info.Uses[x]; o != nil {
				if r, ok := sub[o]; ok {
					tes = append(tes, textEdit{ctf.Offset(x.Pos()), ctf.Offset(x.End()), r})
				}
			}
		}
		return okSub
	})
	if !okSub {
		return "", false
	}
	body := applyEdits(csrc, tes, ctf.Offset(ret.Results[0].Pos()), ctf.Offset(ret.Results[0].End()))
	if body == "" || strings.Contains(body, "//") {
		return "", false
	}
	if strings.ContainsAny(body, "\"`'") {
		if strings.Contains(body, "\n") {
			return "", false // a literal must not be re-spaced
		}
	} else {
		body = strings.Join(strings.Fields(strings.ReplaceAll(body, "\n", " ")), " ")
	}
	rt := c.fd.Type.Results.List[0].Type
	rtt := string(csrc[ctf.Offset(rt.Pos()):ctf.Offset(rt.End())])
	return "(" + rtt + ")(" + body + ")", true
}
