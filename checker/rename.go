package main

import (
	_ "embed"
	"fmt"
	"go/ast"
	"go/token"
	"go/types"
	"hash/fnv"
	"sort"
	"strings"

	"golang.org/x/tools/go/packages"
)

// Undoing renames.
//
// The rules name the functions, types, struct fields and package-level variables of the reference tree. A change that
// renames one of them leaves behaviour alone, but a rule that looks for `checkMapN` or for the field `IsPointer` no longer
// finds its anchor. Before anything else the tree is therefore alpha-normalised against the declarations of the reference
// tree (known_refs.txt: kind, package, qualified name, type, and for fields the position in the struct): when a reference
// name is missing and exactly one new declaration of the same kind, in the same place (package, receiver or struct), with
// the same type has appeared, the new name is a rename of the old one and every identifier that resolves to it is written
// back to the old name in the overlay. The pairing is by declaration shape only; nothing is renamed when it is ambiguous.
// On the reference tree nothing is missing, so nothing is renamed.

//go:embed known_refs.txt
var knownRefsTxt string

type refDecl struct {
	kind, pkg, name, typ string
	idx                  int    // field index for S
	shape                string // hash of the body / initialiser with every identifier erased (F, V, C); tie-breaker only
}

func parseRefs() []refDecl {
	var out []refDecl
	for _, l := range strings.Split(knownRefsTxt, "\n") {
		if l == "" || strings.HasPrefix(l, "#") {
			continue
		}
		f := strings.Split(l, "\t")
		if len(f) < 4 {
			continue
		}
		d := refDecl{kind: f[0], pkg: f[1], name: f[2], typ: f[3], idx: -1}
		if len(f) > 4 {
			fmt.Sscan(f[4], &d.idx)
		}
		if len(f) > 5 {
			d.shape = f[5]
		}
		out = append(out, d)
	}
	return out
}

// typeStr writes a type with package-qualified names, independent of the file it is used in.
func typeStr(t types.Type) string {
	return types.TypeString(t, func(p *types.Package) string { return p.Path() })
}

func sigStr(sig *types.Signature) string {
	// without the receiver: the receiver's type name is part of the qualified name
	return typeStr(types.NewSignatureType(nil, nil, nil, sig.Params(), sig.Results(), sig.Variadic()))
}

// currentDecls lists the declarations of the module packages in the same form as known_refs.txt, with their objects.
func currentDecls(modPkgs []*packages.Package) ([]refDecl, map[string]types.Object) {
	var out []refDecl
	objs := map[string]types.Object{}
	shapes := declShapes(modPkgs)
	add := func(d refDecl, o types.Object) {
		d.shape = shapes[o]
		out = append(out, d)
		objs[d.kind+"\t"+d.pkg+"\t"+d.name] = o
	}
	for _, p := range modPkgs {
		if p.Types == nil {
			continue
		}
		sc := p.Types.Scope()
		for _, n := range sc.Names() {
			switch o := sc.Lookup(n).(type) {
			case *types.Func:
				add(refDecl{kind: "F", pkg: p.PkgPath, name: n, typ: sigStr(o.Type().(*types.Signature)), idx: -1}, o)
			case *types.Var:
				add(refDecl{kind: "V", pkg: p.PkgPath, name: n, typ: typeStr(o.Type()), idx: -1}, o)
			case *types.Const:
				add(refDecl{kind: "C", pkg: p.PkgPath, name: n, typ: typeStr(o.Type()), idx: -1}, o)
			case *types.TypeName:
				if o.IsAlias() {
					continue
				}
				named, ok := o.Type().(*types.Named)
				if !ok {
					continue
				}
				kind := fmt.Sprintf("%T", named.Underlying())
				if st, ok := named.Underlying().(*types.Struct); ok {
					kind = fmt.Sprintf("struct/%d", st.NumFields())
					for i := 0; i < st.NumFields(); i++ {
						f := st.Field(i)
						add(refDecl{kind: "S", pkg: p.PkgPath, name: n + "." + f.Name(), typ: typeStr(f.Type()), idx: i}, f)
					}
				} else {
					kind = typeStr(named.Underlying())
				}
				add(refDecl{kind: "T", pkg: p.PkgPath, name: n, typ: kind, idx: -1}, o)
				for i := 0; i < named.NumMethods(); i++ {
					m := named.Method(i)
					add(refDecl{kind: "F", pkg: p.PkgPath, name: n + "." + m.Name(), typ: sigStr(m.Type().(*types.Signature)), idx: -1}, m)
				}
			}
		}
	}
	sort.Slice(out, func(i, j int) bool {
		a, b := out[i], out[j]
		if a.kind != b.kind {
			return a.kind < b.kind
		}
		if a.pkg != b.pkg {
			return a.pkg < b.pkg
		}
		return a.name < b.name
	})
	return out, objs
}

func container(name string) string {
	if i := strings.Index(name, "."); i >= 0 {
		return name[:i]
	}
	return ""
}

func simple(name string) string {
	if i := strings.Index(name, "."); i >= 0 {
		return name[i+1:]
	}
	return name
}

// undoRenames returns an overlay in which renamed declarations carry their reference names again.
func undoRenames(modPkgs []*packages.Package, fset *token.FileSet, readSrc func(string) []byte) (map[string][]byte, []string) {
	refs := parseRefs()
	cur, objs := currentDecls(modPkgs)
	have := map[string]bool{}
	for _, d := range cur {
		have[d.kind+"\t"+d.pkg+"\t"+d.name] = true
	}
	isRef := map[string]bool{}
	for _, d := range refs {
		isRef[d.kind+"\t"+d.pkg+"\t"+d.name] = true
	}
	var missing, added []refDecl
	for _, d := range refs {
		if !have[d.kind+"\t"+d.pkg+"\t"+d.name] {
			missing = append(missing, d)
		}
	}
	for _, d := range cur {
		if !isRef[d.kind+"\t"+d.pkg+"\t"+d.name] {
			added = append(added, d)
		}
	}
	if len(missing) == 0 || len(added) == 0 {
		return nil, nil
	}
	// types first: a renamed type changes the spelling of everything that mentions it, so only types (and what does not
	// mention a missing type) are paired in this round; the caller runs further rounds
	missingTypes := false
	for _, m := range missing {
		if m.kind == "T" {
			missingTypes = true
		}
	}
	rename := map[types.Object]string{}
	var notes []string
	usedAdded := map[int]bool{}
	for _, m := range missing {
		if missingTypes && m.kind != "T" {
			continue
		}
		cand := -1
		n := 0
		var cands []int
		for i, a := range added {
			if usedAdded[i] || a.kind != m.kind || a.pkg != m.pkg || a.typ != m.typ || container(a.name) != container(m.name) {
				continue
			}
			if m.kind == "S" && a.idx != m.idx {
				continue
			}
			cand = i
			cands = append(cands, i)
			n++
		}
		if n > 1 && m.shape != "" {
			// several new declarations of the same type in the same place (two tables of one type renamed together): the one
			// whose body / initialiser has the same shape once every identifier is erased
			n = 0
			for _, i := range cands {
				if added[i].shape == m.shape {
					cand = i
					n++
				}
			}
		}
		if n != 1 {
			continue
		}
		a := added[cand]
		o := objs[a.kind+"\t"+a.pkg+"\t"+a.name]
		if o == nil {
			continue
		}
		usedAdded[cand] = true
		rename[o] = simple(m.name)
		notes = append(notes, fmt.Sprintf("read %s %s as its reference name %s", map[string]string{"F": "function", "V": "variable", "C": "constant", "T": "type", "S": "field"}[m.kind], a.name, m.name))
	}
	if len(rename) == 0 {
		return nil, nil
	}
	overlay := map[string][]byte{}
	for _, p := range modPkgs {
		info := p.TypesInfo
		if info == nil {
			continue
		}
		for _, f := range p.Syntax {
			tf := fset.File(f.Pos())
			if tf == nil {
				continue
			}
			src := readSrc(tf.Name())
			if src == nil {
				continue
			}
			var edits []textEdit
			ast.Inspect(f, func(n ast.Node) bool {
				id, ok := n.(*ast.Ident)
				if !ok {
					return true
				}
				o := info.Defs[id]
				if o == nil {
					o = info.Uses[id]
				}
				if o == nil {
					return true
				}
				// methods and fields of instantiated generics resolve to the origin object
				if v, ok := o.(*types.Var); ok {
					o = v.Origin()
				}
				if fn, ok := o.(*types.Func); ok {
					o = fn.Origin()
				}
				if nn, ok := rename[o]; ok && id.Name != nn {
					edits = append(edits, textEdit{tf.Offset(id.Pos()), tf.Offset(id.End()), nn})
				}
				return true
			})
			if len(edits) == 0 {
				continue
			}
			if out := applyEdits(src, edits, 0, len(src)); out != "" {
				overlay[tf.Name()] = []byte(out)
			}
		}
	}
	return overlay, notes
}

// declShapes hashes the body of every function and the initialiser of every package-level variable and constant of the module
// with all identifiers erased: node kinds, operators and literals only. A rename leaves the shape unchanged.
func declShapes(modPkgs []*packages.Package) map[types.Object]string {
	out := map[types.Object]string{}
	modPaths := map[string]bool{}
	for _, p := range modPkgs {
		modPaths[p.PkgPath] = true
	}
	var info *types.Info
	shapeOf := func(n ast.Node) string {
		if n == nil {
			return ""
		}
		h := fnv.New64a()
		ast.Inspect(n, func(x ast.Node) bool {
			switch v := x.(type) {
			case nil:
				h.Write([]byte(")"))
				return true
			case *ast.Ident:
				// names a module edit cannot change are part of the shape: predeclared identifiers and what other modules declare
				h.Write([]byte("I"))
				if o := info.Uses[v]; o != nil {
					switch {
					case o.Pkg() == nil:
						h.Write([]byte(":" + o.Name()))
					case !modPaths[o.Pkg().Path()]:
						h.Write([]byte(":" + o.Pkg().Path() + "." + o.Name()))
					}
					if pn, ok := o.(*types.PkgName); ok && !modPaths[pn.Imported().Path()] {
						h.Write([]byte(":pkg " + pn.Imported().Path()))
					}
				}
			case *ast.BasicLit:
				h.Write([]byte("L" + v.Value))
			case *ast.BinaryExpr:
				h.Write([]byte("B" + v.Op.String()))
			case *ast.UnaryExpr:
				h.Write([]byte("U" + v.Op.String()))
			case *ast.AssignStmt:
				h.Write([]byte("A" + v.Tok.String()))
			case *ast.IncDecStmt:
				h.Write([]byte("D" + v.Tok.String()))
			case *ast.BranchStmt:
				h.Write([]byte("J" + v.Tok.String()))
			case *ast.CommentGroup, *ast.Comment:
				return false
			default:
				h.Write([]byte(fmt.Sprintf("%T(", x)))
			}
			return true
		})
		return fmt.Sprintf("%016x", h.Sum64())
	}
	for _, p := range modPkgs {
		if p.TypesInfo == nil {
			continue
		}
		info = p.TypesInfo
		for _, f := range p.Syntax {
			for _, d := range f.Decls {
				switch d := d.(type) {
				case *ast.FuncDecl:
					if o := p.TypesInfo.Defs[d.Name]; o != nil && d.Body != nil {
						out[o] = shapeOf(d.Body)
					}
				case *ast.GenDecl:
					for _, sp := range d.Specs {
						vs, ok := sp.(*ast.ValueSpec)
						if !ok || len(vs.Values) != len(vs.Names) {
							continue
						}
						for i, nm := range vs.Names {
							if o := p.TypesInfo.Defs[nm]; o != nil {
								out[o] = shapeOf(vs.Values[i])
							}
						}
					}
				}
			}
		}
	}
	return out
}
