package main

func propertyTable() []*Property {
	return []*Property{
		{ID: "C02", Technique: "static analysis: protocol-table lenses over constants, tables, emit sites and registrations (go/types + go/ssa)",
			Decides: "tables", NotDecided: "values", RuleIDs: []string{"T1.wire-codes", "T2.tables", "T3.big-endian", "T5.list-registrations", "T6.map-registrations", "PTR-CHASE", "T4.writer-lens", "T7.reader-lens", "T9.wire-type-bytes", "T8.equal-lens"}},
		{ID: "C05", Technique: "static analysis: linear-inequality cursor-bounds analysis + wire-length taint/sanitiser dominance over SSA",
			Decides: "bounds", NotDecided: "values", RuleIDs: []string{"E4.cursor-bounds", "E5.length-sanitised", "E5.guards-error", "E5.loops"}},
	}
}

// notApplicable lists the properties not claimed, with the reason.
func notApplicable() []map[string]string {
	return []map[string]string{}
}
