// mutgen prints single-edit mutants of Go files as "file<TAB>startOffset<TAB>endOffset<TAB>replacement<TAB>operator" lines.
// It is a test generator for the checker (tools/mutsweep.sh): the classic mutation operators, applied textually.
package main

import (
	"fmt"
	"go/ast"
	"go/parser"
	"go/token"
	"os"
	"strconv"
)

func main() {
	for _, fn := range os.Args[1:] {
		src, err := os.ReadFile(fn)
		if err != nil {
			continue
		}
		fset := token.NewFileSet()
		f, err := parser.ParseFile(fset, fn, src, 0)
		if err != nil {
			continue
		}
		tf := fset.File(f.Pos())
		emit := func(a, b token.Pos, repl, op string) {
			fmt.Printf("%s\t%d\t%d\t%s\t%s\n", fn, tf.Offset(a), tf.Offset(b), strconv.Quote(repl), op)
		}
		rel := map[token.Token][]string{
			token.LSS: {"<=", ">="}, token.LEQ: {"<", "=="}, token.GTR: {">=", "<="}, token.GEQ: {">", "=="},
			token.EQL: {"!="}, token.NEQ: {"=="},
		}
		arith := map[token.Token][]string{token.ADD: {"-"}, token.SUB: {"+"}, token.MUL: {"/"}, token.QUO: {"*"}, token.SHL: {">>"}, token.SHR: {"<<"}, token.AND: {"|"}, token.OR: {"&"}}
		ast.Inspect(f, func(n ast.Node) bool {
			switch x := n.(type) {
			case *ast.GenDecl:
				if x.Tok == token.IMPORT {
					return false
				}
			case *ast.BinaryExpr:
				opEnd := x.OpPos + token.Pos(len(x.Op.String()))
				for _, r := range rel[x.Op] {
					emit(x.OpPos, opEnd, r, "rel")
				}
				for _, r := range arith[x.Op] {
					emit(x.OpPos, opEnd, r, "arith")
				}
				if x.Op == token.LAND {
					emit(x.OpPos, opEnd, "||", "bool")
				}
				if x.Op == token.LOR {
					emit(x.OpPos, opEnd, "&&", "bool")
				}
			case *ast.BasicLit:
				if x.Kind == token.INT {
					if v, err := strconv.ParseInt(x.Value, 0, 64); err == nil {
						emit(x.Pos(), x.End(), strconv.FormatInt(v+1, 10), "const+1")
						if v > 0 {
							emit(x.Pos(), x.End(), strconv.FormatInt(v-1, 10), "const-1")
						}
					}
				}
			case *ast.IfStmt:
				emit(x.Cond.Pos(), x.Cond.End(), "!("+string(src[tf.Offset(x.Cond.Pos()):tf.Offset(x.Cond.End())])+")", "negate")
			case *ast.BlockStmt:
				for _, st := range x.List {
					switch s := st.(type) {
					case *ast.AssignStmt:
						if s.Tok != token.DEFINE {
							emit(s.Pos(), s.End(), "", "delstmt")
						}
					case *ast.IncDecStmt:
						emit(s.Pos(), s.End(), "", "delstmt")
					case *ast.ExprStmt:
						emit(s.Pos(), s.End(), "", "delstmt")
					case *ast.BranchStmt:
						if s.Tok == token.CONTINUE || s.Tok == token.BREAK {
							emit(s.Pos(), s.End(), "", "delstmt")
						}
					}
				}
			case *ast.CaseClause:
				for _, st := range x.Body {
					switch s := st.(type) {
					case *ast.AssignStmt:
						if s.Tok != token.DEFINE {
							emit(s.Pos(), s.End(), "", "delstmt")
						}
					case *ast.ExprStmt:
						emit(s.Pos(), s.End(), "", "delstmt")
					}
				}
			}
			return true
		})
	}
}
