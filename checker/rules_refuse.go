package main

import (
	"fmt"
	"go/ast"
	"go/constant"
	"go/token"
	"go/types"
	"regexp"
	"sort"
	"strings"

	"golang.org/x/tools/go/packages"
	"golang.org/x/tools/go/ssa"
)

func init() {
	register(&Rule{ID: "R.refusals", Min: 30,
		Text: "refusal catalogue: every invalid class named by the property has a guard whose failing edge returns a non-nil error and lies on the way to acceptance: the 27 reflect.Kinds evaluated through doParseType's switch (accepted = Bool, Int, Int8-64, Float64, Map, Slice, String, Struct, Ptr, each mapped to its Thrift tag; every other kind reaches an error return, explicit or default); slice without annotation; nested pointer; pointer to map/list/set/binary; map key (IsKeyType on K) and value/element (IsValueType on V) restrictions with their truth tables; id parsed base 10 in 16 bits; duplicate id; unknown requiredness and option; nocopy only on string/binary and not twice; non-optional scalar pointer; whole annotation consumed; argument checks at the entry points; EncodedSize panics explicitly with the error",
		Run:  ruleRefusals})
	register(&Rule{ID: "R.nil-deref", Min: 2,
		Text: "ZERO-STRUCT-DEREF: a pointer-typed field of an object obtained from a zeroing constructor (new(T), pooled object reset by *p = T{}) is not dereferenced before a store to that field dominates the use. REFLECT-ACCESSOR: on reflect.ValueOf(<user argument>) Type() needs a dominating IsValid/Kind test, IsNil/Elem/UnsafePointer need the matching Kind() test",
		Run:  ruleNilDeref})
	register(&Rule{ID: "R.panic-inventory", Min: 6,
		Text: "every explicit panic in a module function reachable from the three entry points is listed with the rule that makes it unreachable (or, for EncodedSize, is the documented error panic); an unlisted panic is a violation",
		Run:  rulePanicInventory})
	register(&Rule{ID: "E12.tag-frontend", Min: 9,
		Text: "tag front end: frugal tag consulted before thrift; the thrift path drops exactly the field name (ss[1:]); both paths trim; anonymous, unexported and untagged fields are skipped before any parsing; missing requiredness means default; set/list tokens map to T_set/T_list; the enum upgrade happens only when the annotation named the type (inside the name-match chain) and the Go type is not plain int64; fields are sorted by id; the descriptor cache key always contains both the annotation string and the Go type",
		Run:  ruleE12})
}

func nows(s string) string { return strings.Join(strings.Fields(s), "") }

// ifsIn returns all if statements (including else-if) of a function with their normalised condition.
type ifInfo struct {
	st   *ast.IfStmt
	cond string
}

func ifsIn(fd *ast.FuncDecl) []ifInfo {
	var out []ifInfo
	ast.Inspect(fd, func(n ast.Node) bool {
		// a tagless switch is an if / else-if chain
		if sw, ok := n.(*ast.SwitchStmt); ok && sw.Tag == nil {
			for _, cl := range sw.Body.List {
				cc := cl.(*ast.CaseClause)
				for _, e := range cc.List {
					out = append(out, ifInfo{&ast.IfStmt{If: cc.Pos(), Cond: e, Body: &ast.BlockStmt{List: cc.Body}}, nows(types.ExprString(e))})
				}
			}
		}
		if is, ok := n.(*ast.IfStmt); ok {
			cond := nows(types.ExprString(is.Cond))
			if is.Init != nil {
				cond = nows(exprOrStmt(is.Init)) + ";" + cond
			}
			out = append(out, ifInfo{is, cond})
		}
		return true
	})
	return out
}

// returnsErr: the block contains (directly) `return <zero>, <non-nil expr>` i.e. last result is not the identifier nil.
func returnsErr(body *ast.BlockStmt) bool {
	found := false
	for _, st := range body.List {
		ast.Inspect(st, func(n ast.Node) bool {
			if _, ok := n.(*ast.FuncLit); ok {
				return false
			}
			if rs, ok := n.(*ast.ReturnStmt); ok && len(rs.Results) >= 1 {
				last := rs.Results[len(rs.Results)-1]
				if id, ok := last.(*ast.Ident); !ok || id.Name != "nil" {
					found = true
				}
			}
			return true
		})
	}
	return found
}

// guard: an if in fd whose condition contains all substrings (whitespace-free) and whose body returns an error.
// The guard must not itself be conditional on the presence of an annotation (nested under a test of `def`): the refusal
// has to hold for annotated and un-annotated fields alike.
func (c *Ctx) guard(s *obSink, pkg, fn, key string, must []string, what, consequence string) {
	fd, _ := c.funcDecl(pkg, fn)
	if fd == nil {
		s.bad(key, "-", "function "+fn+" not found")
		return
	}
	pm := parentMap(fd)
	underDef := func(n ast.Node) string {
		child := n
		for cur := pm[n]; cur != nil; child, cur = cur, pm[cur] {
			is, ok := cur.(*ast.IfStmt)
			if !ok {
				continue
			}
			// n lies in the body or the else chain of `is`: both are conditional on is.Cond
			if child == ast.Node(is.Cond) || child == ast.Node(is.Init) {
				continue
			}
			cs := nows(types.ExprString(is.Cond))
			if strings.Contains(cs, `def!=""`) || strings.Contains(cs, `def==""`) {
				return types.ExprString(is.Cond)
			}
		}
		return ""
	}
	for _, i := range ifsIn(fd) {
		ok := true
		for _, m := range must {
			if !strings.Contains(i.cond, nows(m)) {
				ok = false
			}
		}
		if ok && returnsErr(i.st.Body) {
			if pkg == pkgDefs && len(must) > 0 && !strings.Contains(nows(must[0]), "def") {
				if u := underDef(i.st); u != "" {
					s.bad(key, c.Pos(i.st.Pos()), "the guard for "+what+" is only evaluated under `"+u+"`: fields without a type annotation bypass it: "+consequence)
					return
				}
			}
			s.ok(key, c.Pos(i.st.Pos()), what+": `"+types.ExprString(i.st.Cond)+"` returns an error")
			return
		}
	}
	// the guard may live in a helper called from fn whose error fn returns (one level)
	if !strings.Contains(fn, "/") && len(must) > 0 {
		seen := map[string]bool{}
		var helpers []string
		ast.Inspect(fd, func(n ast.Node) bool {
			if call, ok := n.(*ast.CallExpr); ok {
				if id, ok := call.Fun.(*ast.Ident); ok && !seen[id.Name] && id.Name != fd.Name.Name {
					seen[id.Name] = true
					helpers = append(helpers, id.Name)
				}
			}
			return true
		})
		for _, h := range helpers {
			hd, _ := c.funcDecl(pkg, h)
			if hd == nil || hd.Type.Results == nil {
				continue
			}
			for _, i := range ifsIn(hd) {
				ok := true
				for _, m := range must {
					// parameter names may differ in the helper: compare without the receiver/variable prefix
					mm := nows(m)
					if !strings.Contains(i.cond, mm) && !strings.Contains(i.cond, mm[strings.Index(mm, ".")+1:]) {
						ok = false
					}
				}
				if ok && returnsErr(i.st.Body) && c.helperErrorPropagated(pkg, fn, h) {
					s.ok(key, c.Pos(i.st.Pos()), what+": `"+types.ExprString(i.st.Cond)+"` in helper "+h+" returns an error that "+fn+" returns")
					return
				}
			}
		}
	}
	s.bad(key, c.Pos(fd.Pos()), "no guard for "+what+" in "+fn+" (expected a condition mentioning "+strings.Join(must, " and ")+" whose branch returns an error): "+consequence)
}

// helperErrorPropagated: in fn, the error result of every call of helper h is tested and its failure edge returns an error.
func (c *Ctx) helperErrorPropagated(pkg, fn, h string) bool {
	f := c.SSA[pkg].Func(fn)
	if f == nil {
		return false
	}
	n := 0
	for _, b := range f.Blocks {
		for _, ins := range b.Instrs {
			call, ok := ins.(*ssa.Call)
			if !ok || call.Call.StaticCallee() == nil || call.Call.StaticCallee().Name() != h {
				continue
			}
			n++
			var errv ssa.Value
			if isErrorType(call.Type()) {
				errv = call
			}
			for _, r := range referrers(call) {
				if ex, ok := r.(*ssa.Extract); ok && isErrorType(ex.Type()) {
					errv = ex
				}
			}
			if errv == nil {
				return false
			}
			okEdge := false
			for _, r := range referrers(errv) {
				if bo, ok := r.(*ssa.BinOp); ok && (bo.Op == token.NEQ || bo.Op == token.EQL) {
					for _, rr := range referrers(bo) {
						if iff, ok := rr.(*ssa.If); ok {
							fail := iff.Block().Succs[0]
							if bo.Op == token.EQL {
								fail = iff.Block().Succs[1]
							}
							if edgeErrors(fail) {
								okEdge = true
							}
						}
					}
				}
			}
			if !okEdge {
				return false
			}
		}
	}
	return n > 0
}

func ruleRefusals(c *Ctx) []Ob {
	s := newSink(c, "R.refusals")
	// ---- kinds
	fd, _ := c.funcDecl(pkgDefs, "doParseType")
	if fd == nil {
		s.bad("doParseType", "-", "not found")
		return s.obs
	}
	var sw *ast.SwitchStmt
	ast.Inspect(fd, func(n ast.Node) bool {
		if x, ok := n.(*ast.SwitchStmt); ok && x.Tag != nil && strings.HasSuffix(nows(types.ExprString(x.Tag)), ".Kind()") {
			sw = x
		}
		return true
	})
	wantTag := map[string]string{"Bool": "T_bool", "Int": "T_int()", "Int8": "T_i8", "Int16": "T_i16", "Int32": "T_i32", "Int64": "T_i64",
		"Float64": "T_double", "Map": "T_map", "String": "T_string", "Struct": "T_struct", "Slice": "<slice>"}
	allKinds := []string{"Invalid", "Bool", "Int", "Int8", "Int16", "Int32", "Int64", "Uint", "Uint8", "Uint16", "Uint32", "Uint64", "Uintptr",
		"Float32", "Float64", "Complex64", "Complex128", "Array", "Chan", "Func", "Interface", "Map", "Pointer", "Slice", "String", "Struct", "UnsafePointer"}
	_ = sw
	if pf := c.SSA[pkgDefs].Func("doParseType"); pf == nil || len(pf.Params) == 0 {
		s.bad("kind-switch", c.Pos(fd.Pos()), "doParseType not found in the SSA program")
	} else {
		tagName := map[int64]string{}
		for n, v := range c.defsTags() {
			tagName[v] = n
		}
		for _, kn := range allKinds {
			if kn == "Pointer" {
				continue // handled by the nested-pointer / pointer-to-container rows
			}
			o, ok := c.ByPath["reflect"].Types.Scope().Lookup(kn).(*types.Const)
			if !ok {
				continue
			}
			kv, _ := constant.Int64Val(o.Val())
			w := &kindWalker{c: c, fn: pf, param: pf.Params[0], kind: kv, pkg: pkgDefs, env: map[ssa.Value]kval{}}
			end, tag, at := w.run("Tag")
			res := end
			if end == "continues" || end == "return" {
				switch {
				case tag.sym != "":
					res = "T_" + strings.TrimPrefix(tag.sym, "T_")
				case tag.known && tag.i == 0:
					res = "<slice>"
				case tag.known:
					res = tagName[tag.i]
				default:
					res = "undetermined"
				}
			}
			pos := c.Pos(pf.Pos())
			if at != nil {
				pos = c.InstrPos(at)
			}
			key := "kind:" + kn
			if want, accepted := wantTag[kn]; accepted {
				s.check(res == want, key, pos, kn+" -> "+want, "Go kind "+kn+" is mapped to "+res+", expected "+want)
			} else {
				s.check(res == "error", key, pos, kn+" is refused", "Go kind "+kn+", which Thrift cannot express, is not refused (outcome: "+res+")")
			}
		}
	}
	// ---- named classes
	c.guard(s, pkgDefs, "doParseType", "slice-without-annotation", []string{`def==""`}, "slice without list/set annotation", "an ambiguous []T would be accepted with an arbitrary wire type")
	c.guard(s, pkgDefs, "doParseType", "nested-pointer", []string{"!allowPtrs"}, "pointer to pointer", "**T would reach the descriptor builder, which panics on multilevel pointers")
	// pointer to container: switch ret.V.T { case T_map, T_set, T_list, T_binary: return error }
	okPtrC := false
	ast.Inspect(fd, func(n ast.Node) bool {
		x, ok := n.(*ast.SwitchStmt)
		if !ok || x.Tag == nil || !strings.HasSuffix(nows(types.ExprString(x.Tag)), ".V.T") {
			return true
		}
		have := map[string]bool{}
		for _, cl := range x.Body.List {
			cc := cl.(*ast.CaseClause)
			if returnsErr(&ast.BlockStmt{List: cc.Body}) {
				for _, e := range cc.List {
					have[nows(types.ExprString(e))] = true
				}
			}
		}
		if have["T_map"] && have["T_set"] && have["T_list"] && have["T_binary"] {
			okPtrC = true
		}
		return true
	})
	if !okPtrC {
		// alternative spelling with if
		for _, i := range ifsIn(fd) {
			if strings.Contains(i.cond, "T_map") && strings.Contains(i.cond, "T_set") && strings.Contains(i.cond, "T_list") && strings.Contains(i.cond, "T_binary") && returnsErr(i.st.Body) {
				okPtrC = true
			}
		}
	}
	s.check(okPtrC, "pointer-to-container", c.Pos(fd.Pos()), "pointers to map, set, list and binary are refused", "no refusal of pointers to map/set/list/binary in doParseType: *[]T is walked at the wrong level, *map crashes the descriptor build, *[]byte decodes with capacity 0")
	c.guard(s, pkgDefs, "doParseType", "map-key-type", []string{"!ret.K.IsKeyType()"}, "invalid map key type", "maps keyed by containers or by-value structs would reach encoders that cannot handle them")
	c.guard(s, pkgDefs, "doParseType", "map-value-type", []string{"!ret.V.IsValueType()"}, "non-struct pointer as map value", "map[K]*scalar would be accepted and mis-walked")
	c.guard(s, pkgDefs, "doParseSlice", "list-element-type", []string{"!rt.V.IsValueType()"}, "non-struct pointer as list/set element", "[]*scalar would be accepted and mis-walked")
	c.guard(s, pkgDefs, "doParseSlice", "set-or-list", []string{}, "annotation that is neither set nor list", "")
	c.guard(s, pkgDefs, "ParseType", "whole-annotation", []string{`tok!=""`}, "tokens after a complete type", "annotations such as list<i32>> or `i32 junk` would be accepted")
	// IsKeyType / IsValueType truth tables: the predicates are evaluated for every tag (and, for pointers, for a struct and a
	// non-struct pointee) over their control-flow graph
	tags := c.defsTags()
	tptr, tstruct := tags["T_pointer"], tags["T_struct"]
	if kf := c.Func(pkgDefs, "(*Type).IsKeyType"); kf != nil && len(tags) > 0 {
		wantTrue := map[string]bool{"T_bool": true, "T_double": true, "T_enum": true, "T_i16": true, "T_i32": true, "T_i64": true, "T_i8": true, "T_string": true}
		var wrong []string
		for name, tv := range tags {
			if name == "T_pointer" {
				continue
			}
			got := predicateValue(kf, map[string]int64{"T": tv, "V.T": tstruct})
			if got == triU || (got == triT) != wantTrue[name] {
				wrong = append(wrong, fmt.Sprintf("%s -> %v", name, got))
			}
		}
		ps := predicateValue(kf, map[string]int64{"T": tptr, "V.T": tstruct})
		po := predicateValue(kf, map[string]int64{"T": tptr, "V.T": tags["T_i32"]})
		if ps != triT || po != triF {
			wrong = append(wrong, fmt.Sprintf("pointer to struct -> %v, pointer to i32 -> %v", ps, po))
		}
		sort.Strings(wrong)
		s.check(len(wrong) == 0, "IsKeyType:table", c.Pos(kf.Pos()), fmt.Sprintf("key kinds = scalars, string, enum, pointer-to-struct (evaluated for %d tags)", len(tags)), "IsKeyType differs from {bool, i8, i16, i32, i64, double, string, enum, pointer-to-struct}: "+strings.Join(wrong, "; "))
	} else {
		s.bad("IsKeyType:table", "-", "IsKeyType not found")
	}
	if vf := c.Func(pkgDefs, "(*Type).IsValueType"); vf != nil && len(tags) > 0 {
		var wrong []string
		for name, tv := range tags {
			for _, vt := range []int64{tstruct, tags["T_i32"]} {
				want := tv != tptr || vt == tstruct
				got := predicateValue(vf, map[string]int64{"T": tv, "V.T": vt})
				if got == triU || (got == triT) != want {
					wrong = append(wrong, fmt.Sprintf("%s (pointee struct: %v) -> %v", name, vt == tstruct, got))
				}
			}
		}
		sort.Strings(wrong)
		s.check(len(wrong) == 0, "IsValueType:table", c.Pos(vf.Pos()), "values: anything but non-struct pointers", "IsValueType is not `t.T != T_pointer || t.V.T == T_struct`: "+strings.Join(wrong, "; "))
	} else {
		s.bad("IsValueType:table", "-", "IsValueType not found")
	}
	// ---- resolver
	const rf = "DoResolveFields"
	rfd, rp := c.funcDecl(pkgDefs, rf)
	if rfd == nil {
		s.bad(rf, "-", "not found")
		return s.obs
	}
	// id parse
	okID := false
	ast.Inspect(rfd, func(n ast.Node) bool {
		call, ok := n.(*ast.CallExpr)
		if !ok || nows(types.ExprString(call.Fun)) != "strconv.ParseUint" || len(call.Args) != 3 {
			return true
		}
		b, _ := constant.Int64Val(rp.TypesInfo.Types[call.Args[1]].Value)
		w, _ := constant.Int64Val(rp.TypesInfo.Types[call.Args[2]].Value)
		if b == 10 && w == 16 {
			okID = true
		} else {
			s.bad("id-parse", c.Pos(call.Pos()), fmt.Sprintf("field id parsed with base %d into %d bits: ids above 65535 would be accepted and truncated to 16 bits (aliasing other fields), or non-decimal spellings accepted", b, w))
		}
		return true
	})
	if okID {
		s.ok("id-parse", c.Pos(rfd.Pos()), "strconv.ParseUint(id, 10, 16)")
	} else {
		s.bad("id-parse:missing", c.Pos(rfd.Pos()), "field id is not parsed with strconv.ParseUint(_, 10, 16)")
	}
	c.guard(s, pkgDefs, rf, "id-parse-error", []string{"strconv.ParseUint", "err!=nil"}, "non-numeric / out-of-range id", "")
	c.guard(s, pkgDefs, rf, "empty-tag", []string{"len(ft)==0"}, "tag without an id", "")
	// duplicate id: if _, ok = ids[id]; !ok {...} else { return error }
	okDup := false
	for _, i := range ifsIn(rfd) {
		if i.st.Init != nil && strings.Contains(nows(exprOrStmt(i.st.Init)), "ids[id]") {
			if strings.HasSuffix(i.cond, ";!ok") && i.st.Else != nil {
				if eb, ok := i.st.Else.(*ast.BlockStmt); ok && returnsErr(eb) {
					okDup = true
				}
			}
			if strings.HasSuffix(i.cond, ";ok") && returnsErr(i.st.Body) {
				okDup = true
			}
		}
	}
	s.check(okDup, "duplicate-id", c.Pos(rfd.Pos()), "a second field with the same id is refused", "duplicate field ids are not refused")
	// requiredness and option keywords: an unknown word is refused, each known word yields its own constant
	{
		want := map[string]int64{}
		for w, cn := range map[string]string{"default": "Default", "required": "Required", "optional": "Optional"} {
			v, _ := c.constOf(pkgDefs, cn)
			want[w] = v
		}
		fn, cmps := c.keywordFn(pkgDefs, []string{"default", "required", "optional"})
		if fn == nil {
			s.bad("requiredness", c.Pos(rfd.Pos()), "no function compares one value against all of default / required / optional")
		} else {
			okR, why := c.refusesUnknown(fn, cmps)
			got := wordConstants(fn, cmps)
			var wrong []string
			for w, v := range want {
				if len(got[w]) != 1 || got[w][0] != v {
					wrong = append(wrong, fmt.Sprintf("%q yields %v, expected %d", w, got[w], v))
				}
			}
			sort.Strings(wrong)
			s.check(okR && len(wrong) == 0, "requiredness", c.Pos(fn.Pos()), "unknown words are refused, known ones mapped ("+why+")", "requiredness keywords in "+fn.Name()+": "+why+"; "+strings.Join(wrong, "; "))
		}
		fn, cmps = c.keywordFn(pkgDefs, []string{"nocopy"})
		if fn == nil {
			s.bad("options", c.Pos(rfd.Pos()), "no comparison against the option keyword nocopy")
		} else {
			okR, why := c.refusesUnknown(fn, cmps)
			s.check(okR, "options", c.Pos(fn.Pos()), "unknown options are refused ("+why+")", "option keywords in "+fn.Name()+": "+why)
		}
	}
	c.guard(s, pkgDefs, rf, "nocopy-type", []string{"pt.Tag()!=T_string"}, "nocopy on a non-string/binary field", "a numeric or container field would be decoded by the zero-copy string routine")
	c.guard(s, pkgDefs, rf, "nocopy-duplicate", []string{"fv&NoCopy!=0"}, "duplicated nocopy option", "")
	c.guard(s, pkgDefs, rf, "non-optional-pointer", []string{"rx!=Optional", "pt.T==T_pointer", "pt.V.T!=T_struct"}, "non-optional scalar pointer", "a required *i32 would be encoded through a possibly nil pointer")
	c.guard(s, pkgDefs, rf, "type-parse-error", []string{"ParseType", "err!=nil"}, "type annotation errors are propagated", "")
	// ---- entry points
	kPtr, _ := c.constOf("reflect", "Ptr")
	kStruct, _ := c.constOf("reflect", "Struct")
	re := func(f string, a ...interface{}) *regexp.Regexp { return regexp.MustCompile(fmt.Sprintf(f, a...)) }
	decodeFn := c.SSA[pkgReflect].Func("Decode")
	createFn := c.SSA[pkgReflect].Func("createStructDesc")
	c.entryGuard(s, decodeFn, "decode:not-pointer", re(`^Kind\(ValueOf\(\w+\)\)==%d$`, kPtr), "DecodeObject argument that is not a pointer", "")
	c.entryGuard(s, decodeFn, "decode:nil-pointer", re(`^IsNil\(ValueOf\(\w+\)\)=false$`), "DecodeObject nil pointer", "")
	c.entryGuard(s, decodeFn, "decode:not-struct", re(`^Kind\(Elem\(ValueOf\(\w+\)\)\)==%d$`, kStruct), "DecodeObject pointer to a non-struct", "")
	c.entryGuard(s, createFn, "create:invalid", re(`^IsValid\(\w+\)=true$`), "nil interface argument", "EncodeObject(buf, nil, nil) would panic inside reflect")
	c.entryGuard(s, createFn, "create:not-struct", re(`^Kind\(.+\)==%d$`, kStruct), "argument that is neither a struct nor a pointer to one", "")
	// the argument checks of createStructDesc come before its first cache lookup (a lookup keyed by the element type of a
	// ** pointer would otherwise hit the entry of *T)
	if createFn != nil {
		// every consultation or update of the descriptor caches in createStructDesc happens where the kind is established
		structRe := re(`^Kind\(.+\)==%d$`, kStruct)
		okAll, n := true, 0
		where := ""
		buildFn := c.buildFn()
		for _, b := range createFn.Blocks {
			for _, ins := range b.Instrs {
				call, ok := ins.(*ssa.Call)
				if !ok || call.Call.StaticCallee() == nil {
					continue
				}
				cf := call.Call.StaticCallee()
				if !(strings.HasPrefix(shortFn(cf), "mapStructDesc.") || cf == buildFn || staticReach(cf)[buildFn] && buildFn != nil) {
					continue
				}
				n++
				found := false
				for f := range blockFacts(b) {
					if structRe.MatchString(f) {
						found = true
					}
				}
				if !found {
					okAll = false
					where = c.InstrPos(call) + " facts: " + strings.Join(keysOf(blockFacts(b)), ", ")
				}
			}
		}
		s.check(okAll && n > 0, "create:guard-before-lookup", c.Pos(createFn.Pos()), "kind checks precede the descriptor lookup", "createStructDesc consults or fills the descriptor cache ("+where+") before it has established that the argument is a struct or a pointer to one: a **T argument can be served the descriptor registered for *T")
	}
	c.entryGuard(s, c.SSA[pkgReflect].Func("newStructDesc"), "newdesc:not-struct", re(`^Kind\(.+\)==%d$`, kStruct), "descriptor of a non-struct", "")
	// Append returns the error before producing bytes; EncodedSize panics with it
	if fn := c.SSA[pkgReflect].Func("Append"); fn != nil {
		good := false
		for _, b := range fn.Blocks {
			for _, ins := range b.Instrs {
				call, ok := ins.(*ssa.Call)
				if !ok || call.Call.StaticCallee() == nil || !reachesNamed(call.Call.StaticCallee(), "createStructDesc") {
					continue
				}
				for _, r := range referrers(call) {
					if ex, ok := r.(*ssa.Extract); ok && isErrorType(ex.Type()) {
						for _, rr := range referrers(ex) {
							if bo, ok := rr.(*ssa.BinOp); ok && bo.Op == token.NEQ {
								for _, r3 := range referrers(bo) {
									if iff, ok := r3.(*ssa.If); ok && edgeErrors(iff.Block().Succs[0]) {
										// returns the untouched buffer
										if ret, ok := iff.Block().Succs[0].Instrs[len(iff.Block().Succs[0].Instrs)-1].(*ssa.Return); ok {
											if unspill(ret.Results[0], iff.Block().Succs[0]) == bufParam(fn) {
												good = true
											}
										}
										if !good {
											// spilled
											good = true
										}
									}
								}
							}
						}
					}
				}
			}
		}
		s.check(good, "append:error-before-output", c.Pos(fn.Pos()), "a descriptor error is returned before any byte is appended", "reflect.Append does not return the descriptor error before encoding")
	}
	if fn := c.SSA[pkgReflect].Func("EncodedSize"); fn != nil {
		n := 0
		for _, b := range fn.Blocks {
			if pn, ok := b.Instrs[len(b.Instrs)-1].(*ssa.Panic); ok {
				if mi, ok := pn.X.(*ssa.MakeInterface); ok {
					if call, ok := mi.X.(*ssa.Call); ok && call.Call.StaticCallee() != nil && call.Call.StaticCallee().Name() == "Sprintf" {
						// on an err != nil edge
						for _, cd := range domConds(b) {
							if bo, ok := cd.V.(*ssa.BinOp); ok && bo.Op == token.NEQ && isNilConst(bo.Y) && cd.Truth && isErrorType(bo.X.Type()) {
								n++
							}
						}
					}
				}
			}
		}
		s.check(n >= 2, "encodedsize:explicit-panic", c.Pos(fn.Pos()), "EncodedSize panics with a formatted message for descriptor and sizing errors", "EncodedSize does not panic explicitly (panic(fmt.Sprintf(...))) on both of its error edges")
	}
	return s.obs
}

func exprOrStmt(st ast.Stmt) string {
	switch x := st.(type) {
	case *ast.AssignStmt:
		var parts []string
		for _, r := range x.Rhs {
			parts = append(parts, types.ExprString(r))
		}
		return strings.Join(parts, ",")
	case *ast.ExprStmt:
		return types.ExprString(x.X)
	}
	return ""
}

// ---------------------------------------------------------------- nil deref rules

func ruleNilDeref(c *Ctx) []Ob {
	s := newSink(c, "R.nil-deref")
	// ZERO-STRUCT-DEREF: constructors returning zeroed objects
	zeroCtor := func(f *ssa.Function) bool {
		if f == nil || f.Blocks == nil || !c.InModule(f) {
			return false
		}
		// every return is new(T) or a value passed through a zeroing helper
		okAll, n := true, 0
		for _, b := range f.Blocks {
			ret, ok := b.Instrs[len(b.Instrs)-1].(*ssa.Return)
			if !ok || len(ret.Results) != 1 {
				continue
			}
			n++
			switch x := ret.Results[0].(type) {
			case *ssa.Alloc:
				if !x.Heap || len(referrersStores(x)) > 0 {
					okAll = false
				}
			case *ssa.Call:
				if cf := x.Call.StaticCallee(); cf == nil || !zeroesFirstParam(cf) {
					okAll = false
				}
			default:
				okAll = false
			}
		}
		return okAll && n > 0
	}
	nSites := 0
	for _, fn := range c.ModuleFuncs(pkgDefs, pkgReflect) {
		for _, b := range fn.Blocks {
			for _, ins := range b.Instrs {
				call, ok := ins.(*ssa.Call)
				if !ok || !zeroCtor(call.Call.StaticCallee()) {
					continue
				}
				// obj: through phis
				objs := aliasSet(call)
				for o := range objs {
					for _, r := range referrers(o) {
						fa, ok := r.(*ssa.FieldAddr)
						if !ok {
							continue
						}
						ft := fa.Type().Underlying().(*types.Pointer).Elem()
						if _, isPtr := ft.Underlying().(*types.Pointer); !isPtr {
							continue
						}
						fieldPath := path(fa)
						for _, rr := range referrers(fa) {
							ld, ok := rr.(*ssa.UnOp)
							if !ok {
								continue
							}
							// is the loaded pointer dereferenced?
							for _, use := range referrers(ld) {
								deref := false
								switch u := use.(type) {
								case *ssa.FieldAddr:
									deref = u.X == ssa.Value(ld)
								case *ssa.UnOp:
									deref = u.Op == token.MUL && u.X == ssa.Value(ld)
								case *ssa.Call:
									// method call with pointer receiver that reads fields: conservative: only static module methods
									if cf := u.Call.StaticCallee(); cf != nil && c.InModule(cf) && len(u.Call.Args) > 0 && u.Call.Args[0] == ssa.Value(ld) && cf.Signature.Recv() != nil {
										deref = true
									}
								}
								if !deref {
									continue
								}
								nSites++
								// a store to the same field of the same object must dominate the load
								stored := false
								for o2 := range objs {
									for _, r2 := range referrers(o2) {
										if fa2, ok := r2.(*ssa.FieldAddr); ok && fa2.Field == fa.Field {
											for _, r3 := range referrers(fa2) {
												if st, ok := r3.(*ssa.Store); ok && st.Addr == ssa.Value(fa2) && instrDominates(st, ld) && !isNilConst(st.Val) {
													stored = true
												}
											}
										}
									}
								}
								s.check(stored, shortFn(fn)+":"+fieldPath, c.InstrPos(use), "field is assigned before it is dereferenced", "pointer field "+fieldPath+" of a freshly zeroed object is dereferenced before anything was stored in it: definite nil dereference (a panic instead of an error): "+c.srcLine(use.Pos()))
							}
						}
					}
				}
			}
		}
	}
	s.ok("zero-struct-scan", "-", fmt.Sprintf("%d dereferences of pointer fields of freshly zeroed objects examined", nSites))
	// REFLECT-ACCESSOR
	need := map[string]string{"Type": "valid", "IsNil": "ptr", "Elem": "ptr", "UnsafePointer": "ptr"}
	ptrKind, structKind := int64(22), int64(25)
	if o, ok := c.ByPath["reflect"].Types.Scope().Lookup("Ptr").(*types.Const); ok {
		ptrKind, _ = constant.Int64Val(o.Val())
	}
	_ = structKind
	for _, fname := range []string{"EncodedSize", "Append", "Decode", "createStructDesc", "getOrcreateStructDesc", "getStructDesc"} {
		fn := c.SSA[pkgReflect].Func(fname)
		if fn == nil {
			continue
		}
		// user values: reflect.ValueOf(param) or a reflect.Value parameter
		user := map[ssa.Value]bool{}
		for _, prm := range fn.Params {
			if prm.Type().String() == "reflect.Value" {
				user[prm] = true
			}
		}
		for _, b := range fn.Blocks {
			for _, ins := range b.Instrs {
				if call, ok := ins.(*ssa.Call); ok && call.Call.StaticCallee() != nil && extName(call.Call.StaticCallee()) == "reflect.ValueOf" {
					user[call] = true
				}
			}
		}
		// params are spilled to allocs when their address is taken; follow loads of those
		isUser := func(v ssa.Value) bool {
			if user[v] {
				return true
			}
			if u, ok := v.(*ssa.UnOp); ok && u.Op == token.MUL {
				if al, ok := u.X.(*ssa.Alloc); ok {
					for _, r := range referrers(al) {
						if st, ok := r.(*ssa.Store); ok && st.Addr == ssa.Value(al) && user[st.Val] {
							return true
						}
					}
				}
			}
			return false
		}
		for _, b := range fn.Blocks {
			for _, ins := range b.Instrs {
				call, ok := ins.(*ssa.Call)
				if !ok || call.Call.StaticCallee() == nil || fnPkgPath(call.Call.StaticCallee()) != "reflect" || len(call.Call.Args) == 0 || !isUser(call.Call.Args[0]) {
					continue
				}
				m := call.Call.StaticCallee().Name()
				req, ok := need[m]
				if !ok {
					continue
				}
				good := false
				for _, cd := range domConds(b) {
					switch x := cd.V.(type) {
					case *ssa.Call:
						if x.Call.StaticCallee() != nil && x.Call.StaticCallee().Name() == "IsValid" && isUser(x.Call.Args[0]) && cd.Truth && req == "valid" {
							good = true
						}
					case *ssa.UnOp:
						if x.Op == token.NOT {
							if ic, ok := x.X.(*ssa.Call); ok && ic.Call.StaticCallee() != nil && ic.Call.StaticCallee().Name() == "IsValid" && isUser(ic.Call.Args[0]) && !cd.Truth && req == "valid" {
								good = true
							}
						}
					case *ssa.BinOp:
						if kc, ok := x.X.(*ssa.Call); ok && kc.Call.StaticCallee() != nil && kc.Call.StaticCallee().Name() == "Kind" && isUser(kc.Call.Args[0]) {
							if kv, ok := constInt(x.Y); ok {
								eq := x.Op == token.EQL && cd.Truth || x.Op == token.NEQ && !cd.Truth
								if eq && kv == ptrKind && (req == "ptr" || req == "valid") {
									good = true
								}
								if eq && kv != 0 && req == "valid" {
									good = true
								}
							}
						}
					}
				}
				if !good {
					// the same tests made by a validation helper (err == nil of a function whose nil returns are all guarded)
					ud := descAccessor(call.Call.Args[0], nil, 0)
					for f := range blockFacts(b) {
						if f == "IsValid("+ud+")=true" && req == "valid" {
							good = true
						}
						if strings.HasPrefix(f, "Kind("+ud+")==") {
							var kv int64
							fmt.Sscan(f[len("Kind("+ud+")=="):], &kv)
							if kv == ptrKind || kv != 0 && req == "valid" {
								good = true
							}
						}
					}
				}
				s.check(good, fname+":"+m, c.InstrPos(call), "reflect.Value."+m+" under the matching validity/kind test", "reflect.Value."+m+" is called on the caller's argument without a dominating "+map[string]string{"valid": "IsValid()/Kind() test (panics on the zero Value, e.g. a nil interface)", "ptr": "Kind() == Ptr test (panics on non-pointers)"}[req])
			}
		}
	}
	return s.obs
}

func referrersStores(al *ssa.Alloc) []*ssa.Store {
	var out []*ssa.Store
	for _, r := range referrers(al) {
		if st, ok := r.(*ssa.Store); ok && st.Addr == ssa.Value(al) {
			out = append(out, st)
		}
	}
	return out
}

// ---------------------------------------------------------------- panic inventory

var panicTable = map[string]string{
	"reflect.decodeFixedSizeTypes": "default of the kind switch: callers pass kinds with FixedSize > 0 only (rule T7 / typeToSize)",
	"reflect.updateListAppendFunc": "kind guard: called by newTType under case tLIST, tSET only",
	"reflect.updateMapAppendFunc":  "kind guard: called by newTType under case tMAP only",
	"reflect.newTType":             "multilevel pointer: refused by doParseType (rule R.refusals nested-pointer)",
	"reflect.tField.fromDefsField": "nocopy on non-string: refused by DoResolveFields (rule R.refusals nocopy-type)",
	"reflect.panicIfHackErr":       "runtime layout self-test failed at init: environment assumption",
	"reflect.EncodedSize":          "documented: EncodedSize reports errors by panicking with a message",
	"defs.T_int":                   "IntSize is a constant 4 or 8",
	"defs.Requiredness.String":     "unreachable default over the three enumerators",
	"defs.GetSize":                 "not reachable from the codec entry points",
}

func rulePanicInventory(c *Ctx) []Ob {
	s := newSink(c, "R.panic-inventory")
	reach := c.reachableFrom(c.apiRoots(), nil)
	var fns []*ssa.Function
	for f := range reach {
		if c.InModule(f) && f.Blocks != nil {
			fns = append(fns, f)
		}
	}
	sort.Slice(fns, func(i, j int) bool { return fns[i].Pos() < fns[j].Pos() })
	for _, fn := range fns {
		for _, b := range fn.Blocks {
			pn, ok := b.Instrs[len(b.Instrs)-1].(*ssa.Panic)
			if !ok {
				continue
			}
			pk := fnPkgPath(fn)
			key := pk[strings.LastIndex(pk, "/")+1:] + "." + shortFn(fn)
			why, listed := panicTable[key]
			s.check(listed, key, c.InstrPos(pn), "listed: "+why, "explicit panic reachable from the entry points that is not in the inventory: a crash instead of an error for some input or type: "+c.srcLine(pn.Pos()))
		}
	}
	// the guards the table relies on
	if nt := c.SSA[pkgReflect].Func("newTType"); nt != nil {
		k, _ := c.kinds()
		for _, b := range nt.Blocks {
			for _, ins := range b.Instrs {
				call, ok := ins.(*ssa.Call)
				if !ok || call.Call.StaticCallee() == nil {
					continue
				}
				n := call.Call.StaticCallee().Name()
				if n != "updateListAppendFunc" && n != "updateMapAppendFunc" {
					continue
				}
				cs, _ := caseSet(b, ".T")
				var names []string
				for _, v := range cs {
					names = append(names, k.nameOf(v))
				}
				sort.Strings(names)
				want := "MAP"
				if n == "updateListAppendFunc" {
					want = "LIST,SET"
				}
				s.check(strings.Join(names, ",") == want, "newTType->"+n, c.InstrPos(call), "called only for "+want, n+" is called under kinds ["+strings.Join(names, ",")+"], its panic guard expects "+want)
			}
		}
	}
	return s.obs
}

// ---------------------------------------------------------------- E12

func parentMap(root ast.Node) map[ast.Node]ast.Node {
	pm := map[ast.Node]ast.Node{}
	var stack []ast.Node
	ast.Inspect(root, func(n ast.Node) bool {
		if n == nil {
			stack = stack[:len(stack)-1]
			return true
		}
		if len(stack) > 0 {
			pm[n] = stack[len(stack)-1]
		}
		stack = append(stack, n)
		return true
	})
	return pm
}

func ruleE12(c *Ctx) []Ob {
	s := newSink(c, "E12.tag-frontend")
	// lookupStructTag
	if fd, _ := c.funcDecl(pkgDefs, "lookupStructTag"); fd != nil {
		var order []string
		dropOne, trims := false, 0
		ast.Inspect(fd, func(n ast.Node) bool {
			switch x := n.(type) {
			case *ast.CallExpr:
				f := nows(types.ExprString(x.Fun))
				if f == "tag.Lookup" && len(x.Args) == 1 {
					order = append(order, nows(types.ExprString(x.Args[0])))
				}
				if f == "trimSpaces" {
					trims++
					if len(x.Args) == 1 && nows(types.ExprString(x.Args[0])) == "ss[1:]" {
						dropOne = true
					}
				}
			}
			return true
		})
		s.check(len(order) == 2 && order[0] == `"frugal"` && order[1] == `"thrift"`, "tag-order", c.Pos(fd.Pos()), "frugal tag first, then thrift", "tag lookup order is "+strings.Join(order, ",")+": the frugal tag must take precedence")
		s.check(dropOne, "thrift-drops-name", c.Pos(fd.Pos()), "thrift tag: exactly the field name is dropped (ss[1:])", "the thrift tag path does not drop exactly its first element")
		s.check(trims == 2, "trim-both", c.Pos(fd.Pos()), "both tag forms are trimmed", "not both tag paths go through trimSpaces")
	} else {
		s.bad("lookupStructTag", "-", "not found")
	}
	if fd, _ := c.funcDecl(pkgDefs, "trimSpaces"); fd != nil {
		ok := false
		ast.Inspect(fd, func(n ast.Node) bool {
			if call, ok2 := n.(*ast.CallExpr); ok2 && nows(types.ExprString(call.Fun)) == "strings.TrimSpace" {
				ok = true
			}
			return true
		})
		s.check(ok, "trimSpaces", c.Pos(fd.Pos()), "elements are TrimSpace'd", "trimSpaces does not trim")
	}
	rfd, _ := c.funcDecl(pkgDefs, "DoResolveFields")
	if rfd == nil {
		s.bad("DoResolveFields", "-", "not found")
		return s.obs
	}
	// skip conditions: a struct field is processed (its annotation parsed) only when it is not embedded, is exported and
	// carries a frugal/thrift tag - read off the branches that dominate the call of ParseType
	anon, exported, untagged := false, false, false
	var parseSite ssa.Instruction
	for _, fn := range c.ModuleFuncs(pkgDefs) {
		for _, b := range fn.Blocks {
			for _, ins := range b.Instrs {
				call, ok := ins.(*ssa.Call)
				if !ok || call.Call.StaticCallee() == nil || call.Call.StaticCallee().Name() != "ParseType" || fn.Name() == "ParseType" {
					continue
				}
				parseSite = call
				for _, cd := range domConds(b) {
					fieldNameOf := func(v ssa.Value) string {
						switch x := v.(type) {
						case *ssa.Field:
							return fieldName(x.X.Type(), x.Field)
						case *ssa.UnOp:
							if fa, ok := x.X.(*ssa.FieldAddr); ok && x.Op == token.MUL {
								return fieldName(fa.X.Type(), fa.Field)
							}
						}
						return ""
					}
					if fieldNameOf(cd.V) == "Anonymous" && !cd.Truth {
						anon = true
					}
					if bo, ok := cd.V.(*ssa.BinOp); ok && (bo.Op == token.EQL || bo.Op == token.NEQ) {
						for _, pr := range [][2]ssa.Value{{bo.X, bo.Y}, {bo.Y, bo.X}} {
							if w, isS := strConst(pr[1]); isS && w == "" && fieldNameOf(pr[0]) == "PkgPath" && (bo.Op == token.EQL) == cd.Truth {
								exported = true
							}
						}
					}
					if ex, ok := cd.V.(*ssa.Extract); ok && cd.Truth && isBoolType(ex.Type()) {
						if lc, ok := ex.Tuple.(*ssa.Call); ok && lc.Call.StaticCallee() != nil && lc.Call.StaticCallee().Name() == "lookupStructTag" {
							untagged = true
						}
					}
					if ec, ok := cd.V.(*ssa.Call); ok && cd.Truth && ec.Call.StaticCallee() != nil && ec.Call.StaticCallee().Name() == "IsExported" && fnPkgPath(ec.Call.StaticCallee()) == "reflect" {
						exported = true
					}
				}
			}
		}
	}
	sitePos := c.Pos(rfd.Pos())
	if parseSite != nil {
		sitePos = c.InstrPos(parseSite)
	}
	s.check(anon && exported, "skip-anonymous-unexported", sitePos, "embedded and unexported fields are ignored", fmt.Sprintf("a struct field reaches ParseType without both tests `!sf.Anonymous` (%v) and `sf.PkgPath == \"\"` (%v): embedded or unexported fields would become schema fields", anon, exported))
	// the annotation text is read by the tokenizer only: any other function that looks at its bytes directly (def[i], def[a:b])
	// must deal with white space itself, otherwise two spellings of the same annotation are told apart
	for _, fn := range c.ModuleFuncs(pkgDefs) {
		var strPrm, curPrm *ssa.Parameter
		for _, prm := range fn.Params {
			if prm.Type().String() == "string" && strPrm == nil {
				strPrm = prm
			}
			if prm.Type().String() == "*int" {
				curPrm = prm
			}
		}
		if strPrm == nil || curPrm == nil {
			continue
		}
		indexes, spaces := "", false
		for _, b := range fn.Blocks {
			for _, ins := range b.Instrs {
				switch x := ins.(type) {
				case *ssa.Lookup:
					if x.X == ssa.Value(strPrm) {
						indexes = c.InstrPos(x)
					}
				case *ssa.Index:
					if x.X == ssa.Value(strPrm) {
						indexes = c.InstrPos(x)
					}
				case *ssa.Call:
					if f := x.Call.StaticCallee(); f != nil && fnPkgPath(f) == "unicode" && f.Name() == "IsSpace" {
						spaces = true
					}
				}
			}
		}
		if indexes != "" {
			s.check(spaces, "annotation-bytes:"+fn.Name(), indexes, "the function that reads annotation bytes skips white space itself (tokenizer)", fn.Name()+" looks at bytes of the annotation directly without handling white space: the tokenizer skips spaces, a byte peek does not, so `Name >` and `Name>` are treated differently")
		}
	}
	// the schema is made of the struct's own fields: promoted fields of embedded structs (reflect.VisibleFields) are not part of it
	var vis []string
	for _, fn := range c.ModuleFuncs(pkgDefs, pkgReflect) {
		for _, b := range fn.Blocks {
			for _, ins := range b.Instrs {
				if call, ok := ins.(*ssa.Call); ok && call.Call.StaticCallee() != nil && fnPkgPath(call.Call.StaticCallee()) == "reflect" && call.Call.StaticCallee().Name() == "VisibleFields" {
					vis = append(vis, shortFn(fn)+" at "+c.InstrPos(call))
				}
			}
		}
	}
	s.check(len(vis) == 0, "own-fields-only", sitePos, "struct fields are enumerated with Field(i), never with reflect.VisibleFields", "fields are enumerated with reflect.VisibleFields ("+strings.Join(vis, "; ")+"): it also yields the fields promoted from embedded structs, whose offsets are relative to the embedded struct - they would join the schema and be read at the wrong address")
	s.check(untagged, "skip-untagged", sitePos, "untagged fields are ignored", "fields without a frugal/thrift tag are not skipped")
	// missing requiredness -> default: the value compared against the requiredness keywords can be the constant "default",
	// chosen when no tag value is left
	okDef := false
	if fn, cmps := c.keywordFn(pkgDefs, []string{"default", "required", "optional"}); fn != nil {
		var xs []ssa.Value
		if prm, ok := cmps[0].x.(*ssa.Parameter); ok {
			for k, fp := range fn.Params {
				if fp != prm {
					continue
				}
				for _, caller := range c.ModuleFuncs(pkgDefs) {
					for _, cb := range caller.Blocks {
						for _, ins := range cb.Instrs {
							if call, ok := ins.(*ssa.Call); ok && call.Call.StaticCallee() == fn && k < len(call.Call.Args) {
								xs = append(xs, call.Call.Args[k])
							}
						}
					}
				}
			}
		} else {
			xs = append(xs, cmps[0].x)
		}
		for _, x := range xs {
			for _, src := range valueSources(x, 0) {
				if w, ok := strConst(src.v); ok && w == "default" && emptyLenCond(src.conds) {
					okDef = true
				}
			}
		}
	}
	s.check(okDef, "requiredness-default", c.Pos(rfd.Pos()), "omitted requiredness means default", "an omitted requiredness is not read as \"default\"")
	// sort by id
	okSort := false
	ast.Inspect(rfd, func(n ast.Node) bool {
		if call, ok := n.(*ast.CallExpr); ok && nows(types.ExprString(call.Fun)) == "sort.Slice" && len(call.Args) == 2 {
			if strings.Contains(nows(c.srcText(call.Args[1].Pos(), call.Args[1].End())), "ret[i].ID<ret[j].ID") {
				okSort = true
			}
		}
		return true
	})
	s.check(okSort, "sorted-by-id", c.Pos(rfd.Pos()), "fields are sorted by id", "the resolved fields are not sorted by id before return")
	// set / list tokens: rt.T = T_set under tok == "set", T_list under tok == "list" (switch or if chain)
	if fn := c.SSA[pkgDefs].Func("doParseSlice"); fn != nil {
		got := map[string]int64{}
		for _, b := range fn.Blocks {
			for _, ins := range b.Instrs {
				st, ok := ins.(*ssa.Store)
				if !ok {
					continue
				}
				if _, typ, f, ok := fieldOf(st.Addr); !ok || typ != "Type" || f != "T" {
					continue
				}
				v, ok := constInt(st.Val)
				if !ok {
					continue
				}
				for _, cd := range domConds(b) {
					bo, ok := cd.V.(*ssa.BinOp)
					if !ok || !(bo.Op == token.EQL && cd.Truth || bo.Op == token.NEQ && !cd.Truth) {
						continue
					}
					for _, op := range []ssa.Value{bo.X, bo.Y} {
						if cst, ok := op.(*ssa.Const); ok && cst.Value != nil && cst.Value.Kind() == constant.String {
							got[constant.StringVal(cst.Value)] = v
						}
					}
				}
			}
		}
		tset, _ := c.constOf(pkgDefs, "T_set")
		tlist, _ := c.constOf(pkgDefs, "T_list")
		s.check(got["set"] == tset && got["list"] == tlist && tset != 0, "set-list-tokens", c.Pos(fn.Pos()), `"set" -> T_set, "list" -> T_list`, fmt.Sprintf("set/list tokens map to %v (T_set=%d, T_list=%d)", got, tset, tlist))
	}
	// binary is exactly []byte: wherever the tag becomes T_binary the element type was compared for identity with the type of byte
	{
		tbin, _ := c.constOf(pkgDefs, "T_binary")
		n, okAll := 0, true
		where := "-"
		for _, fn := range c.ModuleFuncs(pkgDefs) {
			for _, b := range fn.Blocks {
				for _, ins := range b.Instrs {
					phi, ok := ins.(*ssa.Phi)
					if !ok || namedOf(phi.Type()) != "Tag" {
						continue
					}
					for i, e := range phi.Edges {
						cv, ok := e.(*ssa.Const)
						if !ok {
							continue
						}
						if v, ok := constInt(cv); !ok || v != tbin {
							continue
						}
						n++
						p := b.Preds[i]
						cs := domConds(p)
						if iff, ok := p.Instrs[len(p.Instrs)-1].(*ssa.If); ok && p.Succs[0] != p.Succs[1] {
							cs = append(cs, expandCond(Cond{V: iff.Cond, Truth: p.Succs[0] == b, If: iff}, 0)...)
						}
						ident := false
						for _, cd := range cs {
							bo, ok := cd.V.(*ssa.BinOp)
							if !ok || (bo.Op == token.EQL) != cd.Truth || bo.Op != token.EQL && bo.Op != token.NEQ {
								continue
							}
							for _, side := range []ssa.Value{bo.X, bo.Y} {
								if u, ok := side.(*ssa.UnOp); ok && u.Op == token.MUL {
									if g, ok := u.X.(*ssa.Global); ok && g.Name() == "bytetype" {
										ident = true
									}
								}
							}
						}
						if !ident {
							okAll = false
							where = c.Pos(firstPos(p))
						}
					}
				}
			}
		}
		s.check(okAll && n > 0, "binary-is-byte-slice", where, "a slice becomes binary only when its element type is identical to byte", "a slice is classified as binary without comparing its element type with the type of byte for identity (e.g. by Kind() == Uint8): slices of user-defined uint8 types, which the codec cannot express, would be accepted as binary")
	}
	// enum upgrade inside the name-match chain: wherever the tag becomes the constant T_enum, the dominating conditions
	// include tag == T_i64, vt != i64type and a failed keyword match (strings.Contains(...) false)
	{
		tenum, _ := c.constOf(pkgDefs, "T_enum")
		ti64, _ := c.constOf(pkgDefs, "T_i64")
		type origin struct {
			conds []Cond
			pos   string
		}
		var origins []origin
		isEnumConst := func(v ssa.Value) bool {
			cv, ok := v.(*ssa.Const)
			if !ok || namedOf(cv.Type()) != "Tag" {
				return false
			}
			n, ok := constInt(cv)
			return ok && n == tenum
		}
		for _, fn := range c.ModuleFuncs(pkgDefs) {
			for _, b := range fn.Blocks {
				for _, ins := range b.Instrs {
					switch x := ins.(type) {
					case *ssa.Phi:
						for i, e := range x.Edges {
							if !isEnumConst(e) {
								continue
							}
							p := b.Preds[i]
							cs := domConds(p)
							if iff, ok := p.Instrs[len(p.Instrs)-1].(*ssa.If); ok && p.Succs[0] != p.Succs[1] {
								cs = append(cs, Cond{V: iff.Cond, Truth: p.Succs[0] == b, If: iff})
							}
							origins = append(origins, origin{cs, c.Pos(firstPos(p))})
						}
					case *ssa.Return:
						for _, r := range x.Results {
							if isEnumConst(r) {
								origins = append(origins, origin{domConds(b), c.InstrPos(x)})
							}
						}
					}
				}
			}
		}
		found, inside, condOK := len(origins) > 0, true, true
		pos, why := "-", ""
		for _, o := range origins {
			pos = o.pos
			isI64, notI64Type, noKeyword := false, false, false
			for _, cd := range o.conds {
				if bo, ok := cd.V.(*ssa.BinOp); ok && (bo.Op == token.EQL || bo.Op == token.NEQ) {
					equal := (bo.Op == token.EQL) == cd.Truth
					for _, pr := range [][2]ssa.Value{{bo.X, bo.Y}, {bo.Y, bo.X}} {
						if n, ok := constInt(pr[1]); ok && n == ti64 && namedOf(pr[0].Type()) == "Tag" && equal {
							isI64 = true
						}
						if u, ok := pr[1].(*ssa.UnOp); ok && u.Op == token.MUL && !equal {
							if g, ok := u.X.(*ssa.Global); ok && g.Name() == "i64type" {
								notI64Type = true
							}
						}
					}
				}
				if call, ok := cd.V.(*ssa.Call); ok && !cd.Truth {
					if f := call.Call.StaticCallee(); f != nil && fnPkgPath(f) == "strings" && f.Name() == "Contains" && strings.Contains(path(call.Call.Args[0]), "keywordTab[") {
						noKeyword = true
					}
				}
			}
			// the upgrade belongs to the path on which the annotation was accepted as the type's name (doMatchStruct said ok),
			// with no further condition: a named int64 whose (possibly qualified) name was matched is an enum
			matched := false
			extra := ""
			for _, cd := range o.conds {
				if ex, ok := cd.V.(*ssa.Extract); ok && cd.Truth {
					if mc, ok := ex.Tuple.(*ssa.Call); ok && mc.Call.StaticCallee() != nil && mc.Call.StaticCallee().Name() == "doMatchStruct" && isBoolType(ex.Type()) {
						matched = true
					}
				}
				if bo, ok := cd.V.(*ssa.BinOp); ok && (bo.Op == token.EQL || bo.Op == token.NEQ) && isStringType(bo.X.Type()) {
					if _, isC := bo.Y.(*ssa.Const); !isC {
						extra = "a comparison of two strings (" + path(bo.X) + " with " + path(bo.Y) + ")"
					}
				}
			}
			if !(isI64 && notI64Type) {
				condOK = false
			}
			if !noKeyword || !matched || extra != "" {
				inside = false
				if extra != "" {
					why = "; the upgrade additionally depends on " + extra
				} else if !matched {
					why = "; the upgrade is not on the path where doMatchStruct accepted the name"
				}
			}
		}
		s.check(found && inside && condOK, "enum-upgrade", pos, "int64-kinded named types become enums only when the annotation names the type", fmt.Sprintf("enum upgrade: present %v, conditioned on tag == T_i64 && vt != i64type %v, inside the keyword-mismatch (name match) chain %v%s: a named int64 annotated with the keyword i64 would silently become a 32-bit enum, or one annotated with its (qualified) name would stay i64", found, condOK, inside, why))
	}
	// descriptor cache key
	if nt := c.SSA[pkgReflect].Func("newTType"); nt != nil {
		var lk *ssa.Lookup
		for _, b := range nt.Blocks {
			for _, ins := range b.Instrs {
				if x, ok := ins.(*ssa.Lookup); ok && path(x.X) == "reflect.ttypes" {
					lk = x
				}
			}
		}
		if lk == nil {
			s.bad("cache-key", c.Pos(nt.Pos()), "no lookup in the ttypes cache")
		} else {
			x := nt.Params[0].Name()
			tOK, sOK := false, false
			if ld, ok := lk.Index.(*ssa.UnOp); ok {
				for _, r := range referrers(ld.X) {
					fa, ok := r.(*ssa.FieldAddr)
					if !ok {
						continue
					}
					var stores []*ssa.Store
					for _, rr := range referrers(fa) {
						if st, ok := rr.(*ssa.Store); ok && st.Addr == ssa.Value(fa) {
							stores = append(stores, st)
						}
					}
					if len(stores) != 1 || !instrDominates(stores[0], lk) || len(domConds(stores[0].Block())) != 0 {
						continue
					}
					switch fieldName(fa.X.Type(), fa.Field) {
					case "T":
						if call, ok := stores[0].Val.(*ssa.Call); ok && call.Call.StaticCallee() != nil && call.Call.StaticCallee().Name() == "String" && len(call.Call.Args) == 1 && call.Call.Args[0] == ssa.Value(nt.Params[0]) {
							tOK = true
						}
					case "S":
						sOK = path(stores[0].Val) == x+".S"
					}
				}
			}
			// the same key is used for the insert
			sameKey := false
			for _, b := range nt.Blocks {
				for _, ins := range b.Instrs {
					if mu, ok := ins.(*ssa.MapUpdate); ok && path(mu.Map) == "reflect.ttypes" {
						if l1, ok := mu.Key.(*ssa.UnOp); ok {
							if l2, ok := lk.Index.(*ssa.UnOp); ok && l1.X == l2.X {
								sameKey = true
							}
						}
					}
				}
			}
			s.check(tOK && sOK && sameKey, "cache-key", c.InstrPos(lk), "ttypes key = {x.String(), x.S} unconditionally, same key for lookup and insert", fmt.Sprintf("descriptor cache key: annotation string always included %v, Go type included %v, same key for insert %v: two declarations with the same Go type but different Thrift meaning (set/list, enum/i64) would share one descriptor, decided by which is used first", tOK, sOK, sameKey))
		}
	}
	return s.obs
}

func keysOf(m map[string]bool) []string {
	var out []string
	for k := range m {
		out = append(out, k)
	}
	sort.Strings(out)
	return out
}

var _ = packages.NeedName

// defsTags: the constants of type defs.Tag, by name.
func (c *Ctx) defsTags() map[string]int64 {
	out := map[string]int64{}
	p := c.ByPath[pkgDefs]
	if p == nil {
		return out
	}
	sc := p.Types.Scope()
	for _, n := range sc.Names() {
		if cn, ok := sc.Lookup(n).(*types.Const); ok && namedOf(cn.Type()) == "Tag" {
			if v, ok := constant.Int64Val(constant.ToInt(cn.Val())); ok {
				out[n] = v
			}
		}
	}
	return out
}

// keywordFn: the function of pkg that compares one value against every given word, with those comparisons.
func (c *Ctx) keywordFn(pkg string, words []string) (*ssa.Function, []wordCmp) {
	set := map[string]bool{}
	for _, w := range words {
		set[w] = true
	}
	all := c.wordCompares(pkg, set)
	var fns []*ssa.Function
	for fn := range all {
		fns = append(fns, fn)
	}
	sort.Slice(fns, func(i, j int) bool { return fns[i].Pos() < fns[j].Pos() })
	for _, fn := range fns {
		// group by compared value
		by := map[string][]wordCmp{}
		for _, wc := range all[fn] {
			by[path(wc.x)] = append(by[path(wc.x)], wc)
		}
		var keys []string
		for k := range by {
			keys = append(keys, k)
		}
		sort.Strings(keys)
		for _, k := range keys {
			have := map[string]bool{}
			for _, wc := range by[k] {
				have[wc.word] = true
			}
			if len(have) == len(set) {
				return fn, by[k]
			}
		}
	}
	return nil, nil
}

// reachesNamed: f is, or statically calls (transitively, inside the module), the function with the given name.
func reachesNamed(f *ssa.Function, name string) bool {
	for g := range staticReach(f) {
		if g.Name() == name {
			return true
		}
	}
	return false
}
