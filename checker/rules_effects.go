package main

import (
	"bytes"
	"fmt"
	"go/token"
	"go/types"
	"os"
	"os/exec"
	"path/filepath"
	"regexp"
	"sort"
	"strconv"
	"strings"

	"golang.org/x/tools/go/callgraph"
	"golang.org/x/tools/go/ssa"
)

func init() {
	register(&Rule{ID: "E10.cap-limit", Min: 3,
		Text: "EncodeObject hands the writer buf[:0:len(buf)] (capacity limited to the caller's length, so an overflowing append moves to a new array instead of writing past len(buf)), compares len(result) with len(buf) and returns a non-nil error on the overflow edge, and otherwise returns len(result)",
		Run:  ruleCapLimit})
	register(&Rule{ID: "E10.write-effect", Min: 20,
		Text: "in the encode/size closure (functions reachable from reflect.EncodedSize/Append outside the first-use, by-value and error-only edges) every store is rooted at a local allocation; no store, copy destination, append base or mutating reflect call is rooted at user memory (unsafe.Pointer parameters and what is loaded through them) or at a global; the output buffer is modified only by append on the output chain; no clock/random/environment source is called (determinism)",
		Run:  ruleWriteEffect})
	register(&Rule{ID: "E10.no-heap", Min: 20,
		Text: "the encode/size closure has no heap site on its success paths: (1) none of the compiler's `escapes to heap` / `moved to heap` verdicts (go build -gcflags=-m) lies in a closure function outside error-only, first-use (sd == nil) and by-value (Kind() == Struct) blocks; (2) no allocating SSA construct there (make, map/chan/closure creation, string concatenation/conversion, map update, go, defer in a loop, append whose base is not the output chain); (3) every call leaving the module is on the allowlist of allocation-free standard-library callees",
		Run:  ruleNoHeap})
}

func ruleCapLimit(c *Ctx) []Ob {
	s := newSink(c, "E10.cap-limit")
	fn := c.SSA[pkgRoot].Func("EncodeObject")
	app := c.SSA[pkgReflect].Func("Append")
	if fn == nil || app == nil {
		s.bad("roles", "-", "EncodeObject / reflect.Append not found")
		return s.obs
	}
	buf := bufParam(fn)
	var call *ssa.Call
	for _, b := range fn.Blocks {
		for _, ins := range b.Instrs {
			if x, ok := ins.(*ssa.Call); ok && x.Call.StaticCallee() == app {
				call = x
			}
		}
	}
	if call == nil || buf == nil {
		s.bad("append-call", c.Pos(fn.Pos()), "EncodeObject does not call reflect.Append with its buffer")
		return s.obs
	}
	// argument: buf[:0:len(buf)]
	good, why := false, "the writer is not given a slice of the caller's buffer"
	if sl, ok := call.Call.Args[0].(*ssa.Slice); ok && sl.X == buf {
		hi, okH := int64(-1), false
		if sl.High != nil {
			hi, okH = constInt(sl.High)
		}
		switch {
		case !okH || hi != 0 || sl.Low != nil && !isZero(sl.Low):
			why = "the writer is not started at buf[:0]"
		case sl.Max == nil:
			why = "the writer gets buf[:0], which keeps the spare capacity of the caller's backing array: with a buffer shorter than the encoding, append writes past len(buf) before the overflow is noticed"
		default:
			if mc, ok := sl.Max.(*ssa.Call); ok && isBuiltin(mc, "len") && mc.Call.Args[0] == buf {
				good = true
			} else {
				why = "capacity is limited to " + path(sl.Max) + " instead of len(buf)"
			}
		}
	}
	s.check(good, "slice-arg", c.InstrPos(call), "writer gets buf[:0:len(buf)]", why)
	// overflow test
	var ret0 ssa.Value
	for _, r := range referrers(call) {
		if ex, ok := r.(*ssa.Extract); ok && ex.Index == 0 {
			ret0 = ex
		}
	}
	okTest := false
	descLen := func(v ssa.Value) string {
		v = stripConv(v)
		if call, ok := v.(*ssa.Call); ok && isBuiltin(call, "len") {
			switch call.Call.Args[0] {
			case buf:
				return "len(buf)"
			case ret0:
				return "len(ret)"
			}
		}
		return path(v)
	}
	for _, b := range fn.Blocks {
		iff, ok := b.Instrs[len(b.Instrs)-1].(*ssa.If)
		if !ok {
			continue
		}
		for k := 0; k < 2; k++ {
			l, op, r, ok := relOf(iff.Cond, k == 0, descLen)
			if !ok || !(l == "len(buf)" && op == "<" && r == "len(ret)") {
				continue
			}
			// this edge says the result does not fit
			okTest = edgeErrors(b.Succs[k])
			if okTest {
				okRet := false
				for cur := b.Succs[1-k]; cur != nil; {
					if rt, ok := cur.Instrs[len(cur.Instrs)-1].(*ssa.Return); ok {
						if descLen(rt.Results[0]) == "len(ret)" {
							okRet = true
						}
						break
					}
					if _, ok := cur.Instrs[len(cur.Instrs)-1].(*ssa.Jump); ok {
						cur = cur.Succs[0]
					} else {
						break
					}
				}
				s.check(okRet, "success-return", c.InstrPos(iff), "returns len(result) when it fits", "the fitting edge does not return len(result)")
			}
		}
	}
	s.check(okTest, "overflow-test", c.Pos(fn.Pos()), "len(result) > len(buf) returns an error", "EncodeObject does not turn len(result) > len(buf) into an error (a comparison with cap(buf) or none at all returns a truncated message as success)")
	return s.obs
}

func isZero(v ssa.Value) bool { z, ok := constInt(v); return ok && z == 0 }

// ---------------------------------------------------------------- closure with exemptions

type encClosure struct {
	fns    map[*ssa.Function]bool
	exempt map[*ssa.BasicBlock]string // block -> reason
}

// errOnlyBlocks: blocks from which every path ends in a panic or a return with a definitely non-nil error.
func errOnlyBlocks(fn *ssa.Function) map[*ssa.BasicBlock]bool {
	eo := map[*ssa.BasicBlock]bool{}
	for changed := true; changed; {
		changed = false
		for _, b := range fn.Blocks {
			if eo[b] || len(b.Instrs) == 0 {
				continue
			}
			ok := false
			switch x := b.Instrs[len(b.Instrs)-1].(type) {
			case *ssa.Panic:
				ok = true
			case *ssa.Return:
				if n := len(x.Results); n > 0 && isErrorType(x.Results[n-1].Type()) {
					ok = definitelyNonNilErr(unspill(x.Results[n-1], b), b)
				}
			default:
				if len(b.Succs) > 0 {
					ok = true
					for _, sc := range b.Succs {
						if !eo[sc] {
							ok = false
						}
					}
				}
			}
			if ok {
				eo[b] = true
				changed = true
			}
		}
	}
	return eo
}

func (c *Ctx) encodeClosure() *encClosure {
	if c.encCl != nil {
		return c.encCl
	}
	ec := &encClosure{fns: map[*ssa.Function]bool{}, exempt: map[*ssa.BasicBlock]string{}}
	structKind := int64(25)
	if p := c.ByPath["reflect"]; p != nil {
		if k, ok := p.Types.Scope().Lookup("Struct").(*types.Const); ok {
			structKind, _ = strconv.ParseInt(k.Val().ExactString(), 10, 64)
		}
	}
	exemptOf := func(fn *ssa.Function) {
		eo := errOnlyBlocks(fn)
		for _, b := range fn.Blocks {
			if eo[b] {
				ec.exempt[b] = "error-only"
				continue
			}
			for _, cd := range domConds(b) {
				bo, ok := cd.V.(*ssa.BinOp)
				if !ok {
					continue
				}
				isEq := bo.Op == token.EQL && cd.Truth || bo.Op == token.NEQ && !cd.Truth
				if !isEq {
					continue
				}
				for _, pr := range [][2]ssa.Value{{bo.X, bo.Y}, {bo.Y, bo.X}} {
					x, y := pr[0], pr[1]
					call, ok := x.(*ssa.Call)
					if !ok || call.Call.StaticCallee() == nil {
						continue
					}
					cf := call.Call.StaticCallee()
					// sd == nil (first use), sd from the lock-free lookup
					if isNilConst(y) && (strings.Contains(cf.Name(), "etStructDesc") || shortFn(cf) == "mapStructDesc.Get") {
						ec.exempt[b] = "first-use"
					}
					// rv.Kind() == reflect.Struct (by-value argument)
					if cf.Name() == "Kind" && fnPkgPath(cf) == "reflect" {
						if v, ok := constInt(y); ok && v == structKind {
							ec.exempt[b] = "by-value"
						}
					}
				}
			}
		}
	}
	g := c.CG()
	var st []*ssa.Function
	for _, n := range []string{"EncodedSize", "Append"} {
		if f := c.SSA[pkgReflect].Func(n); f != nil {
			st = append(st, f)
		}
	}
	for len(st) > 0 {
		f := st[len(st)-1]
		st = st[:len(st)-1]
		if ec.fns[f] || f.Blocks == nil || !c.InModule(f) {
			continue
		}
		ec.fns[f] = true
		exemptOf(f)
		n := g.Nodes[f]
		if n == nil {
			continue
		}
		for _, e := range n.Out {
			if e.Site == nil || ec.exempt[e.Site.Block()] != "" {
				continue
			}
			// deferred Put on the by-value edge is registered in that block
			st = append(st, e.Callee.Func)
		}
	}
	c.encCl = ec
	return ec
}

func (ec *encClosure) sorted() []*ssa.Function {
	var out []*ssa.Function
	for f := range ec.fns {
		out = append(out, f)
	}
	sort.Slice(out, func(i, j int) bool {
		if out[i].Pos() != out[j].Pos() {
			return out[i].Pos() < out[j].Pos()
		}
		return out[i].String() < out[j].String()
	})
	return out
}

// storeRoot classifies the root of an address: local | user | global | desc | unknown
func storeRoot(v ssa.Value) (string, string) { return storeRootD(v, map[*ssa.Phi]bool{}) }

func storeRootD(v ssa.Value, seenPhi map[*ssa.Phi]bool) (string, string) {
	for i := 0; i < 16; i++ {
		switch x := v.(type) {
		case *ssa.Alloc:
			return "local", ""
		case *ssa.Global:
			return "global", x.Name()
		case *ssa.FieldAddr:
			v = x.X
		case *ssa.IndexAddr:
			v = x.X
		case *ssa.Convert:
			if isUnsafePointer(x.X.Type()) {
				// typed view of an unsafe pointer: whose memory?
				v = x.X
				continue
			}
			v = x.X
		case *ssa.ChangeType:
			v = x.X
		case *ssa.Slice:
			v = x.X
		case *ssa.MakeSlice:
			return "local", ""
		case *ssa.Parameter:
			if isUnsafePointer(x.Type()) {
				return "user", "parameter " + x.Name()
			}
			if n := namedOf(x.Type()); n == "tType" || n == "structDesc" || n == "tField" {
				return "desc", n
			}
			// value receivers / by-value struct params are copies (spilled by SSA into allocs); pointer params to local iterator types
			return "param", x.Name()
		case *ssa.Phi:
			// all edges must agree; take the worst
			worst, why := "local", ""
			if seenPhi[x] {
				return "local", "" // a loop-carried address: decided by the edges that enter the cycle
			}
			seenPhi[x] = true
			for _, e := range x.Edges {
				if isNilConst(e) {
					continue
				}
				k, w := storeRootD(e, seenPhi)
				if k != "local" {
					worst, why = k, w
				}
			}
			return worst, why
		case *ssa.Call:
			if isBuiltin(x, "Add") {
				v = x.Call.Args[0]
				continue
			}
			return "call", calleeShort(x)
		case *ssa.UnOp:
			if x.Op == token.MUL {
				// pointer loaded from memory
				k, w := storeRoot(x.X)
				if k == "local" {
					return "loaded-from-local", w
				}
				return k, "loaded through " + path(x.X)
			}
			return "unknown", x.Name()
		case *ssa.Extract:
			return "call", path(x)
		default:
			return "unknown", fmt.Sprintf("%T", v)
		}
	}
	return "unknown", "deep"
}

func ruleWriteEffect(c *Ctx) []Ob {
	s := newSink(c, "E10.write-effect")
	ec := c.encodeClosure()
	nondet := map[string]bool{"time": true, "math/rand": true, "math/rand/v2": true, "crypto/rand": true, "os": true, "syscall": true, "runtime": false}
	for _, fn := range ec.sorted() {
		fname := shortFn(fn)
		ei := analyseEmits(fn)
		nStores, nBad := 0, 0
		for _, b := range fn.Blocks {
			if ec.exempt[b] == "error-only" || ec.exempt[b] == "first-use" {
				continue
			}
			for _, ins := range b.Instrs {
				switch x := ins.(type) {
				case *ssa.Store:
					nStores++
					k, w := storeRoot(x.Addr)
					switch k {
					case "local", "loaded-from-local":
					case "param":
						// pointer receiver of a local helper object (mapIter, span ...): the callers pass locals; value params are copies
						if _, isPtr := x.Addr.Type().Underlying().(*types.Pointer); isPtr && (namedOf(fn.Params[0].Type()) == "mapIter") {
							continue
						}
						nBad++
						s.bad(fname+":store", c.InstrPos(x), "store through parameter "+w+" in the encode/size closure: "+c.srcLine(x.Pos()))
					case "user":
						nBad++
						s.bad(fname+":store-user-memory", c.InstrPos(x), "the encoder writes into the value it is encoding ("+w+"): "+c.srcLine(x.Pos()))
					case "global":
						nBad++
						s.bad(fname+":store-global", c.InstrPos(x), "the encoder writes global "+w)
					case "desc":
						nBad++
						s.bad(fname+":store-descriptor", c.InstrPos(x), "the encoder writes a shared descriptor ("+w+")")
					default:
						nBad++
						s.bad(fname+":store", c.InstrPos(x), "store rooted at "+k+" ("+w+") in the encode/size closure: "+c.srcLine(x.Pos()))
					}
				case *ssa.MapUpdate:
					nBad++
					s.bad(fname+":map-update", c.InstrPos(x), "map update in the encode/size closure")
				case *ssa.Call:
					if bi, ok := x.Call.Value.(*ssa.Builtin); ok {
						switch bi.Name() {
						case "append":
							if ei.chain[x.Call.Args[0]] {
								continue
							}
							k, w := storeRoot(x.Call.Args[0])
							nBad++
							s.bad(fname+":append-base", c.InstrPos(x), "append to a slice that is not the output buffer (rooted at "+k+" "+w+"): if it is the user's slice with spare capacity the value being encoded is modified, and the temporary may grow on the heap: "+c.srcLine(x.Pos()))
						case "copy":
							k, w := storeRoot(x.Call.Args[0])
							if k != "local" {
								nBad++
								s.bad(fname+":copy-dst", c.InstrPos(x), "copy into memory rooted at "+k+" "+w)
							}
						case "delete", "clear":
							nBad++
							s.bad(fname+":"+bi.Name(), c.InstrPos(x), bi.Name()+" in the encode/size closure")
						}
						continue
					}
					f := x.Call.StaticCallee()
					if f == nil {
						continue
					}
					pp := fnPkgPath(f)
					if nd, ok := nondet[pp]; ok && nd {
						nBad++
						s.bad(fname+":nondeterministic-call", c.InstrPos(x), "call to "+pp+"."+f.Name()+" in the encode/size closure: the result would depend on something other than the value")
					}
					if pp == "reflect" && f.Signature.Recv() != nil {
						switch f.Name() {
						case "Set", "SetZero", "SetMapIndex", "SetLen", "SetInt", "SetString", "SetBytes", "SetPointer", "Grow", "SetCap", "SetIterKey", "SetIterValue":
							if ec.exempt[b] == "by-value" && f.Name() == "Set" {
								continue // overwrite of the pooled copy
							}
							nBad++
							s.bad(fname+":reflect-mutation", c.InstrPos(x), "reflect."+f.Name()+" in the encode/size closure mutates a value")
						}
					}
				}
			}
		}
		for _, fr := range ei.foreign {
			if b := fr.Block(); ec.exempt[b] == "error-only" {
				continue
			}
			nBad++
			s.bad(fname+":buffer-not-append-only", c.InstrPos(fr), "the output buffer is used other than by append (indexed store or re-slice): bytes already produced could be changed or bytes past len exposed")
		}
		if nBad == 0 {
			s.ok(fname+":effects", c.Pos(fn.Pos()), fmt.Sprintf("%d stores, all into locals; output touched only by append", nStores))
		}
	}
	return s.obs
}

// ---------------------------------------------------------------- NO-HEAP

type escLine struct {
	file string
	line int
	col  int
	msg  string
}

var escRe = regexp.MustCompile(`^(.+\.go):(\d+):(\d+): (.*(escapes to heap|moved to heap).*)$`)

// escapeLines runs the compiler's escape analysis (no code is executed) and returns its heap verdicts.
func (c *Ctx) escapeLines(goBin string) ([]escLine, error) {
	key := goBin
	if c.escCache == nil {
		c.escCache = map[string][]escLine{}
	}
	if v, ok := c.escCache[key]; ok {
		return v, nil
	}
	cmd := exec.Command(goBin, "build", "-gcflags=-m=1", ".", "./internal/reflect")
	cmd.Dir = c.Repo
	env := []string{}
	for _, e := range os.Environ() {
		if strings.HasPrefix(e, "GOFLAGS=") || strings.HasPrefix(e, "GOWORK=") || strings.HasPrefix(e, "GOARCH=") || strings.HasPrefix(e, "GOPROXY=") || strings.HasPrefix(e, "GOTOOLCHAIN=") {
			continue
		}
		env = append(env, e)
	}
	env = append(env, "GOFLAGS=-mod=mod", "GOPROXY=off", "GOWORK=off", "GOSUMDB=off", "GOTOOLCHAIN=local", "CGO_ENABLED=0", "GOARCH="+c.GOARCH)
	cmd.Env = env
	var out bytes.Buffer
	cmd.Stdout = &out
	cmd.Stderr = &out
	if err := cmd.Run(); err != nil {
		return nil, fmt.Errorf("%s build -gcflags=-m failed: %v\n%s", goBin, err, out.String())
	}
	var lines []escLine
	for _, l := range strings.Split(out.String(), "\n") {
		m := escRe.FindStringSubmatch(strings.TrimSpace(l))
		if m == nil {
			continue
		}
		ln, _ := strconv.Atoi(m[2])
		col, _ := strconv.Atoi(m[3])
		f := m[1]
		if !filepath.IsAbs(f) {
			f = filepath.Join(c.Repo, f)
		}
		lines = append(lines, escLine{f, ln, col, m[4]})
	}
	if len(lines) == 0 {
		return nil, fmt.Errorf("compiler printed no escape verdicts (unexpected):\n%s", out.String())
	}
	c.escCache[key] = lines
	return lines, nil
}

var heapAllow = map[string]bool{
	"reflect.ValueOf": true, "reflect.Value.Kind": true, "reflect.Value.MapRange": true, "reflect.MapIter.Next": true,
	"reflect.Value.Elem": true, "reflect.Value.IsValid": true, "reflect.Value.UnsafePointer": true, "reflect.Value.IsNil": true,
	"encoding/binary.bigEndian.AppendUint16": true, "encoding/binary.bigEndian.AppendUint32": true, "encoding/binary.bigEndian.AppendUint64": true,
	"sync/atomic.Pointer.Load": true, "sync.Pool.Get": true, "sync.Pool.Put": true, "reflect.Value.Set": true,
}

func extName(f *ssa.Function) string {
	p := fnPkgPath(f)
	n := p + "." + f.Name()
	if r := f.Signature.Recv(); r != nil {
		n = p + "." + namedOf(r.Type()) + "." + f.Name()
	}
	// instantiated generics: drop the type arguments
	for {
		i := strings.Index(n, "[")
		if i < 0 {
			break
		}
		depth, j := 0, i
		for ; j < len(n); j++ {
			if n[j] == '[' {
				depth++
			}
			if n[j] == ']' {
				depth--
				if depth == 0 {
					break
				}
			}
		}
		if j >= len(n) {
			break
		}
		n = n[:i] + n[j+1:]
	}
	return n
}

func ruleNoHeap(c *Ctx) []Ob {
	s := newSink(c, "E10.no-heap")
	// the compiler's verdicts come with the file:line of the compiled program: they are mapped onto the program in which
	// every function still has its own lines (no helper expansion)
	c = c.plain()
	ec := c.encodeClosure()
	// functions by file/line range
	type frange struct {
		fn         *ssa.Function
		file       string
		start, end int
	}
	var ranges []frange
	allFns := map[*ssa.Function]bool{}
	for _, fn := range c.ModuleFuncs(pkgReflect, pkgRoot) {
		allFns[fn] = true
		if syn := fn.Syntax(); syn != nil {
			ps, pe := c.Fset.Position(syn.Pos()), c.Fset.Position(syn.End())
			ranges = append(ranges, frange{fn, ps.Filename, ps.Line, pe.Line})
		}
	}
	// innermost function containing a position
	find := func(file string, line int) *ssa.Function {
		var best *frange
		for i := range ranges {
			r := &ranges[i]
			if r.file == file && r.start <= line && line <= r.end {
				if best == nil || (r.end-r.start) < (best.end-best.start) {
					best = r
				}
			}
		}
		if best == nil {
			return nil
		}
		return best.fn
	}
	// blocks of a function touching a source line
	blocksAt := func(fn *ssa.Function, line int) []*ssa.BasicBlock {
		seen := map[*ssa.BasicBlock]bool{}
		var out []*ssa.BasicBlock
		for _, b := range fn.Blocks {
			for _, ins := range b.Instrs {
				if p := ins.Pos(); p.IsValid() && c.Fset.Position(p).Line == line && !seen[b] {
					seen[b] = true
					out = append(out, b)
				}
			}
		}
		return out
	}
	goBins := []string{"go"}
	if c.thorough {
		goBins = append(goBins, "go1.26.8")
	}
	// per function: does it have a non-exempt heap site? (used to attribute inlined-callee reports)
	heapy := map[*ssa.Function][]string{}
	for _, goBin := range goBins {
		lines, err := c.escapeLines(goBin)
		if err != nil {
			if goBin != "go" {
				s.ok("compiler:"+goBin, "-", "second toolchain not available: "+strings.Split(err.Error(), "\n")[0])
				continue
			}
			s.undec("compiler:"+goBin, "-", err.Error())
			return s.obs
		}
		type site struct {
			l  escLine
			fn *ssa.Function
		}
		var sites []site
		for _, l := range lines {
			fn := find(l.file, l.line)
			if fn == nil {
				continue // package-level initialisers
			}
			sites = append(sites, site{l, fn})
		}
		// first pass: own sites judged in their own function
		judge := func(fn *ssa.Function, line int) (bool, string) { // exempt?
			bs := blocksAt(fn, line)
			if len(bs) == 0 {
				return false, "no instruction at this line"
			}
			for _, b := range bs {
				if ec.exempt[b] == "" {
					// exemptions are computed only for closure functions; compute error-only for others on demand
					if !ec.fns[fn] {
						if errOnlyBlocks(fn)[b] {
							continue
						}
					}
					return false, ""
				}
			}
			return true, "all blocks at this line are " + ec.exempt[bs[0]]
		}
		for _, st := range sites {
			if ex, _ := judge(st.fn, st.l.line); !ex {
				if strings.HasPrefix(st.l.msg, "append escapes to heap") {
					ei := analyseEmits(st.fn)
					okEv, nEv := true, 0
					for _, ev := range ei.events {
						if c.Fset.Position(ev.Instr.Pos()).Line == st.l.line {
							nEv++
							if !ei.chain[ev.In] {
								okEv = false
							}
						}
					}
					if okEv && nEv > 0 {
						continue
					}
				}
				heapy[st.fn] = append(heapy[st.fn], fmt.Sprintf("%s:%d %s", filepath.Base(st.l.file), st.l.line, st.l.msg))
			}
		}
		n := 0
		for _, st := range sites {
			if !ec.fns[st.fn] {
				continue
			}
			n++
			rel, _ := filepath.Rel(c.Repo, st.l.file)
			pos := fmt.Sprintf("%s:%d", rel, st.l.line)
			key := shortFn(st.fn) + ":" + goBin + ":" + heapKind(st.l.msg)
			if ex, why := judge(st.fn, st.l.line); ex {
				s.ok(key, pos, "compiler: "+st.l.msg+" - exempt: "+why)
				continue
			}
			// newer compilers report `append escapes to heap` for every append whose result escapes: the possible growth of the
			// output buffer, which the property's precondition (buffer large enough) excludes. Exempt only appends on the output chain.
			if strings.HasPrefix(st.l.msg, "append escapes to heap") {
				ei := analyseEmits(st.fn)
				nEv, okEv := 0, true
				for _, ev := range ei.events {
					if c.Fset.Position(ev.Instr.Pos()).Line == st.l.line {
						nEv++
						if !ei.chain[ev.In] {
							okEv = false
						}
					}
				}
				// any append at this line that is not an emission on the chain?
				for _, b := range st.fn.Blocks {
					for _, ins := range b.Instrs {
						if call, ok := ins.(*ssa.Call); ok && isBuiltin(call, "append") && c.Fset.Position(call.Pos()).Line == st.l.line && !ei.chain[call.Call.Args[0]] {
							okEv = false
						}
					}
				}
				if nEv > 0 && okEv {
					s.ok(key, pos, "compiler: "+st.l.msg+" - growth of the output buffer itself (append on the output chain; excluded by the precondition that the buffer is large enough)")
					continue
				}
			}
			// inlined callee: the verdict is reported at the call's position; attribute it to the callee
			attributed := false
			// columns of the analysed text can differ from the compiled file's when a renamed declaration is read under its
			// reference name: when the exact column has no call, a line with a single module call is matched by line
			exactCol, onLine := false, 0
			for _, b := range st.fn.Blocks {
				for _, ins := range b.Instrs {
					if call, ok := ins.(*ssa.Call); ok && call.Pos().IsValid() {
						if p := c.Fset.Position(call.Pos()); p.Line == st.l.line {
							if p.Column == st.l.col {
								exactCol = true
							}
							if f := call.Call.StaticCallee(); f != nil && c.InModule(f) {
								onLine++
							}
						}
					}
				}
			}
			// an expression of this very function (the compiled file has it at the reported column) is not a callee's site
			own := ownExprAt(st.l.file, st.l.line, st.l.col, st.l.msg)
			for _, b := range st.fn.Blocks {
				for _, ins := range b.Instrs {
					call, ok := ins.(*ssa.Call)
					if !ok || !call.Pos().IsValid() || own {
						continue
					}
					p := c.Fset.Position(call.Pos())
					if p.Line != st.l.line || p.Column != st.l.col && (exactCol || onLine != 1) {
						continue
					}
					if f := call.Call.StaticCallee(); f != nil && c.InModule(f) {
						if len(heapy[f]) == 0 {
							attributed = true
							s.ok(key, pos, "compiler: "+st.l.msg+" - heap site of inlined callee "+shortFn(f)+", all of whose own heap sites are on error-only paths")
						}
					}
				}
			}
			if !attributed {
				s.bad(key, pos, "heap allocation on a success path of the encode/size closure (compiler "+goBin+": "+st.l.msg+"): "+srcAt(c, st.l.file, st.l.line))
			}
		}
		s.ok("compiler:"+goBin, "-", fmt.Sprintf("%d escape verdicts parsed, %d inside the %d closure functions", len(lines), n, len(ec.fns)))
	}
	// (2) SSA constructs and (3) external callees
	for _, fn := range ec.sorted() {
		fname := shortFn(fn)
		ei := analyseEmits(fn)
		nbad := 0
		for _, b := range fn.Blocks {
			if ec.exempt[b] != "" {
				continue
			}
			inLoop := blockReaches(b, b)
			for _, ins := range b.Instrs {
				what := ""
				switch x := ins.(type) {
				case *ssa.MakeSlice:
					what = "make([]T)"
				case *ssa.MakeMap:
					what = "make(map)"
				case *ssa.MakeChan:
					what = "make(chan)"
				case *ssa.MakeClosure:
					what = "closure creation"
				case *ssa.MapUpdate:
					what = "map update"
				case *ssa.Go:
					what = "go statement"
				case *ssa.Defer:
					if inLoop {
						what = "defer inside a loop"
					}
				case *ssa.BinOp:
					if x.Op == token.ADD {
						if bt, ok := x.Type().Underlying().(*types.Basic); ok && bt.Info()&types.IsString != 0 {
							what = "string concatenation"
						}
					}
				case *ssa.Convert:
					from, to := x.X.Type().Underlying(), x.Type().Underlying()
					_, fs := from.(*types.Slice)
					_, ts := to.(*types.Slice)
					fb, fok := from.(*types.Basic)
					tb, tok := to.(*types.Basic)
					if fs && tok && tb.Info()&types.IsString != 0 || ts && fok && fb.Info()&types.IsString != 0 {
						what = "string/[]byte conversion"
					}
				case *ssa.Call:
					if isBuiltin(x, "append") && !ei.chain[x.Call.Args[0]] {
						what = "append to a slice other than the output buffer (may grow on the heap)"
					}
					if f := x.Call.StaticCallee(); f != nil && c.InModule(f) && returnsBytesFirst(f.Signature) {
						for _, a := range x.Call.Args {
							if isByteSlice(a.Type()) && !ei.chain[a] {
								what = "append helper " + shortFn(f) + " applied to a buffer other than the output (a temporary that may grow on the heap)"
							}
						}
					}
					if f := x.Call.StaticCallee(); f != nil && !c.InModule(f) && what == "" {
						if _, isB := x.Call.Value.(*ssa.Builtin); !isB && !heapAllow[extName(f)] {
							what = "call to " + extName(f) + ", which is not on the allowlist of allocation-free callees"
						}
					}
					if x.Call.IsInvoke() {
						what = "interface method call " + x.Call.Method.Name() + " (callee unknown)"
					}
				}
				if what != "" {
					nbad++
					s.bad(fname+":construct", c.InstrPos(ins), what+" on a success path of the encode/size closure: "+c.srcLine(ins.Pos()))
				}
			}
		}
		if nbad == 0 {
			s.ok(fname+":constructs", c.Pos(fn.Pos()), "no allocating construct or unlisted external call outside exempt blocks")
		}
	}
	return s.obs
}

func heapKind(msg string) string {
	if strings.Contains(msg, "moved to heap") {
		return "moved"
	}
	return "escapes"
}

// ownExprAt: the compiler's verdict names an expression that is written at the reported position of the compiled file (a
// composite literal, make, new, a variable), as opposed to the heap site of an inlined callee, which is reported at the call.
func ownExprAt(file string, line, col int, msg string) bool {
	b, err := os.ReadFile(file)
	if err != nil {
		return false
	}
	ls := strings.Split(string(b), "\n")
	if line-1 >= len(ls) || col-1 > len(ls[line-1]) || col < 1 {
		return false
	}
	expr := msg
	for _, cut := range []string{" escapes to heap", " does not escape"} {
		if i := strings.Index(expr, cut); i >= 0 {
			expr = expr[:i]
		}
	}
	if strings.HasPrefix(expr, "moved to heap") {
		return true
	}
	if i := strings.IndexAny(expr, "{("); i >= 0 {
		expr = expr[:i+1]
	}
	expr = strings.TrimSpace(expr)
	return expr != "" && strings.HasPrefix(ls[line-1][col-1:], expr)
}

func srcAt(c *Ctx, file string, line int) string {
	b, err := os.ReadFile(file)
	if err != nil {
		return ""
	}
	ls := strings.Split(string(b), "\n")
	if line-1 < len(ls) {
		return strings.TrimSpace(ls[line-1])
	}
	return ""
}

var _ = callgraph.Edge{}
