#!/bin/bash
# usage: validate_seed.sh <out-dir> <N> <worktree>   -- confirms a seeded change: baseline passes with it, demo fails with it, demo passes without it
# prints one line: RESULT <dir> m<N> baseline=<ok|FAIL> demo_with=<fails|PASSES> demo_without=<passes|FAILS>
export GOFLAGS=-mod=mod GOPROXY=off GOSUMDB=off GOTOOLCHAIN=local; unset GOWORK
out=$1; n=$2; wt=$3
cd "$wt" || exit 2
git checkout -q -- . ; git clean -fdq
place=$(python3 -c "import json;print(json.load(open('$out/m$n.json'))['demo_place'].split()[0])")
cmd=$(python3 -c "import json,re;print(re.split(r'\s{2,}\(', json.load(open('$out/m$n.json'))['demo_cmd'])[0])")
cmd=$(echo "$cmd" | sed -E 's@cd /tmp/mut[0-9]*/C[0-9]+ *&& *@@')
if ! git apply "$out/m$n.diff" 2>/dev/null; then echo "RESULT $out m$n patch-does-not-apply"; exit 0; fi
b=ok
for m in . fuzz tests; do (cd $m && go test -vet=off -count=1 ./... >/dev/null 2>&1) || b=FAIL; done
cp "$out/m${n}_demo_test.go" "$place"
printf '%s\n' "$cmd" > /tmp/scratch/demo_cmd_$$.sh
if (timeout 900 bash /tmp/scratch/demo_cmd_$$.sh >/tmp/scratch/demo_with_$$.log 2>&1); then w=PASSES; else w=fails; fi
git apply -R "$out/m$n.diff"
if (timeout 900 bash /tmp/scratch/demo_cmd_$$.sh >/tmp/scratch/demo_without_$$.log 2>&1); then wo=passes; else wo=FAILS; tail -5 /tmp/scratch/demo_without_$$.log; fi
rm -f "$place" /tmp/scratch/demo_with_$$.log /tmp/scratch/demo_without_$$.log /tmp/scratch/demo_cmd_$$.sh
git checkout -q -- . ; git clean -fdq
echo "RESULT $out m$n baseline=$b demo_with=$w demo_without=$wo"
