module mutgen

go 1.23
