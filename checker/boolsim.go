package main

import (
	"fmt"
	"go/constant"
	"go/token"
	"go/types"
	"sort"
	"strings"

	"golang.org/x/tools/go/ssa"
)

// A small path-sensitive evaluator for functions that compute boolean flags from a handful of comparisons.
//
// The function's CFG is walked from the entry under a total assignment of named atoms (comparisons such as
// "Spec==1", table lookups such as "containerTypes[T]"); a branch whose condition is not determined by the assignment is
// followed both ways. At every return the evaluator reports the last value stored into each boolean field of the receiver
// and which other receiver fields were stored. Rules compare that with the truth table the property states, for every
// consistent assignment: a finite domain, no solver, no execution.

type tri int8

const (
	triU tri = iota // not determined by the assignment
	triT
	triF
)

func triOf(b bool) tri {
	if b {
		return triT
	}
	return triF
}

func (t tri) not() tri {
	switch t {
	case triT:
		return triF
	case triF:
		return triT
	}
	return triU
}

func (t tri) String() string { return [...]string{"?", "true", "false"}[t] }

type simPath struct {
	flags   map[string]tri  // bool receiver fields stored on this path: last value
	stored  map[string]bool // other receiver fields stored on this path
	unknown map[string]bool // atoms the stored flags depend on that the assignment does not determine
	ret     *ssa.Return
	results []tri // boolean results of the return
}

type boolSim struct {
	atom    func(key string) tri
	maxPath int
	paths   int
	over    bool
}

type simState struct {
	env    map[ssa.Value]tri
	deps   map[ssa.Value]string // unknown atom behind an undetermined value
	flags  map[string]tri
	fdeps  map[string]string
	stored map[string]bool
	bind   map[*ssa.Parameter]ssa.Value
	visits map[*ssa.BasicBlock]int
	recvs  map[ssa.Value]bool
	outer  *simState
}

func (st *simState) depth() int {
	n := 0
	for o := st.outer; o != nil; o = o.outer {
		n++
	}
	return n
}

func (st *simState) clone() *simState {
	n := &simState{env: map[ssa.Value]tri{}, deps: map[ssa.Value]string{}, flags: map[string]tri{}, fdeps: map[string]string{}, stored: map[string]bool{}, bind: st.bind, visits: map[*ssa.BasicBlock]int{}, recvs: st.recvs, outer: st.outer}
	for k, v := range st.env {
		n.env[k] = v
	}
	for k, v := range st.deps {
		n.deps[k] = v
	}
	for k, v := range st.flags {
		n.flags[k] = v
	}
	for k, v := range st.fdeps {
		n.fdeps[k] = v
	}
	for k, v := range st.stored {
		n.stored[k] = v
	}
	for k, v := range st.visits {
		n.visits[k] = v
	}
	return n
}

// operandKey names a compared operand independently of the variable it is reached through: the last field of an access path,
// a constant, an indexed table.
func (bs *boolSim) operandKey(v ssa.Value, st *simState) string {
	v = stripConv(v)
	switch x := v.(type) {
	case *ssa.Const:
		if x.Value == nil {
			return "nil"
		}
		if n, ok := constInt(x); ok {
			return fmt.Sprint(n)
		}
		return x.Value.ExactString()
	case *ssa.Parameter:
		if a, ok := st.bind[x]; ok && st.outer != nil {
			return bs.operandKey(a, st.outer)
		}
		return x.Name()
	case *ssa.UnOp:
		if x.Op == token.MUL {
			switch a := x.X.(type) {
			case *ssa.FieldAddr:
				return bs.chainKey(a, st)
			case *ssa.IndexAddr:
				return bs.operandKey(a.X, st) + "[" + bs.operandKey(a.Index, st) + "]"
			case *ssa.Global:
				return a.Name()
			}
		}
	case *ssa.Global:
		return x.Name()
	case *ssa.Field:
		return joinKey(bs.chainKey(x.X, st), fieldName(x.X.Type(), x.Field))
	case *ssa.BinOp:
		if x.Op == token.AND || x.Op == token.OR {
			return "(" + bs.operandKey(x.X, st) + x.Op.String() + bs.operandKey(x.Y, st) + ")"
		}
	case *ssa.Index:
		return bs.operandKey(x.X, st) + "[" + bs.operandKey(x.Index, st) + "]"
	}
	return path(v)
}

func joinKey(a, b string) string {
	if a == "" {
		return b
	}
	return a + "." + b
}

// chainKey: the field names along an access path, without the variable the path starts from (parameters of a helper are
// replaced by the caller's argument).
func (bs *boolSim) chainKey(v ssa.Value, st *simState) string {
	switch x := v.(type) {
	case *ssa.FieldAddr:
		return joinKey(bs.chainKey(x.X, st), fieldName(x.X.Type(), x.Field))
	case *ssa.Field:
		return joinKey(bs.chainKey(x.X, st), fieldName(x.X.Type(), x.Field))
	case *ssa.UnOp:
		if x.Op == token.MUL {
			if _, ok := x.X.(*ssa.Alloc); ok {
				return ""
			}
			return bs.chainKey(x.X, st)
		}
	case *ssa.Parameter:
		if a, ok := st.bind[x]; ok && st.outer != nil {
			return bs.chainKey(a, st.outer)
		}
		return ""
	case *ssa.Alloc:
		return ""
	case *ssa.ChangeType:
		return bs.chainKey(x.X, st)
	}
	return path(v)
}

func (bs *boolSim) atomOf(key string) (tri, string) {
	t := bs.atom(key)
	if t == triU {
		return triU, key
	}
	return t, ""
}

func isBoolType(t types.Type) bool {
	b, ok := t.Underlying().(*types.Basic)
	return ok && b.Info()&types.IsBoolean != 0
}

// eval computes a boolean value at its definition point.
func (bs *boolSim) eval(v ssa.Value, st *simState) (tri, string) {
	if t, ok := st.env[v]; ok {
		return t, st.deps[v]
	}
	switch x := v.(type) {
	case *ssa.Const:
		if x.Value != nil && isBoolType(x.Type()) {
			return triOf(x.Value.ExactString() == "true"), ""
		}
	case *ssa.Parameter:
		if a, ok := st.bind[x]; ok && st.outer != nil {
			return bs.eval(a, st.outer)
		}
		return bs.atomOf(x.Name())
	case *ssa.UnOp:
		switch x.Op {
		case token.NOT:
			t, d := bs.eval(x.X, st)
			return t.not(), d
		case token.MUL:
			if fa, ok := x.X.(*ssa.FieldAddr); ok && st.recvs[fa.X] {
				if t, ok := st.flags[fieldName(fa.X.Type(), fa.Field)]; ok {
					return t, st.fdeps[fieldName(fa.X.Type(), fa.Field)]
				}
			}
			return bs.atomOf(bs.operandKey(x, st))
		}
	case *ssa.BinOp:
		switch x.Op {
		case token.EQL, token.NEQ:
			if isBoolType(x.X.Type()) {
				a, da := bs.eval(x.X, st)
				b, db := bs.eval(x.Y, st)
				if a == triU || b == triU {
					return triU, da + db
				}
				return triOf((a == b) == (x.Op == token.EQL)), ""
			}
			l, r := bs.operandKey(x.X, st), bs.operandKey(x.Y, st)
			if _, ok := stripConv(x.X).(*ssa.Const); ok {
				l, r = r, l
			}
			t, d := bs.atomOf(l + "==" + r)
			if x.Op == token.NEQ {
				t = t.not()
			}
			return t, d
		case token.AND, token.OR:
			if isBoolType(x.Type()) {
				a, da := bs.eval(x.X, st)
				b, db := bs.eval(x.Y, st)
				if x.Op == token.AND {
					switch {
					case a == triF || b == triF:
						return triF, ""
					case a == triT && b == triT:
						return triT, ""
					}
				} else {
					switch {
					case a == triT || b == triT:
						return triT, ""
					case a == triF && b == triF:
						return triF, ""
					}
				}
				return triU, da + db
			}
		}
	case *ssa.Call:
		if f := x.Call.StaticCallee(); f != nil && f.Blocks != nil && isBoolType(x.Type()) && st.depth() < 3 {
			// a module helper that returns the flag: evaluate it under the same assignment with its parameters bound
			bind := map[*ssa.Parameter]ssa.Value{}
			for i, p := range f.Params {
				if i < len(x.Call.Args) {
					bind[p] = x.Call.Args[i]
				}
			}
			sub := &simState{env: map[ssa.Value]tri{}, deps: map[ssa.Value]string{}, flags: map[string]tri{}, fdeps: map[string]string{}, stored: map[string]bool{}, bind: bind, visits: map[*ssa.BasicBlock]int{}, recvs: map[ssa.Value]bool{}, outer: st}
			res := map[tri]bool{}
			dep := ""
			for _, p := range bs.runFrom(f.Blocks[0], nil, sub) {
				if len(p.results) > 0 {
					res[p.results[0]] = true
					for u := range p.unknown {
						dep = u
					}
				}
			}
			if len(res) == 1 {
				for t := range res {
					if t != triU {
						return t, ""
					}
				}
			}
			if dep == "" {
				dep = "call " + f.Name()
			}
			return triU, dep
		}
	}
	return bs.atomOf(bs.operandKey(v, st))
}

// runFrom walks the CFG from block b (entered from pred) and returns one record per return reached.
func (bs *boolSim) runFrom(b, pred *ssa.BasicBlock, st *simState) []simPath {
	if bs.paths > bs.maxPath {
		bs.over = true
		return nil
	}
	st.visits[b]++
	if st.visits[b] > 2 {
		return nil // loops are followed at most twice
	}
	// phis first, all from the state on entry
	if pred != nil {
		idx := -1
		for i, p := range b.Preds {
			if p == pred {
				idx = i
			}
		}
		type pv struct {
			phi *ssa.Phi
			t   tri
			d   string
		}
		var vals []pv
		for _, ins := range b.Instrs {
			phi, ok := ins.(*ssa.Phi)
			if !ok {
				break
			}
			if idx >= 0 && isBoolType(phi.Type()) {
				t, d := bs.eval(phi.Edges[idx], st)
				vals = append(vals, pv{phi, t, d})
			}
		}
		for _, v := range vals {
			st.env[v.phi] = v.t
			st.deps[v.phi] = v.d
		}
	}
	for _, ins := range b.Instrs {
		switch x := ins.(type) {
		case *ssa.Phi:
		case *ssa.Store:
			if fa, ok := x.Addr.(*ssa.FieldAddr); ok && st.recvs[fa.X] {
				name := fieldName(fa.X.Type(), fa.Field)
				if isBoolType(x.Val.Type()) {
					t, d := bs.eval(x.Val, st)
					st.flags[name] = t
					st.fdeps[name] = d
				} else if !isNilConst(x.Val) {
					st.stored[name] = true
				} else {
					delete(st.stored, name)
				}
			}
		case ssa.Value:
			if isBoolType(x.Type()) {
				t, d := bs.eval(x, st)
				st.env[x] = t
				st.deps[x] = d
			}
		}
		switch x := ins.(type) {
		case *ssa.Return:
			bs.paths++
			p := simPath{flags: st.flags, stored: st.stored, unknown: map[string]bool{}, ret: x}
			for k, t := range st.flags {
				if t == triU {
					p.unknown[k+" depends on "+st.fdeps[k]] = true
				}
			}
			for _, r := range x.Results {
				if isBoolType(r.Type()) {
					t, d := bs.eval(r, st)
					p.results = append(p.results, t)
					if t == triU {
						p.unknown[d] = true
					}
				}
			}
			return []simPath{p}
		case *ssa.Panic:
			return nil
		case *ssa.Jump:
			return bs.runFrom(b.Succs[0], b, st)
		case *ssa.If:
			t, _ := bs.eval(x.Cond, st)
			switch t {
			case triT:
				return bs.runFrom(b.Succs[0], b, st)
			case triF:
				return bs.runFrom(b.Succs[1], b, st)
			}
			a := bs.runFrom(b.Succs[0], b, st.clone())
			return append(a, bs.runFrom(b.Succs[1], b, st.clone())...)
		}
	}
	return nil
}

// simulate runs fn under the assignment; recv is the value whose fields are tracked (usually the receiver parameter).
func (bs *boolSim) simulate(fn *ssa.Function, recv ssa.Value) []simPath {
	st := &simState{env: map[ssa.Value]tri{}, deps: map[ssa.Value]string{}, flags: map[string]tri{}, fdeps: map[string]string{}, stored: map[string]bool{}, bind: map[*ssa.Parameter]ssa.Value{}, visits: map[*ssa.BasicBlock]int{}, recvs: map[ssa.Value]bool{recv: true}}
	return bs.runFrom(fn.Blocks[0], nil, st)
}

// truthTable enumerates all assignments of the given atoms, skipping those rejected by consistent, and calls check for each path.
func truthTable(fn *ssa.Function, recv ssa.Value, atoms []string, consistent func(a map[string]bool) bool, check func(a map[string]bool, p simPath)) (paths int, over bool) {
	n := len(atoms)
	for m := 0; m < 1<<n; m++ {
		a := map[string]bool{}
		for i, k := range atoms {
			a[k] = m&(1<<i) != 0
		}
		if consistent != nil && !consistent(a) {
			continue
		}
		bs := &boolSim{maxPath: 4096, atom: func(key string) tri {
			if v, ok := a[key]; ok {
				return triOf(v)
			}
			if truthTableExtra != nil {
				return truthTableExtra(key)
			}
			return triU
		}}
		for _, p := range bs.simulate(fn, recv) {
			check(a, p)
			paths++
		}
		over = over || bs.over
	}
	return
}

// truthTableExtra, when set, decides atoms that are not among the enumerated ones (a concrete value of an integer key fixed
// by the caller for the duration of one table).
var truthTableExtra func(key string) tri

func assignStr(a map[string]bool) string {
	var ks []string
	for k, v := range a {
		ks = append(ks, fmt.Sprintf("%s=%v", k, v))
	}
	sort.Strings(ks)
	return strings.Join(ks, ", ")
}

// tableCtx gives the evaluator access to the constant tables of the program under analysis (set by Load).
var tableCtx *Ctx

// predicateTable evaluates a boolean function of a descriptor for every value of the given integer keys: vals maps a key
// ("T", "V.T") to the value it has; the result is the common value of all return paths (triU when they disagree or depend
// on something else).
func predicateValue(fn *ssa.Function, vals map[string]int64) tri {
	bs := &boolSim{maxPath: 4096, atom: func(key string) tri {
		i := strings.Index(key, "==")
		if i < 0 {
			// a constant boolean table of the module indexed by a known key: table[T]
			if lb := strings.Index(key, "["); lb > 0 && strings.HasSuffix(key, "]") && tableCtx != nil {
				if iv, ok := vals[key[lb+1:len(key)-1]]; ok {
					for _, pkg := range []string{fnPkgPath(fn), pkgDefs, pkgReflect} {
						if tab, _, ok := tableCtx.tableOf(pkg, key[:lb]); ok {
							cv, present := tab[iv]
							if !present {
								return triF
							}
							if cv.Kind() == constant.Bool {
								return triOf(constant.BoolVal(cv))
							}
							return triU
						}
					}
				}
			}
			return triU
		}
		v, ok := vals[key[:i]]
		if !ok {
			return triU
		}
		var cst int64
		if _, err := fmt.Sscan(key[i+2:], &cst); err != nil {
			return triU
		}
		return triOf(v == cst)
	}}
	st := &simState{env: map[ssa.Value]tri{}, deps: map[ssa.Value]string{}, flags: map[string]tri{}, fdeps: map[string]string{}, stored: map[string]bool{}, bind: map[*ssa.Parameter]ssa.Value{}, visits: map[*ssa.BasicBlock]int{}, recvs: map[ssa.Value]bool{}}
	res := map[tri]bool{}
	for _, p := range bs.runFrom(fn.Blocks[0], nil, st) {
		if len(p.results) != 1 {
			return triU
		}
		res[p.results[0]] = true
	}
	if len(res) == 1 && !bs.over {
		for t := range res {
			return t
		}
	}
	return triU
}
