package main

import (
	"bufio"
	"crypto/sha1"
	"encoding/hex"
	"encoding/json"
	"fmt"
	"os"
	"path/filepath"
	"sort"
	"strings"
)

const (
	OK        = "discharged"
	VIOLATED  = "VIOLATED"
	UNDECIDED = "UNDECIDED"
)

// Ob is one proof obligation produced by a rule on a specific construct.
type Ob struct {
	Rule    string `json:"rule"`
	Key     string `json:"key"` // construct key: stable under unrelated edits (no line numbers)
	Pos     string `json:"pos"` // display only
	Verdict string `json:"verdict"`
	Reason  string `json:"reason"`
}

func (o Ob) id() string { return o.Rule + "|" + o.Key }

// Rule is a repository-specific analysis producing obligations.
type Rule struct {
	ID   string
	Text string // the rule applied, for the evidence
	Min  int    // expected-nonzero floor: fewer instances than this fails the check (vacuity guard)
	Run  func(c *Ctx) []Ob
}

type obSink struct {
	rule string
	c    *Ctx
	obs  []Ob
	seen map[string]int
}

func newSink(c *Ctx, rule string) *obSink { return &obSink{rule: rule, c: c, seen: map[string]int{}} }

// add records an obligation; equal keys get an ordinal suffix so every construct is distinct.
func (s *obSink) add(key, pos, verdict, reason string) {
	s.seen[key]++
	if n := s.seen[key]; n > 1 {
		key = fmt.Sprintf("%s#%d", key, n)
	}
	s.obs = append(s.obs, Ob{Rule: s.rule, Key: key, Pos: pos, Verdict: verdict, Reason: reason})
}
func (s *obSink) ok(key, pos, reason string)    { s.add(key, pos, OK, reason) }
func (s *obSink) bad(key, pos, reason string)   { s.add(key, pos, VIOLATED, reason) }
func (s *obSink) undec(key, pos, reason string) { s.add(key, pos, UNDECIDED, reason) }
func (s *obSink) check(cond bool, key, pos, okReason, badReason string) {
	if cond {
		s.ok(key, pos, okReason)
	} else {
		s.bad(key, pos, badReason)
	}
}

// ------------------------------------------------------------ known findings

type knownFinding struct {
	Status   string // open | fixed
	Property string
	Key      string // rule|construct key (open entries)
	Text     string
}

// known-findings.txt lines:
//
//	open: property=C13 key=<rule>|<construct key> <what fails>
//	fixed: property=C04 <commit> <what failed>
func loadKnown(path string) ([]knownFinding, error) {
	f, err := os.Open(path)
	if err != nil {
		if os.IsNotExist(err) {
			return nil, nil
		}
		return nil, err
	}
	defer f.Close()
	var out []knownFinding
	sc := bufio.NewScanner(f)
	sc.Buffer(make([]byte, 1<<20), 1<<20)
	for sc.Scan() {
		l := strings.TrimSpace(sc.Text())
		if l == "" || strings.HasPrefix(l, "#") {
			continue
		}
		var k knownFinding
		switch {
		case strings.HasPrefix(l, "open:"):
			k.Status = "open"
			l = strings.TrimSpace(strings.TrimPrefix(l, "open:"))
		case strings.HasPrefix(l, "fixed:"):
			k.Status = "fixed"
			l = strings.TrimSpace(strings.TrimPrefix(l, "fixed:"))
		default:
			return nil, fmt.Errorf("known-findings: bad line %q", l)
		}
		for _, w := range strings.Fields(l) {
			if strings.HasPrefix(w, "property=") {
				k.Property = strings.TrimPrefix(w, "property=")
			}
			if strings.HasPrefix(w, "key=") {
				k.Key = strings.TrimPrefix(w, "key=")
			}
		}
		k.Text = l
		out = append(out, k)
	}
	return out, sc.Err()
}

// ------------------------------------------------------------ evidence

type ruleStat struct {
	Rule       string `json:"rule"`
	Text       string `json:"text"`
	Instances  int    `json:"instances"`
	Discharged int    `json:"discharged"`
	Floor      int    `json:"floor"`
}

type evidence struct {
	PropertyID  string                 `json:"property_id"`
	Tier        string                 `json:"tier"`
	Seed        int                    `json:"seed"`
	Level       string                 `json:"level"`
	Coverage    map[string]interface{} `json:"coverage"`
	Assumptions []string               `json:"assumptions"`
	WallS       float64                `json:"wall_s"`
	Violations  int                    `json:"violations"`
}

func writeJSON(path string, v interface{}) error {
	if err := os.MkdirAll(filepath.Dir(path), 0o755); err != nil {
		return err
	}
	b, err := json.MarshalIndent(v, "", " ")
	if err != nil {
		return err
	}
	return os.WriteFile(path, append(b, '\n'), 0o644)
}

func shortHash(s string) string {
	h := sha1.Sum([]byte(s))
	return hex.EncodeToString(h[:])[:10]
}

func sortObs(obs []Ob) {
	sort.SliceStable(obs, func(i, j int) bool {
		if obs[i].Rule != obs[j].Rule {
			return obs[i].Rule < obs[j].Rule
		}
		return obs[i].Key < obs[j].Key
	})
}
