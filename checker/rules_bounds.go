package main

import (
	"fmt"
	"go/token"
	"go/types"
	"os"
	"sort"
	"strings"

	"golang.org/x/tools/go/ssa"
)

func init() {
	register(&Rule{ID: "E4.cursor-bounds", Min: 25,
		Text: "linear-inequality analysis over SSA of every function of the decode closure that takes the input []byte: each b[v] needs len-v >= 1, b[v:] needs len-v >= 0, b[lo:hi] needs 0<=lo<=hi<=len, BigEndian.UintN(s) needs len(s) >= N/8, unsafe.Slice/String(&b[v], l) needs len-v >= l; facts come from dominating branch edges, class-I table lookups evaluated at case constants, callee contracts (err == nil => 0 <= n <= len(arg), itself proved at every return) and induction on loop-carried cursors; an obligation is discharged as a sum of at most three in-scope facts; recorded unknown-field extents are proved in bounds at the Add sites and Copy receives the same buffer",
		Run:  ruleE4})
}

// decode closure: module functions reachable from reflect.Decode that take a []byte parameter.
func (c *Ctx) decodeClosure() map[*ssa.Function]bool {
	root := c.SSA[pkgReflect].Func("Decode")
	if root == nil {
		return nil
	}
	all := c.reachableFrom([]*ssa.Function{root}, nil)
	out := map[*ssa.Function]bool{}
	for f := range all {
		if c.InModule(f) && f.Blocks != nil {
			out[f] = true
		}
	}
	return out
}

func inputParam(fn *ssa.Function) ssa.Value {
	for _, p := range fn.Params {
		if isByteSlice(p.Type()) {
			return p
		}
	}
	return nil
}

// hasContract: function returns (int, error) and takes a []byte: contract err == nil => 0 <= n <= len(b).
func hasContract(fn *ssa.Function) bool {
	r := fn.Signature.Results()
	if r.Len() != 2 || !isInt(r.At(0).Type()) || !isErrorType(r.At(1).Type()) {
		return false
	}
	ps := fn.Signature.Params()
	for i := 0; i < ps.Len(); i++ {
		if isByteSlice(ps.At(i).Type()) {
			return true
		}
	}
	return false
}

// definitelyNonNilErr: the error value cannot be nil.
func definitelyNonNilErr(v ssa.Value, at *ssa.BasicBlock) bool { return definitelyNonNilErrD(v, at, 0) }

func definitelyNonNilErrD(v ssa.Value, at *ssa.BasicBlock, depth int) bool {
	switch x := v.(type) {
	case *ssa.Const:
		return false
	case *ssa.MakeInterface:
		return true
	case *ssa.UnOp:
		if x.Op == token.MUL {
			if g, ok := x.X.(*ssa.Global); ok {
				return strings.HasPrefix(g.Name(), "err") || strings.HasPrefix(g.Name(), "Err")
			}
		}
	case *ssa.Call:
		if f := x.Call.StaticCallee(); f != nil {
			n := f.Name()
			if fnPkgPath(f) == "fmt" && n == "Errorf" || fnPkgPath(f) == "errors" && n == "New" || strings.HasPrefix(n, "new") && strings.Contains(n, "Exception") ||
				strings.HasPrefix(n, "newTypeMismatch") || n == "NewProtocolException" {
				return true
			}
			// a module helper all of whose returns are definite errors (an error constructor)
			if f.Blocks != nil && depth < 2 && isErrorType(x.Type()) {
				all, nret := true, 0
				for _, fb := range f.Blocks {
					if ret, ok := fb.Instrs[len(fb.Instrs)-1].(*ssa.Return); ok && len(ret.Results) == 1 {
						nret++
						if !definitelyNonNilErrD(unspill(ret.Results[0], fb), fb, depth+1) {
							all = false
						}
					}
				}
				if all && nret > 0 {
					return true
				}
			}
		}
	}
	for _, cd := range domConds(at) {
		if bo, ok := cd.V.(*ssa.BinOp); ok && (bo.X == v && isNilConst(bo.Y) || bo.Y == v && isNilConst(bo.X)) {
			if bo.Op == token.NEQ && cd.Truth || bo.Op == token.EQL && !cd.Truth {
				return true
			}
		}
	}
	return false
}

type boundsOb struct {
	want form
	at   ssa.Instruction
	what string
}

func ruleE4(c *Ctx) []Ob {
	s := newSink(c, "E4.cursor-bounds")
	closure := c.decodeClosure()
	if closure == nil {
		s.bad("closure", "-", "reflect.Decode not found")
		return s.obs
	}
	var fns []*ssa.Function
	for f := range closure {
		if inputParam(f) != nil {
			fns = append(fns, f)
		}
	}
	sort.Slice(fns, func(i, j int) bool { return fns[i].Pos() < fns[j].Pos() })
	for _, fn := range fns {
		e4Function(c, s, fn, closure)
	}
	return s.obs
}

func e4Function(c *Ctx, s *obSink, fn *ssa.Function, closure map[*ssa.Function]bool) *linAn {
	in := inputParam(fn)
	a := newLinAn(c, fn, in)
	a.condFacts()
	a.tableFacts()
	a.facts = append(a.facts, fact{f: symF("L"), why: "len(b) >= 0"})
	fname := shortFn(fn)
	isCopy := fname == "unknownFields.Copy"

	// table-guard facts: in a case body of `switch t` with t in S, tbl[t] >= min over S of tbl
	for _, b := range fn.Blocks {
		for _, in2 := range b.Instrs {
			u, ok := in2.(*ssa.UnOp)
			if !ok || u.Op != token.MUL {
				continue
			}
			ia, ok := u.X.(*ssa.IndexAddr)
			if !ok {
				continue
			}
			g, ok := ia.X.(*ssa.Global)
			if !ok || fnPkgPath(fn) != g.Pkg.Pkg.Path() {
				continue
			}
			tab, _, okT := c.tableOf(g.Pkg.Pkg.Path(), g.Name())
			if !okT {
				continue
			}
			idx := path(ia.Index)
			sym := a.lin(u)
			for _, cb := range fn.Blocks {
				cs, subj := caseSet(cb, idx)
				if cs == nil || subj != idx {
					continue
				}
				// only add at the head of the case body (the block all of whose preds are equality edges)
				head := true
				for _, p := range cb.Preds {
					if _, ok := p.Instrs[len(p.Instrs)-1].(*ssa.If); !ok || p.Succs[0] != cb {
						head = false
					}
				}
				if !head {
					continue
				}
				min := int64(1 << 62)
				for _, cv := range cs {
					v := int64(0)
					if tv, ok := tab[cv]; ok {
						v, _ = constIntVal(tv)
					}
					if v < min {
						min = v
					}
				}
				a.facts = append(a.facts, fact{f: addF(sym, konst(min), -1), scope: cb, why: fmt.Sprintf("%s[%s] >= %d for the case constants", g.Name(), idx, min)})
			}
		}
	}

	var obs []boundsOb
	// callee contracts
	type contractCall struct {
		call *ssa.Call
		n, e ssa.Value
		arg  ssa.Value
	}
	var contracts []contractCall
	for _, b := range fn.Blocks {
		for _, ins := range b.Instrs {
			switch x := ins.(type) {
			case *ssa.IndexAddr:
				if a.derivedFrom(x.X) {
					obs = append(obs, boundsOb{addF(addF(a.lenForm(x.X), a.lin(x.Index), -1), konst(1), -1), ins, "index"},
						boundsOb{a.lin(x.Index), ins, "index>=0"})
				}
			case *ssa.Slice:
				if a.derivedFrom(x.X) {
					lo := konst(0)
					if x.Low != nil {
						lo = a.lin(x.Low)
						obs = append(obs, boundsOb{lo, ins, "slice-low>=0"})
					}
					if x.High == nil {
						obs = append(obs, boundsOb{addF(a.lenForm(x.X), lo, -1), ins, "slice-low<=len"})
					} else {
						hi := a.lin(x.High)
						obs = append(obs, boundsOb{addF(hi, lo, -1), ins, "slice-low<=high"},
							boundsOb{addF(a.lenForm(x.X), hi, -1), ins, "slice-high<=len"}) // cap >= len: sufficient
					}
				}
			case *ssa.Call:
				callee := x.Call.StaticCallee()
				if callee != nil && fnPkgPath(callee) == "encoding/binary" && strings.HasPrefix(callee.Name(), "Uint") {
					need := map[string]int64{"Uint16": 2, "Uint32": 4, "Uint64": 8}[callee.Name()]
					arg := x.Call.Args[len(x.Call.Args)-1]
					if a.derivedFrom(arg) {
						obs = append(obs, boundsOb{addF(a.lenForm(arg), konst(need), -1), ins, "BigEndian." + callee.Name()})
					}
				}
				if bi, ok := x.Call.Value.(*ssa.Builtin); ok && (bi.Name() == "Slice" || bi.Name() == "String") {
					if ia, ok := x.Call.Args[0].(*ssa.IndexAddr); ok && a.derivedFrom(ia.X) {
						obs = append(obs, boundsOb{addF(addF(a.lenForm(ia.X), a.lin(ia.Index), -1), a.lin(x.Call.Args[1]), -1), ins, "unsafe." + bi.Name() + " extent"},
							boundsOb{a.lin(x.Call.Args[1]), ins, "unsafe." + bi.Name() + " len>=0"})
					}
				}
				// contracts: module decoder functions and the trusted skipper
				isSkip := isTrustedSkip(callee)
				if callee != nil && (closure[callee] && hasContract(callee) || isSkip) {
					var arg ssa.Value
					for _, ar := range x.Call.Args {
						if isByteSlice(ar.Type()) {
							arg = ar
						}
					}
					if arg != nil && a.derivedFrom(arg) {
						cc := contractCall{call: x, arg: arg}
						for _, r := range referrers(x) {
							if ex, ok := r.(*ssa.Extract); ok {
								if ex.Index == 0 {
									cc.n = ex
								} else {
									cc.e = ex
								}
							}
						}
						contracts = append(contracts, cc)
					}
				}
				// recorded extents
				if callee != nil && shortFn(callee) == "unknownFields.Add" && len(x.Call.Args) == 3 {
					off, sz := a.lin(x.Call.Args[1]), a.lin(x.Call.Args[2])
					obs = append(obs, boundsOb{off, ins, "recorded-extent off>=0"}, boundsOb{sz, ins, "recorded-extent sz>=0"},
						boundsOb{addF(addF(symF("L"), off, -1), sz, -1), ins, "recorded-extent off+sz<=len"})
				}
				if callee != nil && shortFn(callee) == "unknownFields.Copy" && s != nil {
					s.check(len(x.Call.Args) == 2 && x.Call.Args[1] == in, fname+":copy-arg", c.InstrPos(x),
						"Copy receives the buffer the extents were recorded against", "Copy is given a different slice than the one the extents were recorded against")
				}
			}
		}
	}
	// contract facts: direct (extract of the call) ...
	addContract := func(n, e ssa.Value, arg ssa.Value, name string) {
		if n == nil || e == nil {
			return
		}
		for _, r := range referrers(e) {
			bo, ok := r.(*ssa.BinOp)
			if !ok || !(isNilConst(bo.X) || isNilConst(bo.Y)) {
				continue
			}
			for _, rr := range referrers(bo) {
				iff, ok := rr.(*ssa.If)
				if !ok {
					continue
				}
				idx := 1 // err != nil: false edge is the nil edge
				if bo.Op == token.EQL {
					idx = 0
				}
				sc := iff.Block().Succs[idx]
				if len(sc.Preds) == 1 {
					a.facts = append(a.facts, fact{f: addF(a.lenForm(arg), a.lin(n), -1), scope: sc, why: "contract " + name + ": n <= len(arg)"},
						fact{f: a.lin(n), scope: sc, why: "contract " + name + ": n >= 0"})
				}
			}
		}
	}
	for _, cc := range contracts {
		addContract(cc.n, cc.e, cc.arg, calleeShort(cc.call))
	}
	// ... and through paired phis (n, err := f(...) on two branches, tested after the merge)
	for _, b := range fn.Blocks {
		var nphis, ephis []*ssa.Phi
		for _, ins := range b.Instrs {
			if p, ok := ins.(*ssa.Phi); ok {
				if isInt(p.Type()) {
					nphis = append(nphis, p)
				} else if isErrorType(p.Type()) {
					ephis = append(ephis, p)
				}
			}
		}
		for _, np := range nphis {
			for _, ep := range ephis {
				okPair := len(np.Edges) == len(ep.Edges) && len(np.Edges) > 0
				var argForm *form
				var anyArg ssa.Value
				for i := range np.Edges {
					if !okPair {
						break
					}
					found := false
					for _, cc := range contracts {
						if cc.n == np.Edges[i] && cc.e == ep.Edges[i] {
							found = true
							f := a.lenForm(cc.arg)
							if argForm == nil {
								argForm, anyArg = &f, cc.arg
							} else if !eqTerms(argForm.t, f.t) || argForm.c != f.c {
								okPair = false
							}
						}
					}
					if !found {
						// loop-carried initial values (zero / undefined before the first call) do not pair
						okPair = false
					}
				}
				if okPair && anyArg != nil {
					addContract(np, ep, anyArg, "merged")
				}
			}
		}
	}
	if isCopy {
		// extents stored by Add are in bounds of the same buffer (proved at the Add sites, Reset dominates: rule E2)
		for _, b := range fn.Blocks {
			for _, ins := range b.Instrs {
				if sl, ok := ins.(*ssa.Slice); ok && a.derivedFrom(sl.X) && sl.Low != nil && sl.High != nil {
					lo, hi := a.lin(sl.Low), a.lin(sl.High)
					a.facts = append(a.facts, fact{f: lo, why: "recorded extent invariant off >= 0"},
						fact{f: addF(hi, lo, -1), why: "recorded extent invariant sz >= 0"},
						fact{f: addF(symF("L"), hi, -1), why: "recorded extent invariant off+sz <= len(b)"})
					// the invariant is about (x.off, x.off + x.sz) of an element of p.offs
					lp := path(sl.Low)
					good := strings.HasSuffix(lp, ".off")
					if bo, ok := sl.High.(*ssa.BinOp); !ok || bo.Op != token.ADD || path(bo.X) != lp || path(bo.Y) != strings.TrimSuffix(lp, ".off")+".sz" {
						good = false
					}
					// the element is a copy of an entry of the receiver's offs slice
					if recv, _, _, ok := fieldOf(sl.Low); ok && good {
						good = false
						if al, ok := recv.(*ssa.Alloc); ok {
							for _, r := range referrers(al) {
								if st, ok := r.(*ssa.Store); ok && st.Addr == al && strings.HasPrefix(path(st.Val), fn.Params[0].Name()+".offs[") {
									good = true
								}
							}
						} else if strings.HasPrefix(path(recv), fn.Params[0].Name()+".offs[") {
							good = true
						}
					}
					if s != nil {
						s.check(good, fname+":extent-shape", c.InstrPos(sl), "copies b[x.off : x.off+x.sz] for the recorded extents", "slice of the input in Copy is not a recorded extent [x.off : x.off+x.sz]")
					}
				}
			}
		}
	}

	// induction on loop-carried cursors
	assumed := map[*ssa.Phi]bool{}
	for _, b := range fn.Blocks {
		for _, ins := range b.Instrs {
			p, ok := ins.(*ssa.Phi)
			if !ok || !isSignedInt(p.Type()) {
				continue
			}
			loop := false
			for i := range p.Edges {
				if b.Dominates(b.Preds[i]) {
					loop = true
				}
			}
			if loop {
				assumed[p] = true
			}
		}
	}
	base := append([]fact(nil), a.facts...)
	for changed := true; changed; {
		changed = false
		a.facts = append([]fact(nil), base...)
		for p := range assumed {
			a.facts = append(a.facts, fact{f: addF(symF("L"), a.lin(p), -1), scope: p.Block(), why: "induction " + phiName(p) + " <= len(b)"},
				fact{f: a.lin(p), scope: p.Block(), why: "induction " + phiName(p) + " >= 0"})
		}
		// merge phis (not loop-carried): bounded when every incoming value is bounded at its predecessor
		for _, b := range fn.Blocks {
			for _, ins := range b.Instrs {
				p, ok := ins.(*ssa.Phi)
				if !ok || !isSignedInt(p.Type()) || assumed[p] {
					continue
				}
				loop := false
				for i := range p.Edges {
					if b.Dominates(b.Preds[i]) {
						loop = true
					}
				}
				if loop {
					continue
				}
				le, ge := true, true
				for k, e := range p.Edges {
					ok1, _ := a.prove(addF(symF("L"), a.lin(e), -1), b.Preds[k])
					ok2, _ := a.prove(a.lin(e), b.Preds[k])
					le, ge = le && ok1, ge && ok2
				}
				if le {
					a.facts = append(a.facts, fact{f: addF(symF("L"), a.lin(p), -1), scope: b, why: "merge " + phiName(p) + " <= len(b) on every incoming edge"})
				}
				if ge {
					a.facts = append(a.facts, fact{f: a.lin(p), scope: b, why: "merge " + phiName(p) + " >= 0 on every incoming edge"})
				}
			}
		}
		var ps []*ssa.Phi
		for p := range assumed {
			ps = append(ps, p)
		}
		sort.Slice(ps, func(i, j int) bool { return ps[i].Pos() < ps[j].Pos() || ps[i].Name() < ps[j].Name() })
		for _, p := range ps {
			for k, e := range p.Edges {
				pred := p.Block().Preds[k]
				ok1, _ := a.prove(addF(symF("L"), a.lin(e), -1), pred)
				ok2, _ := a.prove(a.lin(e), pred)
				if !ok1 || !ok2 {
					if os.Getenv("FV_DEBUG") != "" {
						fmt.Fprintf(os.Stderr, "induction failed: %s phi %s edge %d from block %d: %s (le=%v ge=%v)\n", fname, phiName(p), k, pred.Index, a.lin(e), ok1, ok2)
					}
					delete(assumed, p)
					changed = true
					break
				}
			}
			if changed {
				break
			}
		}
	}

	// return contract
	if hasContract(fn) {
		for _, b := range fn.Blocks {
			ret, ok := b.Instrs[len(b.Instrs)-1].(*ssa.Return)
			if !ok || len(ret.Results) != 2 || b == fn.Recover {
				continue // the recover block only runs after a recovered panic; no deferred call here recovers (rule E2 lists the defers)
			}
			nv, ev := ret.Results[0], ret.Results[1]
			// spilled results (functions with defer): *t0 = n; *t1 = err; rundefers; return *t0, *t1
			nv, ev = unspill(nv, b), unspill(ev, b)
			if definitelyNonNilErr(ev, b) {
				continue
			}
			// tail call of a contract callee on the whole input
			if ex, ok := nv.(*ssa.Extract); ok {
				if call, ok := ex.Tuple.(*ssa.Call); ok && ex.Index == 0 {
					if callee := call.Call.StaticCallee(); callee != nil && (closure[callee] && hasContract(callee) || isTrustedSkip(callee)) {
						var arg ssa.Value
						for _, ar := range call.Call.Args {
							if isByteSlice(ar.Type()) {
								arg = ar
							}
						}
						if e2, ok := ev.(*ssa.Extract); ok && e2.Tuple == ex.Tuple && arg != nil && a.derivedFrom(arg) {
							obs = append(obs, boundsOb{addF(symF("L"), a.lenForm(arg), -1), ret, "return-contract (tail call: len(arg) <= len(b))"})
							continue
						}
					}
				}
			}
			obs = append(obs, boundsOb{addF(symF("L"), a.lin(nv), -1), ret, "return-contract n<=len(b)"},
				boundsOb{a.lin(nv), ret, "return-contract n>=0"})
		}
	}

	if s == nil {
		return a
	}
	cnt := map[string]int{}
	for _, o := range obs {
		ok, why := a.prove(o.want, o.at.Block())
		key := fname + ":" + o.what
		cnt[key]++
		if ok {
			s.ok(key, c.InstrPos(o.at), fmt.Sprintf("%s >= 0 by %s", o.want, why))
		} else {
			s.bad(key, c.InstrPos(o.at), fmt.Sprintf("cannot prove %s >= 0 from the dominating guards (possible out-of-range access of the input, or a broken (n, err) contract): %s", o.want, c.srcLine(o.at.Pos())))
		}
	}
	return a
}

func phiName(p *ssa.Phi) string {
	if p.Comment != "" {
		return p.Comment
	}
	return p.Name()
}

// unspill resolves `return *t0` where t0 is a result spill slot stored in the same block.
func unspill(v ssa.Value, b *ssa.BasicBlock) ssa.Value {
	u, ok := v.(*ssa.UnOp)
	if !ok || u.Op != token.MUL {
		return v
	}
	al, ok := u.X.(*ssa.Alloc)
	if !ok {
		return v
	}
	var last ssa.Value
	for _, ins := range b.Instrs {
		if st, ok := ins.(*ssa.Store); ok && st.Addr == al {
			last = st.Val
		}
		if ins == ssa.Instruction(u) {
			break
		}
	}
	if last != nil {
		return last
	}
	return v
}

var _ = types.Typ

// isTrustedSkip: the thrift package's skipper, whose (n, err) contract is assumed (see the property table) - its panics are
// not: rule E4.array-index covers its table lookups.
func isTrustedSkip(f *ssa.Function) bool {
	return f != nil && f.Name() == "Skip" && strings.Contains(f.String(), "gopkg/protocol/thrift")
}

// skipWrapperOf: f is a module function that hands its input and its type-code parameter to the thrift skipper and returns
// the skipper's results; it returns the index of the type-code parameter, or -1.
func skipWrapperOf(f *ssa.Function) int {
	if f == nil || f.Blocks == nil || !hasContract(f) {
		return -1
	}
	for _, b := range f.Blocks {
		for _, ins := range b.Instrs {
			call, ok := ins.(*ssa.Call)
			if !ok || !isTrustedSkip(call.Call.StaticCallee()) {
				continue
			}
			args := call.Call.Args
			if len(args) < 2 || args[len(args)-2] != ssa.Value(inputParam(f)) {
				return -1
			}
			tt := stripConv(args[len(args)-1])
			for k, prm := range f.Params {
				if tt == ssa.Value(prm) {
					return k
				}
			}
		}
	}
	return -1
}

// globalWritten: some function of the module other than package initialisation stores into the global (or an element of it).
func (c *Ctx) globalWritten(g *ssa.Global) bool {
	if c.gwMemo == nil {
		c.gwMemo = map[*ssa.Global]bool{}
		for _, fn := range c.ModuleFuncs() {
			if isInitFn(fn) {
				continue
			}
			for _, b := range fn.Blocks {
				for _, ins := range b.Instrs {
					if st, ok := ins.(*ssa.Store); ok {
						if rg := rootGlobal(st.Addr); rg != nil {
							c.gwMemo[rg] = true
						}
					}
				}
			}
		}
	}
	return c.gwMemo[g]
}
