package main

import (
	"fmt"
	"go/constant"
	"go/token"
	"go/types"
	"sort"
	"strings"

	"golang.org/x/tools/go/ssa"
)

// form is a linear form c + Σ coef·sym over opaque symbols.
type form struct {
	c int64
	t map[string]int64
}

func (f form) String() string {
	var ks []string
	for k := range f.t {
		ks = append(ks, k)
	}
	sort.Strings(ks)
	var sb strings.Builder
	for _, k := range ks {
		fmt.Fprintf(&sb, "%+d*%s ", f.t[k], k)
	}
	fmt.Fprintf(&sb, "%+d", f.c)
	return sb.String()
}
func konst(c int64) form { return form{c: c, t: map[string]int64{}} }
func symF(s string) form { return form{t: map[string]int64{s: 1}} }
func addF(a, b form, sb int64) form {
	r := form{c: a.c + sb*b.c, t: map[string]int64{}}
	for k, v := range a.t {
		r.t[k] += v
	}
	for k, v := range b.t {
		r.t[k] += sb * v
	}
	for k, v := range r.t {
		if v == 0 {
			delete(r.t, k)
		}
	}
	return r
}
func eqTerms(a, b map[string]int64) bool {
	if len(a) != len(b) {
		return false
	}
	for k, v := range a {
		if b[k] != v {
			return false
		}
	}
	return true
}

// fact: f >= 0 in every block dominated by scope (nil scope = everywhere).
type fact struct {
	f     form
	scope *ssa.BasicBlock
	why   string
	neq   bool // f != 0 rather than f >= 0
}

// linAn is the per-function linear-inequality context.
type linAn struct {
	c     *Ctx
	fn    *ssa.Function
	in    ssa.Value // the input slice parameter; len(in) is the symbol L
	facts []fact
	memo  map[ssa.Value]form
	// lenSyms: length symbols of remaining-input variables already given their bounds
	lenSyms map[string]bool
}

func newLinAn(c *Ctx, fn *ssa.Function, in ssa.Value) *linAn {
	return &linAn{c: c, fn: fn, in: in, memo: map[ssa.Value]form{}}
}

// derivedFrom: v is the input slice or a re-slice b[lo:] / b[lo:hi] of it.
func (a *linAn) derivedFrom(v ssa.Value) bool { return a.derivedFromD(v, map[ssa.Value]bool{}) }

func (a *linAn) derivedFromD(v ssa.Value, seen map[ssa.Value]bool) bool {
	for {
		if v == a.in {
			return true
		}
		if seen[v] {
			return true // a cycle through a loop phi: decided by the other edges
		}
		switch s := v.(type) {
		case *ssa.Slice:
			v = s.X
			continue
		case *ssa.Phi:
			// a remaining-input variable (`rest = rest[n:]`): every edge is itself derived from the input
			seen[v] = true
			if !isByteSlice(s.Type()) || len(s.Edges) == 0 {
				return false
			}
			for _, e := range s.Edges {
				if !a.derivedFromD(e, seen) {
					return false
				}
			}
			return true
		}
		return false
	}
}

// lowOnly: v is derived from the input by low-bound re-slicing only (x[lo:]), possibly through loop phis: its length can
// only shrink, so 0 <= len(v) <= len(input).
func (a *linAn) lowOnly(v ssa.Value, seen map[ssa.Value]bool) bool {
	if v == a.in || seen[v] {
		return true
	}
	switch s := v.(type) {
	case *ssa.Slice:
		return s.High == nil && s.Max == nil && a.lowOnly(s.X, seen)
	case *ssa.Phi:
		seen[v] = true
		for _, e := range s.Edges {
			if !a.lowOnly(e, seen) {
				return false
			}
		}
		return len(s.Edges) > 0
	}
	return false
}

// lenForm gives len(v) as a linear form for slices derived from the input (len(in) = L).
func (a *linAn) lenForm(v ssa.Value) form {
	if v == a.in {
		return symF("L")
	}
	if s, ok := v.(*ssa.Slice); ok && s.Max == nil {
		if s.High != nil {
			hi := a.lin(s.High)
			if s.Low == nil {
				return hi
			}
			return addF(hi, a.lin(s.Low), -1)
		}
		base := a.lenForm(s.X)
		if s.Low == nil {
			return base
		}
		return addF(base, a.lin(s.Low), -1)
	}
	if phi, ok := v.(*ssa.Phi); ok && isByteSlice(phi.Type()) && a.lowOnly(phi, map[ssa.Value]bool{}) {
		// the length of a remaining-input variable: a symbol bounded by the input's length (the bounds of every x[lo:]
		// that feeds it are obligations of their own)
		name := "len(" + phi.Name() + ")"
		if !a.lenSyms[name] {
			if a.lenSyms == nil {
				a.lenSyms = map[string]bool{}
			}
			a.lenSyms[name] = true
			a.facts = append(a.facts, fact{f: symF(name), why: "a re-slice of the input has a non-negative length"},
				fact{f: addF(symF("L"), symF(name), -1), why: "low-bound re-slicing only shrinks the input"})
		}
		return symF(name)
	}
	return symF("len(" + v.Name() + ")")
}

// offsetForm gives the offset of slice v's first element relative to the input's first element.
func (a *linAn) offsetForm(v ssa.Value) form {
	if v == a.in {
		return konst(0)
	}
	if s, ok := v.(*ssa.Slice); ok {
		base := a.offsetForm(s.X)
		if s.Low == nil {
			return base
		}
		return addF(base, a.lin(s.Low), 1)
	}
	return symF("off(" + v.Name() + ")")
}

func (a *linAn) lin(v ssa.Value) form {
	if f, ok := a.memo[v]; ok {
		return f
	}
	var r form
	switch x := v.(type) {
	case *ssa.Const:
		if n, ok := constInt(x); ok {
			r = konst(n)
		} else {
			r = symF(v.Name())
		}
	case *ssa.BinOp:
		switch x.Op {
		case token.ADD:
			r = addF(a.lin(x.X), a.lin(x.Y), 1)
		case token.SUB:
			r = addF(a.lin(x.X), a.lin(x.Y), -1)
		default:
			r = symF(v.Name())
		}
	case *ssa.Call:
		if isBuiltin(x, "len") {
			r = a.lenForm(x.Call.Args[0])
		} else {
			r = symF(v.Name())
		}
	case *ssa.Convert:
		// only widening (or same-size) conversions between signed integers preserve the value
		if isInt(x.X.Type()) && isInt(x.Type()) && !isUnsigned(x.X.Type()) && !isUnsigned(x.Type()) &&
			a.c.Sizes.Sizeof(x.Type()) >= a.c.Sizes.Sizeof(x.X.Type()) {
			r = a.lin(x.X)
		} else {
			r = symF(v.Name())
		}
	case *ssa.ChangeType:
		r = a.lin(x.X)
	case *ssa.UnOp:
		// loads of class-I table entries and descriptor fields: named by access path so that equal reads are equal symbols
		if x.Op == token.MUL {
			p := path(x)
			if !strings.Contains(p, "φ") && !strings.HasPrefix(p, "t") || strings.Contains(p, ".") {
				r = symF("ld:" + p)
			} else {
				r = symF(v.Name())
			}
		} else {
			r = symF(v.Name())
		}
	default:
		r = symF(v.Name())
	}
	a.memo[v] = r
	return r
}

// condFacts records the facts established by every conditional branch on integer comparisons.
func (a *linAn) condFacts() {
	for _, b := range a.fn.Blocks {
		iff, ok := b.Instrs[len(b.Instrs)-1].(*ssa.If)
		if !ok {
			continue
		}
		var x, y form
		var cmpOp token.Token
		condDesc := ""
		if bo, ok := iff.Cond.(*ssa.BinOp); ok && isInt(bo.X.Type()) {
			x, y, cmpOp = a.lin(bo.X), a.lin(bo.Y), bo.Op
			condDesc = fmt.Sprintf("%s %%s %s", a.exprStr(bo.X), a.exprStr(bo.Y))
		} else if px, py, pop, neg, ok := a.predicateCall(iff.Cond); ok {
			// a module predicate such as need(b, n) := len(b) >= n, possibly negated
			x, y, cmpOp = px, py, pop
			if neg {
				cmpOp = negateCmp(pop)
			}
			condDesc = fmt.Sprintf("(%s) %%s (%s) [predicate helper]", px, py)
		} else {
			continue
		}
		for k, s := range b.Succs {
			if len(s.Preds) != 1 || b.Succs[0] == b.Succs[1] {
				continue
			}
			op := cmpOp
			if k == 1 {
				switch op {
				case token.LSS:
					op = token.GEQ
				case token.LEQ:
					op = token.GTR
				case token.GTR:
					op = token.LEQ
				case token.GEQ:
					op = token.LSS
				case token.EQL:
					op = token.NEQ
				case token.NEQ:
					op = token.EQL
				}
			}
			why := fmt.Sprintf(condDesc, op)
			switch op {
			case token.LSS:
				a.facts = append(a.facts, fact{f: addF(addF(y, x, -1), konst(1), -1), scope: s, why: why})
			case token.LEQ:
				a.facts = append(a.facts, fact{f: addF(y, x, -1), scope: s, why: why})
			case token.GTR:
				a.facts = append(a.facts, fact{f: addF(addF(x, y, -1), konst(1), -1), scope: s, why: why})
			case token.GEQ:
				a.facts = append(a.facts, fact{f: addF(x, y, -1), scope: s, why: why})
			case token.EQL:
				a.facts = append(a.facts, fact{f: addF(x, y, -1), scope: s, why: why}, fact{f: addF(y, x, -1), scope: s, why: why})
			case token.NEQ:
				a.facts = append(a.facts, fact{f: addF(x, y, -1), scope: s, why: why, neq: true})
			}
		}
	}
}

// tableFacts: a value loaded from a constant package-level table lies between the smallest and the largest entry of the
// table (absent entries are zero).
func (a *linAn) tableFacts() {
	for _, b := range a.fn.Blocks {
		for _, ins := range b.Instrs {
			u, ok := ins.(*ssa.UnOp)
			if !ok || u.Op != token.MUL || !isInt(u.Type()) {
				continue
			}
			ia, ok := u.X.(*ssa.IndexAddr)
			if !ok {
				continue
			}
			g, ok := ia.X.(*ssa.Global)
			if !ok || g.Pkg == nil {
				continue
			}
			tab, _, ok := a.c.tableOf(g.Pkg.Pkg.Path(), g.Name())
			if !ok {
				continue
			}
			lo, hi := int64(0), int64(0)
			okAll := true
			for _, cv := range tab {
				n, isInt := constant.Int64Val(constant.ToInt(cv))
				if !isInt {
					okAll = false
					break
				}
				if n < lo {
					lo = n
				}
				if n > hi {
					hi = n
				}
			}
			if !okAll {
				continue
			}
			// no store into the table anywhere in the module (class-I tables are read-only)
			if a.c.globalWritten(g) {
				continue
			}
			x := a.lin(u)
			why := fmt.Sprintf("entries of %s are in [%d, %d]", g.Name(), lo, hi)
			a.facts = append(a.facts, fact{f: addF(x, konst(lo), -1), why: why}, fact{f: addF(konst(hi), x, -1), why: why})
		}
	}
}

func (a *linAn) exprStr(v ssa.Value) string {
	s := a.lin(v).String()
	return "(" + s + ")"
}

// inScope: fact holds at block q.
func inScope(f fact, q *ssa.BasicBlock) bool {
	return f.scope == nil || f.scope == q || f.scope.Dominates(q)
}

// prove want >= 0 at block q as a sum of at most three in-scope facts (unit coefficients) plus non-negative slack.
func (a *linAn) prove0(want form, q *ssa.BasicBlock) (bool, string) {
	if len(want.t) == 0 {
		return want.c >= 0, "constant"
	}
	var fs []fact
	for _, f := range a.facts {
		if !f.neq && inScope(f, q) {
			fs = append(fs, f)
		}
	}
	// x != 0 together with x >= 0 gives x >= 1 (and with -x >= 0 gives -x >= 1)
	for _, f := range a.facts {
		if !f.neq || !inScope(f, q) {
			continue
		}
		for _, g := range fs {
			if eqTerms(g.f.t, f.f.t) && g.f.c == f.f.c {
				fs = append(fs, fact{f: addF(f.f, konst(1), -1), scope: f.scope, why: g.why + " & " + f.why})
				break
			}
		}
	}
	fs = append(fs, fact{f: konst(0), why: "0"})
	n := len(fs)
	for i := 0; i < n; i++ {
		for j := i; j < n; j++ {
			s2 := addF(fs[i].f, fs[j].f, 1)
			for k := j; k < n; k++ {
				s := addF(s2, fs[k].f, 1)
				if eqTerms(s.t, want.t) && s.c <= want.c {
					var ws []string
					for _, w := range []string{fs[i].why, fs[j].why, fs[k].why} {
						if w != "0" {
							ws = append(ws, w)
						}
					}
					return true, strings.Join(dedup(ws), " ∧ ")
				}
			}
		}
	}
	return false, ""
}

// prove tries prove0 and, failing that, case-splits on a merge phi (not loop-carried) occurring in want:
// the claim is proved for each incoming value at the corresponding predecessor.
func (a *linAn) prove(want form, q *ssa.BasicBlock) (bool, string) {
	return a.proveD(want, q, 0)
}

func (a *linAn) proveD(want form, q *ssa.BasicBlock, depth int) (bool, string) {
	if ok, why := a.prove0(want, q); ok {
		return true, why
	}
	if depth >= 2 {
		return false, ""
	}
	var names []string
	for k := range want.t {
		names = append(names, k)
	}
	sort.Strings(names)
	for _, name := range names {
		p := a.phiByName(name)
		if p == nil {
			continue
		}
		b := p.Block()
		if !(b == q || b.Dominates(q)) {
			continue
		}
		loop := false
		for i := range p.Edges {
			if b.Dominates(b.Preds[i]) {
				loop = true
			}
		}
		if loop {
			continue
		}
		all := true
		var whys []string
		for i, e := range p.Edges {
			w := form{c: want.c, t: map[string]int64{}}
			for k, v := range want.t {
				if k != name {
					w.t[k] = v
				}
			}
			w = addF(w, scale(a.lin(e), want.t[name]), 1)
			ok, why := a.proveD(w, b.Preds[i], depth+1)
			if !ok {
				all = false
				break
			}
			whys = append(whys, why)
		}
		if all {
			return true, "case split on " + name + ": " + strings.Join(dedup(whys), " | ")
		}
	}
	return false, ""
}

func scale(f form, k int64) form {
	r := form{c: f.c * k, t: map[string]int64{}}
	for s, v := range f.t {
		r.t[s] = v * k
	}
	return r
}

func (a *linAn) phiByName(name string) *ssa.Phi {
	for _, b := range a.fn.Blocks {
		for _, in := range b.Instrs {
			p, ok := in.(*ssa.Phi)
			if !ok {
				break
			}
			if p.Name() == name && isInt(p.Type()) {
				return p
			}
		}
	}
	return nil
}

func isSignedInt(t types.Type) bool { return isInt(t) && !isUnsigned(t) }

func negateCmp(op token.Token) token.Token {
	switch op {
	case token.LSS:
		return token.GEQ
	case token.LEQ:
		return token.GTR
	case token.GTR:
		return token.LEQ
	case token.GEQ:
		return token.LSS
	case token.EQL:
		return token.NEQ
	case token.NEQ:
		return token.EQL
	}
	return op
}

// predicateCall recognises cond = p(args...) or !p(args...) where p is a module function whose body is a single
// `return <a> OP <b>` with a, b built from its parameters, len(parameter) and constants; it returns the comparison
// instantiated at the call's arguments.
func (a *linAn) predicateCall(cond ssa.Value) (x, y form, op token.Token, negated, ok bool) {
	if u, isU := cond.(*ssa.UnOp); isU && u.Op == token.NOT {
		x, y, op, negated, ok = a.predicateCall(u.X)
		return x, y, op, !negated, ok
	}
	call, isC := cond.(*ssa.Call)
	if !isC {
		return
	}
	f := call.Call.StaticCallee()
	if f == nil || f.Blocks == nil || len(f.Blocks) != 1 || !a.c.InModule(f) {
		return
	}
	ret, isR := f.Blocks[0].Instrs[len(f.Blocks[0].Instrs)-1].(*ssa.Return)
	if !isR || len(ret.Results) != 1 {
		return
	}
	bo, isB := ret.Results[0].(*ssa.BinOp)
	if !isB || !isInt(bo.X.Type()) {
		return
	}
	var inst func(v ssa.Value) (form, bool)
	inst = func(v ssa.Value) (form, bool) {
		switch z := v.(type) {
		case *ssa.Const:
			if n, ok := constInt(z); ok {
				return konst(n), true
			}
		case *ssa.Parameter:
			for i, p := range f.Params {
				if p == z && i < len(call.Call.Args) {
					return a.lin(call.Call.Args[i]), true
				}
			}
		case *ssa.Call:
			if isBuiltin(z, "len") {
				if p, ok := z.Call.Args[0].(*ssa.Parameter); ok {
					for i, q := range f.Params {
						if q == p && i < len(call.Call.Args) {
							return a.lenForm(call.Call.Args[i]), true
						}
					}
				}
			}
		case *ssa.BinOp:
			l, ok1 := inst(z.X)
			r, ok2 := inst(z.Y)
			if ok1 && ok2 {
				switch z.Op {
				case token.ADD:
					return addF(l, r, 1), true
				case token.SUB:
					return addF(l, r, -1), true
				}
			}
		case *ssa.Convert:
			if isSignedInt(z.Type()) && isSignedInt(z.X.Type()) {
				return inst(z.X)
			}
		}
		return form{}, false
	}
	fx, ok1 := inst(bo.X)
	fy, ok2 := inst(bo.Y)
	if !ok1 || !ok2 {
		return
	}
	return fx, fy, bo.Op, false, true
}
