package main

import (
	"go/constant"
	"go/token"
	"strings"

	"golang.org/x/tools/go/ssa"
)

func init() {
	register(&Rule{ID: "X.error-propagation", Min: 8,
		Text: "in the decode closure, a return on the failure edge of a call (err != nil of a decoder routine or of the thrift skipper) returns that error itself or an error that wraps it (fmt.Errorf with %w and the error among its operands, or a module helper that does so): the protocol-exception kind of the cause (DEPTH_LIMIT, SIZE_LIMIT, NEGATIVE_SIZE, INVALID_DATA) stays observable through errors.As at every nesting level",
		Run:  ruleErrorPropagation})
}

// callOperands: the values passed to a call, with the elements of a variadic slice built at the call site.
func callOperands(call *ssa.Call) []ssa.Value {
	var out []ssa.Value
	for _, a := range call.Call.Args {
		out = append(out, a)
		if sl, ok := a.(*ssa.Slice); ok {
			if al, ok := sl.X.(*ssa.Alloc); ok {
				for _, r := range referrers(al) {
					if ia, ok := r.(*ssa.IndexAddr); ok {
						for _, rr := range referrers(ia) {
							if st, ok := rr.(*ssa.Store); ok {
								out = append(out, st.Val)
							}
						}
					}
				}
			}
		}
	}
	return out
}

func unwrapIface(v ssa.Value) ssa.Value {
	for {
		switch x := v.(type) {
		case *ssa.MakeInterface:
			v = x.X
		case *ssa.ChangeInterface:
			v = x.X
		default:
			return v
		}
	}
}

// carries: error value ev is err itself or wraps it.
func carries(ev, err ssa.Value, depth int) bool {
	if depth > 4 {
		return false
	}
	if ev == err {
		return true
	}
	switch x := ev.(type) {
	case *ssa.Phi:
		for _, e := range x.Edges {
			if !carries(e, err, depth+1) {
				return false
			}
		}
		return len(x.Edges) > 0
	case *ssa.Call:
		has := false
		for _, a := range callOperands(x) {
			if unwrapIface(a) == err {
				has = true
			}
		}
		if !has {
			return false
		}
		f := x.Call.StaticCallee()
		if f == nil {
			return false
		}
		if fnPkgPath(f) == "fmt" && f.Name() == "Errorf" {
			if cv, ok := x.Call.Args[0].(*ssa.Const); ok && cv.Value != nil && cv.Value.Kind() == constant.String {
				return strings.Contains(constant.StringVal(cv.Value), "%w")
			}
			return false
		}
		// a module helper that receives the error: it must itself return its parameter or wrap it
		if f.Blocks != nil {
			for k, prm := range f.Params {
				if k < len(x.Call.Args) && unwrapIface(x.Call.Args[k]) == err && isErrorType(prm.Type()) {
					okAll := true
					n := 0
					for _, b := range f.Blocks {
						ret, ok := b.Instrs[len(b.Instrs)-1].(*ssa.Return)
						if !ok || len(ret.Results) == 0 {
							continue
						}
						n++
						if !carries(unspill(ret.Results[len(ret.Results)-1], b), prm, depth+1) {
							okAll = false
						}
					}
					return okAll && n > 0
				}
			}
		}
	}
	return false
}

func ruleErrorPropagation(c *Ctx) []Ob {
	s := newSink(c, "X.error-propagation")
	closure := c.decodeClosure()
	for _, fn := range c.decodeClosureFns() {
		for _, b := range fn.Blocks {
			for _, ins := range b.Instrs {
				call, ok := ins.(*ssa.Call)
				if !ok {
					continue
				}
				callee := call.Call.StaticCallee()
				if callee == nil || !(closure[callee] || isTrustedSkip(callee)) {
					continue
				}
				var errv ssa.Value
				if isErrorType(call.Type()) {
					errv = call
				}
				for _, r := range referrers(call) {
					if ex, ok := r.(*ssa.Extract); ok && isErrorType(ex.Type()) {
						errv = ex
					}
				}
				if errv == nil {
					continue
				}
				// the error is not dropped: it reaches a return or a wrapping call
				s.check(errFlows(errv), shortFn(fn)+":"+callee.Name()+":flows", c.InstrPos(call), "the error of "+callee.Name()+" reaches a return or a wrapping call", "the error of "+callee.Name()+" is only tested and then dropped: whatever is returned on its failure does not carry the cause (its protocol-exception kind is lost)")
				// failure edges of this error (or of the variable it is merged into)
				cands := []ssa.Value{errv}
				for _, r := range referrers(errv) {
					if phi, ok := r.(*ssa.Phi); ok && isErrorType(phi.Type()) {
						cands = append(cands, phi)
					}
				}
				for _, errv := range cands {
					for _, r := range referrers(errv) {
						bo, ok := r.(*ssa.BinOp)
						if !ok || !(isNilConst(bo.X) || isNilConst(bo.Y)) || bo.Op != token.NEQ && bo.Op != token.EQL {
							continue
						}
						for _, r2 := range referrers(bo) {
							iff, ok := r2.(*ssa.If)
							if !ok {
								continue
							}
							fail := iff.Block().Succs[0]
							if bo.Op == token.EQL {
								fail = iff.Block().Succs[1]
							}
							if len(fail.Preds) != 1 {
								continue
							}
							for _, rb := range fn.Blocks {
								if !(rb == fail || fail.Dominates(rb)) {
									continue
								}
								ret, ok := rb.Instrs[len(rb.Instrs)-1].(*ssa.Return)
								if !ok || len(ret.Results) == 0 {
									continue
								}
								ev := unspill(ret.Results[len(ret.Results)-1], rb)
								if !isErrorType(ev.Type()) {
									continue
								}
								key := shortFn(fn) + ":" + callee.Name()
								s.check(carries(ev, errv, 0), key, c.InstrPos(ret), "failure of "+callee.Name()+" is returned as is or wrapped with %w", "the error of "+callee.Name()+" is replaced by "+path(ev)+" on its failure edge: the cause's protocol-exception kind (depth limit, size limit, invalid data) is no longer observable: "+c.srcLine(ret.Pos()))
							}
						}
					}
				}
			}
		}
	}
	return s.obs
}

// errFlows: the error value reaches a return of its function or an operand of a call that wraps it (fmt.Errorf with %w or a
// module helper), through phis, interface conversions, result spills and variadic argument arrays.
func errFlows(errv ssa.Value) bool {
	seen := map[ssa.Value]bool{}
	var visit func(v ssa.Value, d int) bool
	visit = func(v ssa.Value, d int) bool {
		if seen[v] || d > 8 {
			return false
		}
		seen[v] = true
		for _, r := range referrers(v) {
			switch x := r.(type) {
			case *ssa.Return:
				return true
			case *ssa.Phi:
				if visit(x, d+1) {
					return true
				}
			case *ssa.MakeInterface:
				if visit(x, d+1) {
					return true
				}
			case *ssa.ChangeInterface:
				if visit(x, d+1) {
					return true
				}
			case *ssa.Store:
				if x.Val != v {
					continue
				}
				root := rootOfAddr(x.Addr)
				if al, ok := root.(*ssa.Alloc); ok && visit(al, d+1) {
					return true
				}
			case *ssa.UnOp:
				if x.Op == token.MUL && visit(x, d+1) {
					return true
				}
			case *ssa.Slice:
				if visit(x, d+1) {
					return true
				}
			case *ssa.IndexAddr, *ssa.FieldAddr:
			case *ssa.Call:
				f := x.Call.StaticCallee()
				if f == nil {
					continue
				}
				if fnPkgPath(f) == "fmt" && f.Name() == "Errorf" {
					if cv, ok := x.Call.Args[0].(*ssa.Const); ok && cv.Value != nil && cv.Value.Kind() == constant.String && strings.Contains(constant.StringVal(cv.Value), "%w") {
						return true
					}
					continue
				}
				if f.Blocks != nil {
					for k, prm := range f.Params {
						if k < len(x.Call.Args) && x.Call.Args[k] == v && isErrorType(prm.Type()) && carries(x, v, 0) {
							return true
						}
					}
				}
			}
		}
		return false
	}
	return visit(errv, 0)
}
