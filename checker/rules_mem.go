package main

import (
	"fmt"
	"go/constant"
	"go/token"
	"go/types"
	"sort"
	"strings"

	"golang.org/x/tools/go/ssa"
)

func init() {
	register(&Rule{ID: "E9.input-alias", Min: 6,
		Text: "memory derived from the input buffer (&b[..], b[x:y], unsafe.Slice/String/SliceData of those) is never stored into a destination, returned, or written to, outside the zero-copy routine; the zero-copy routine is called only under the field's NoCopy flag (and is called there), stores a view unsafe.Slice/String(&b[strHeaderLen], l) (capacity == length) only on the l != 0 edge, and stores a value not derived from b for l == 0; the decoder never writes through the input",
		Run:  ruleInputAlias})
	register(&Rule{ID: "E9.scan-class", Min: 5,
		Text: "pointer-bearing data never lives in GC-unscanned memory and typed memory is zeroed: newTType sets MallocAbiType, conditioned on nothing but the Go kind, for a superset of {Map, Ptr, Slice, String, Struct}; (*tDecoder).Malloc sends every typed request to mallocgc(n, typ, needzero = true) and only untyped small requests to the bump span; untyped runtime allocations are byte data",
		Run:  ruleScanClass})
	register(&Rule{ID: "E9.alloc-triple", Min: 8,
		Text: "every (*tDecoder).Malloc takes size, alignment and type from the same descriptor X (n*X.Size, X.Align, X.MallocAbiType) or is the string-data form (l, 1, 0); pointers rooted at that allocation advance by that same X.Size; decoded slice headers get Data = the allocation and Len == Cap == the element count; string data is copied for exactly l bytes; empty lists use the zerobase sentinel",
		Run:  ruleAllocTriple})
	register(&Rule{ID: "E9.bump", Min: 4,
		Text: "the bump allocator has the recognised shape: capacity test on p+n+(align-1) against the block size, refill with a fresh block of max(default, n+align-1) and p = 0, round-up off = ((addr+mask) &^ mask) - addr, advance p by n+off, return base+p+off; span state (p, b, n) is written only by init and Malloc, so a handed-out range is never re-issued; any other shape is undecided",
		Run:  ruleBump})
}

// inputTaint computes the values aliasing the memory of the input slice in fn.
func inputTaint(a *linAn) map[ssa.Value]bool {
	t := map[ssa.Value]bool{}
	fn := a.fn
	for changed := true; changed; {
		changed = false
		mark := func(v ssa.Value) {
			if !t[v] {
				t[v] = true
				changed = true
			}
		}
		for _, b := range fn.Blocks {
			for _, ins := range b.Instrs {
				switch x := ins.(type) {
				case *ssa.IndexAddr:
					if a.derivedFrom(x.X) || t[x.X] {
						mark(x)
					}
				case *ssa.Slice:
					if a.derivedFrom(x.X) || t[x.X] {
						mark(x)
					}
				case *ssa.Convert:
					if t[x.X] && (isUnsafePointer(x.Type()) || isPointerType(x.Type())) {
						mark(x)
					}
				case *ssa.ChangeType:
					if t[x.X] {
						mark(x)
					}
				case *ssa.Phi:
					for _, e := range x.Edges {
						if t[e] || e == a.in {
							mark(x)
						}
					}
				case *ssa.Call:
					if bi, ok := x.Call.Value.(*ssa.Builtin); ok {
						switch bi.Name() {
						case "Slice", "String", "Add", "SliceData", "StringData":
							if t[x.Call.Args[0]] || a.derivedFrom(x.Call.Args[0]) {
								mark(x)
							}
						}
					}
				}
			}
		}
	}
	return t
}

func ruleInputAlias(c *Ctx) []Ob {
	s := newSink(c, "E9.input-alias")
	fns, closure := decodeFns(c)
	nocopy := c.SSA[pkgReflect].Func("decodeStringNoCopy")
	if nocopy == nil {
		s.bad("roles", "-", "zero-copy routine decodeStringNoCopy not found")
	}
	hdrLen, _ := c.constOf(pkgReflect, "strHeaderLen")
	for _, fn := range fns {
		a := c.bounds(fn, closure)
		t := inputTaint(a)
		fname := shortFn(fn)
		nsites := 0
		for _, b := range fn.Blocks {
			for _, ins := range b.Instrs {
				switch x := ins.(type) {
				case *ssa.Store:
					// write through the input
					if t[x.Addr] {
						nsites++
						s.bad(fname+":write-input", c.InstrPos(x), "the decoder writes into the input buffer: "+c.srcLine(x.Pos()))
						continue
					}
					if !t[x.Val] && !(a.derivedFrom(x.Val)) {
						continue
					}
					if al, ok := x.Addr.(*ssa.Alloc); ok && !al.Heap {
						continue // spill of a local
					}
					nsites++
					key := fname + ":store-alias"
					if fn != nocopy {
						s.bad(key, c.InstrPos(x), "a view of the input buffer is stored outside the zero-copy routine: a field without the nocopy option would change when the caller reuses the buffer: "+c.srcLine(x.Pos()))
						continue
					}
					// in the zero-copy routine: shape of the view
					good, why := viewShape(c, a, x.Val, hdrLen)
					// only on the l != 0 edge
					nonEmpty := false
					for _, cd := range domConds(b) {
						if bo, ok := cd.V.(*ssa.BinOp); ok {
							if z, ok := constInt(bo.Y); ok && z == 0 && wireSource(a, bo.X) {
								if bo.Op == token.EQL && !cd.Truth || bo.Op == token.NEQ && cd.Truth || bo.Op == token.GTR && cd.Truth || bo.Op == token.LEQ && !cd.Truth {
									nonEmpty = true
								}
							}
						}
					}
					if !nonEmpty {
						good, why = false, "the view is stored also for a zero-length value (an empty field would pin and reference the buffer)"
					}
					s.check(good, key, c.InstrPos(x), "view = unsafe.Slice/String(&b[strHeaderLen], l), only for l != 0", why+": "+c.srcLine(x.Pos()))
				case *ssa.Return:
					for _, r := range x.Results {
						if t[r] || a.derivedFrom(r) && r != a.in {
							nsites++
							s.bad(fname+":return-alias", c.InstrPos(x), "a slice of the input buffer is returned (and then stored by the caller) outside the zero-copy routine: "+c.srcLine(x.Pos()))
						}
					}
				case *ssa.Call:
					if isBuiltin(x, "copy") && (t[x.Call.Args[0]] || a.derivedFrom(x.Call.Args[0])) {
						nsites++
						s.bad(fname+":write-input", c.InstrPos(x), "copy() into the input buffer")
					}
				}
			}
		}
		if nsites == 0 {
			s.ok(fname+":no-alias", c.Pos(fn.Pos()), "no value aliasing the input is stored, returned or written")
		}
	}
	// inside the zero-copy routine every write of the destination is a view of the input, except the empty value on the
	// zero-length edge: a "cheap copy" for some lengths (an interned one-byte string, a small-string cache) makes the field
	// stop following the buffer for exactly those values
	if nocopy != nil && len(nocopy.Params) > 0 {
		var dest *ssa.Parameter
		for _, p := range nocopy.Params {
			if b, ok := p.Type().Underlying().(*types.Basic); ok && b.Kind() == types.UnsafePointer {
				dest = p
			}
		}
		a := c.bounds(nocopy, closure)
		var fromDest func(v ssa.Value, d int) bool
		fromDest = func(v ssa.Value, d int) bool {
			if d > 6 || dest == nil {
				return false
			}
			switch x := v.(type) {
			case *ssa.Parameter:
				return x == dest
			case *ssa.Convert:
				return fromDest(x.X, d+1)
			case *ssa.ChangeType:
				return fromDest(x.X, d+1)
			case *ssa.FieldAddr:
				return fromDest(x.X, d+1)
			}
			return false
		}
		lenEdge := func(b *ssa.BasicBlock) (zero, nonZero bool) {
			for _, cd := range domConds(b) {
				if bo, ok := cd.V.(*ssa.BinOp); ok {
					if z, ok := constInt(bo.Y); ok && z == 0 && wireSource(a, bo.X) {
						if bo.Op == token.EQL && cd.Truth || bo.Op == token.NEQ && !cd.Truth {
							zero = true
						}
						if bo.Op == token.EQL && !cd.Truth || bo.Op == token.NEQ && cd.Truth || bo.Op == token.GTR && cd.Truth || bo.Op == token.LEQ && !cd.Truth {
							nonZero = true
						}
					}
				}
			}
			return
		}
		t := inputTaint(a)
		for _, b := range nocopy.Blocks {
			for _, ins := range b.Instrs {
				switch x := ins.(type) {
				case *ssa.Store:
					if !fromDest(x.Addr, 0) {
						continue
					}
					if t[x.Val] || a.derivedFrom(x.Val) {
						continue // a view: its shape is checked above
					}
					zero, _ := lenEdge(b)
					s.check(zero, "decodeStringNoCopy:dest-write", c.InstrPos(x), "the only value written that is not a view of the input is the empty one, on the zero-length edge",
						"the zero-copy routine stores a value that is not a view of the input on a path where the length is not known to be zero: for those values a nocopy field is a copy and no longer follows the buffer: "+c.srcLine(x.Pos()))
				case *ssa.Call:
					passes := false
					for _, arg := range x.Call.Args {
						if fromDest(arg, 0) {
							passes = true
						}
					}
					if !passes || x.Call.StaticCallee() == nil {
						continue
					}
					zero, _ := lenEdge(b)
					s.check(zero, "decodeStringNoCopy:dest-write", c.InstrPos(x), "the destination is handed to a helper only on the zero-length edge",
						"the zero-copy routine hands the destination to "+x.Call.StaticCallee().Name()+" on a path where the length is not known to be zero: "+c.srcLine(x.Pos()))
				}
			}
		}
	}
	// the empty-slice helper overwrites all three words of the header on every path: a destination that is being reused (a
	// second decode into the same object, a pooled map slot) must not keep the Data / Cap of an earlier value - for a nocopy
	// binary that is a view of an earlier input buffer with spare capacity
	if zf := c.Func(pkgReflect, "(*sliceHeader).Zero"); zf != nil && len(zf.Params) > 0 {
		stored := map[string]bool{}
		for _, b := range zf.Blocks {
			all := true
			for _, r := range zf.Blocks {
				if len(r.Instrs) > 0 {
					if _, isRet := r.Instrs[len(r.Instrs)-1].(*ssa.Return); isRet && !(b == r || b.Dominates(r)) {
						all = false
					}
				}
			}
			if !all {
				continue
			}
			for _, ins := range b.Instrs {
				if st, ok := ins.(*ssa.Store); ok {
					if fa, ok := st.Addr.(*ssa.FieldAddr); ok && fa.X == ssa.Value(zf.Params[0]) {
						f := fieldName(fa.X.Type(), fa.Field)
						switch f {
						case "Len", "Cap":
							if z, ok := constInt(st.Val); ok && z == 0 {
								stored[f] = true
							}
						case "Data":
							if cst, isC := st.Val.(*ssa.Const); !isC || cst.Value != nil {
								stored[f] = true
							}
						}
					}
				}
			}
		}
		s.check(stored["Data"] && stored["Len"] && stored["Cap"], "sliceHeader.Zero:complete", c.Pos(zf.Pos()), "Data, Len and Cap are overwritten on every path",
			fmt.Sprintf("sliceHeader.Zero does not overwrite all three words on every path (unconditional stores: %v): a reused destination keeps the backing array and capacity of its previous value - for a nocopy binary a window into an earlier input buffer that an append then writes to", keysOf(stored)))
	}
	// the bytes handed to the holder are a slice whose capacity is its length: carved out of a retained block with a
	// two-index slice they would share spare capacity with the holder of the struct decoded next (an append to one
	// overwrites the other)
	if cp := c.Func(pkgReflect, "(*unknownFields).Copy"); cp != nil {
		var exact func(v ssa.Value, d int) (bool, string)
		exact = func(v ssa.Value, d int) (bool, string) {
			if d > 8 {
				return false, "origin too deep"
			}
			switch x := v.(type) {
			case *ssa.Call:
				if isBuiltin(x, "Slice") {
					return true, ""
				}
				if f := x.Call.StaticCallee(); f != nil && f.Blocks != nil && c.InModule(f) {
					n := 0
					for _, fb := range f.Blocks {
						if ret, ok := fb.Instrs[len(fb.Instrs)-1].(*ssa.Return); ok && len(ret.Results) == 1 && fb != f.Recover {
							n++
							if ok2, why := exact(unspill(ret.Results[0], fb), d+1); !ok2 {
								return false, why
							}
						}
					}
					return n > 0, "helper " + f.Name() + " has no single-result return"
				}
				return false, "result of " + calleeShort(x)
			case *ssa.MakeSlice:
				if x.Len == x.Cap {
					return true, ""
				}
				return false, "make with a capacity different from the length"
			case *ssa.Slice:
				if x.Max != nil {
					if x.Max == x.High {
						return true, ""
					}
					return false, "three-index slice whose capacity differs from its length"
				}
				if ok, _ := exact(x.X, d+1); ok && x.Low == nil {
					// a prefix of a block made for this value alone
					if _, isFresh := x.X.(*ssa.Call); isFresh {
						return true, ""
					}
					if _, isFresh := x.X.(*ssa.MakeSlice); isFresh {
						return true, ""
					}
				}
				return false, "two-index slice " + path(x) + " of " + path(x.X) + ": the rest of that block stays reachable as spare capacity"
			case *ssa.Phi:
				for _, e := range x.Edges {
					if ok, why := exact(e, d+1); !ok {
						return false, why
					}
				}
				return true, ""
			case *ssa.Const:
				return x.Value == nil, "constant"
			case *ssa.ChangeType:
				return exact(x.X, d+1)
			}
			return false, "value " + path(v)
		}
		for _, b := range cp.Blocks {
			if ret, ok := b.Instrs[len(b.Instrs)-1].(*ssa.Return); ok && len(ret.Results) == 1 && b != cp.Recover {
				ok2, why := exact(unspill(ret.Results[0], b), 0)
				s.check(ok2, "unknownFields.Copy:result-exact", c.InstrPos(ret), "the holder bytes are a slice with capacity == length (unsafe.Slice / make / full slice expression)",
					"the bytes handed to the holder are not known to have capacity == length ("+why+"): holders of different structs would share memory past their length")
			}
		}
	}
	// call sites of the zero-copy routine
	if nocopy != nil {
		n := 0
		for _, fn := range c.ModuleFuncs(pkgReflect) {
			for _, b := range fn.Blocks {
				for _, ins := range b.Instrs {
					call, ok := ins.(*ssa.Call)
					if !ok || call.Call.StaticCallee() != nocopy {
						continue
					}
					n++
					under := false
					for _, cd := range domConds(b) {
						if _, typ, f, ok := fieldOf(cd.V); ok && typ == "tField" && f == "NoCopy" && cd.Truth {
							under = true
							// the other edge copies
							other := cd.If.Block().Succs[1]
							copies := false
							for _, in2 := range other.Instrs {
								if c2, ok := in2.(*ssa.Call); ok && c2.Call.StaticCallee() != nil && shortFn(c2.Call.StaticCallee()) == "tDecoder.decodeType" {
									copies = true
								}
							}
							s.check(copies, shortFn(fn)+":copy-edge", c.InstrPos(cd.If), "fields without the option take the copying decoder", "the !NoCopy edge does not use the copying decoder")
						}
					}
					s.check(under, shortFn(fn)+":nocopy-call", c.InstrPos(call), "zero-copy routine only under f.NoCopy", "the zero-copy routine is called without testing the field's NoCopy flag: ordinary fields would alias the input")
				}
			}
		}
		if n == 0 {
			s.bad("nocopy-call", c.Pos(nocopy.Pos()), "the zero-copy routine is never called: nocopy fields are silently copied")
		}
	}
	return s.obs
}

// viewShape: v is unsafe.Slice/String(&b[h], l) with h == strHeaderLen (capacity == length), or a full 3-index slice.
func viewShape(c *Ctx, a *linAn, v ssa.Value, hdrLen int64) (bool, string) {
	switch x := v.(type) {
	case *ssa.Call:
		bi, ok := x.Call.Value.(*ssa.Builtin)
		if !ok || bi.Name() != "Slice" && bi.Name() != "String" {
			return false, "stored view is produced by " + calleeShort(x)
		}
		ia, ok := x.Call.Args[0].(*ssa.IndexAddr)
		if !ok || !a.derivedFrom(ia.X) {
			return false, "view does not start at &b[strHeaderLen]"
		}
		start := addF(a.offsetForm(ia.X), a.lin(ia.Index), 1)
		if len(start.t) != 0 || start.c != hdrLen {
			return false, fmt.Sprintf("view starts at offset %s, expected %d (just past the length header)", start, hdrLen)
		}
		if !wireSource(a, x.Call.Args[1]) {
			return false, "view length is not the wire length"
		}
		return true, ""
	case *ssa.Slice:
		if x.Max == nil {
			return false, "view is a two-index slice of the input: it keeps the rest of the buffer as spare capacity, so an append through the field overwrites the following bytes of the message"
		}
		if !eqForm(a.lin(x.Max), a.lin(x.High)) {
			return false, "view capacity differs from its length"
		}
		return true, ""
	}
	return false, "stored view has an unrecognised origin"
}

func ruleScanClass(c *Ctx) []Ob {
	s := newSink(c, "E9.scan-class")
	// reflect.Kind constants
	kind := func(n string) int64 {
		if p := c.ByPath["reflect"]; p != nil {
			if k, ok := p.Types.Scope().Lookup(n).(*types.Const); ok {
				v, _ := constant.Int64Val(k.Val())
				return v
			}
		}
		return -1
	}
	need := map[string]int64{"Map": kind("Map"), "Ptr": kind("Ptr"), "Slice": kind("Slice"), "String": kind("String"), "Struct": kind("Struct")}
	var nt *ssa.Function
	for _, fn := range c.ModuleFuncs(pkgReflect) {
		for _, b := range fn.Blocks {
			for _, ins := range b.Instrs {
				if st, ok := ins.(*ssa.Store); ok {
					if _, typ, f, ok := fieldOf(st.Addr); ok && typ == "tType" && f == "MallocAbiType" {
						nt = fn
					}
				}
			}
		}
	}
	if nt == nil {
		s.bad("newTType:MallocAbiType", "-", "MallocAbiType is never set")
	} else {
		found := false
		for _, b := range nt.Blocks {
			for _, ins := range b.Instrs {
				st, ok := ins.(*ssa.Store)
				if !ok {
					continue
				}
				if _, typ, f, ok := fieldOf(st.Addr); !ok || typ != "tType" || f != "MallocAbiType" {
					continue
				}
				found = true
				// the value may come from a helper that maps the Go kind to the type pointer or 0: evaluate it per kind
				if hc, ok := st.Val.(*ssa.Call); ok && hc.Call.StaticCallee() != nil && hc.Call.StaticCallee().Blocks != nil && len(hc.Call.StaticCallee().Params) == 1 && len(domCondsKindOnly(b)) == 0 && hc.Call.StaticCallee().Name() != "rtTypePtr" {
					h := hc.Call.StaticCallee()
					var missing []string
					for n, v := range need {
						w := &kindWalker{c: c, fn: h, param: h.Params[0], kind: v, pkg: pkgReflect, env: map[ssa.Value]kval{}, symCalls: map[string]bool{"rtTypePtr": true}}
						end, _, at := w.run("-")
						okK := false
						if ret, isRet := at.(*ssa.Return); isRet && end == "return" && len(ret.Results) == 1 {
							if rv := w.val(ret.Results[0], 0); rv.sym != "" {
								okK = true
							}
						}
						if !okK {
							missing = append(missing, n)
						}
					}
					sort.Strings(missing)
					s.check(len(missing) == 0, "newTType:MallocAbiType", c.InstrPos(st), "set for every pointer-bearing Go kind, conditioned on the kind only (helper "+h.Name()+" evaluated per kind)",
						fmt.Sprintf("MallocAbiType is not set for kinds %v / is subject to further conditions: such values would be placed in memory the GC does not scan (dangling pointers after a collection) and that is not zeroed (absent fields keep garbage)", missing))
					continue
				}
				cs, subj := caseSet(b, "")
				have := map[int64]bool{}
				for _, v := range cs {
					have[v] = true
				}
				// the value merged from the arms of a kind switch (an expanded helper): the kinds of the arms that give a
				// type pointer, the other arms giving 0
				if phi, isPhi := st.Val.(*ssa.Phi); isPhi && cs == nil {
					okPhi := true
					for i, e := range phi.Edges {
						if z, isC := constInt(e); isC && z == 0 {
							continue
						}
						if ec, isCall := e.(*ssa.Call); !isCall || ec.Call.StaticCallee() == nil || ec.Call.StaticCallee().Name() != "rtTypePtr" {
							okPhi = false
							continue
						}
						pcs, psubj := caseSet(phi.Block().Preds[i], "")
						if pcs == nil {
							okPhi = false
						}
						for _, v := range pcs {
							have[v] = true
						}
						subj = psubj
					}
					if okPhi && len(domCondsKindOnly(b)) == 0 {
						var missing []string
						for n, v := range need {
							if !have[v] {
								missing = append(missing, n)
							}
						}
						sort.Strings(missing)
						isKind := strings.Contains(subj, "call:") || strings.Contains(subj, "Kind")
						s.check(len(missing) == 0 && isKind, "newTType:MallocAbiType", c.InstrPos(st), "set for every pointer-bearing Go kind, conditioned on the kind only (value merged from the arms of the kind switch)",
							fmt.Sprintf("MallocAbiType is not set for kinds %v: such values would be placed in memory the GC does not scan (dangling pointers after a collection) and that is not zeroed (absent fields keep garbage)", missing))
						continue
					}
				}
				var missing []string
				for n, v := range need {
					if !have[v] {
						missing = append(missing, n)
					}
				}
				sort.Strings(missing)
				// no other condition than the kind switch
				extra := false
				inherited := map[string]bool{}
				for _, hb := range nt.Blocks {
					for _, hi := range hb.Instrs {
						if hc, ok := hi.(*ssa.Call); ok && path(hc) == subj {
							for _, cd := range domConds(hb) {
								inherited[condKey(cd)] = true
							}
						}
					}
				}
				for _, cd := range domConds(b) {
					if bo, ok := cd.V.(*ssa.BinOp); ok && bo.Op == token.EQL && path(bo.X) == subj {
						continue
					}
					if inherited[condKey(cd)] {
						continue
					}
					extra = true
				}
				isKind := strings.Contains(subj, "call:") || strings.Contains(subj, "Kind")
				// the value is the type pointer of the same type
				s.check(len(missing) == 0 && !extra && cs != nil && isKind, "newTType:MallocAbiType", c.InstrPos(st), "set for every pointer-bearing Go kind, conditioned on the kind only",
					fmt.Sprintf("MallocAbiType is not set for kinds %v / is subject to further conditions (%v): such values would be placed in memory the GC does not scan (dangling pointers after a collection) and that is not zeroed (absent fields keep garbage)", missing, extra))
			}
		}
		if !found {
			s.bad("newTType:MallocAbiType", c.Pos(nt.Pos()), "MallocAbiType is never set")
		}
	}
	// (*tDecoder).Malloc
	if m := c.Func(pkgReflect, "(*tDecoder).Malloc"); m != nil {
		abi := m.Params[len(m.Params)-1]
		var gcs []*ssa.Call
		var sp ssa.Instruction
		for _, b := range m.Blocks {
			for _, ins := range b.Instrs {
				if call, ok := ins.(*ssa.Call); ok && call.Call.StaticCallee() != nil {
					switch shortFn(call.Call.StaticCallee()) {
					case "mallocgc":
						gcs = append(gcs, call)
					case "span.Malloc":
						sp = call
					}
				}
				// the bump allocation written out here: the advance of the span position stands for the call
				if st, ok := ins.(*ssa.Store); ok && sp == nil {
					if _, typ, f, ok := fieldOf(st.Addr); ok && typ == "span" && f == "p" {
						if _, isC := st.Val.(*ssa.Const); !isC {
							sp = st
						}
					}
				}
			}
		}
		untypedOnly := func(b *ssa.BasicBlock) bool { // block reached only with abiType == 0
			return holdsAt(b, "0", "==", abi.Name(), descInt)
		}
		if len(gcs) == 0 || sp == nil {
			s.undec("tDecoder.Malloc", c.Pos(m.Pos()), "allocator dispatch has an unrecognised shape")
		} else {
			s.check(untypedOnly(sp.Block()), "tDecoder.Malloc:span", c.InstrPos(sp), "the unscanned span serves only untyped requests", "typed (pointer-bearing) requests can be served from the unscanned bump span")
			for _, gc := range gcs {
				nz := gc.Call.Args[2]
				okZero := false
				if cv, ok := nz.(*ssa.Const); ok && cv.Value != nil && cv.Value.ExactString() == "true" {
					okZero = true
				}
				if bo, ok := nz.(*ssa.BinOp); ok && bo.Op == token.NEQ && bo.X == ssa.Value(abi) {
					if z, ok := constInt(bo.Y); ok && z == 0 {
						okZero = true
					}
				}
				typed := gc.Call.Args[1] == ssa.Value(abi)
				if z, ok := constInt(gc.Call.Args[1]); ok && z == 0 && untypedOnly(gc.Block()) {
					typed, okZero = true, true // explicit untyped allocation on the abiType == 0 path
				}
				s.check(okZero && typed, "tDecoder.Malloc:gc", c.InstrPos(gc), "typed memory comes from mallocgc(n, typ, needzero=true)", "a request that may be typed is sent to mallocgc without its type or without zeroing: pointer-bearing memory would not be scanned by the GC (dangling pointers after a collection) or absent fields would keep garbage")
			}
		}
	} else {
		s.bad("tDecoder.Malloc", "-", "not found")
	}
	// untyped mallocgc elsewhere: only byte data (span blocks, unknown-field copy)
	for _, fn := range c.ModuleFuncs(pkgReflect) {
		for _, b := range fn.Blocks {
			for _, ins := range b.Instrs {
				call, ok := ins.(*ssa.Call)
				if !ok || call.Call.StaticCallee() == nil || call.Call.StaticCallee().Name() != "mallocgc" || shortFn(fn) == "tDecoder.Malloc" {
					continue
				}
				z, isC := constInt(call.Call.Args[1])
				okOwner := strings.HasPrefix(shortFn(fn), "span.") || shortFn(fn) == "unknownFields.Copy"
				s.check(isC && z == 0 && okOwner, shortFn(fn)+":untyped-alloc", c.InstrPos(call), "untyped runtime allocation used for byte data only", "raw mallocgc outside the allocator / unknown-field copy, or with a type argument")
			}
		}
	}
	return s.obs
}

func ruleAllocTriple(c *Ctx) []Ob {
	s := newSink(c, "E9.alloc-triple")
	// string / slice values handed to the caller are built over memory allocated for them (or, in the zero-copy routine,
	// over the input): never over package-level storage, which every decoded object would share
	for _, fn := range c.decodeClosureFns() {
		for _, b := range fn.Blocks {
			for _, ins := range b.Instrs {
				call, ok := ins.(*ssa.Call)
				if !ok || !(isBuiltin(call, "Slice") || isBuiltin(call, "String")) {
					continue
				}
				var static string
				seen := map[ssa.Value]bool{}
				var walk func(v ssa.Value, d int)
				walk = func(v ssa.Value, d int) {
					if v == nil || seen[v] || d > 8 {
						return
					}
					seen[v] = true
					switch x := v.(type) {
					case *ssa.Phi:
						for _, e := range x.Edges {
							walk(e, d+1)
						}
					case *ssa.Convert:
						walk(x.X, d+1)
					case *ssa.ChangeType:
						walk(x.X, d+1)
					case *ssa.IndexAddr:
						if g := rootGlobal(x); g != nil {
							static = globalKey(g)
						}
						walk(x.X, d+1)
					case *ssa.FieldAddr:
						if g := rootGlobal(x); g != nil {
							static = globalKey(g)
						}
					case *ssa.Global:
						static = globalKey(x)
					}
				}
				walk(call.Call.Args[0], 0)
				s.check(static == "", shortFn(fn)+":static-data", c.InstrPos(call), "value built over allocated (or input) memory", "a decoded string/binary is built over the package-level variable "+static+": every object decoded by the process shares that memory (a write through one decoded []byte changes the others)")
			}
		}
	}
	malloc := c.Func(pkgReflect, "(*tDecoder).Malloc")
	if malloc == nil {
		s.bad("roles", "-", "(*tDecoder).Malloc not found")
		return s.obs
	}
	closure := c.decodeClosure()
	for _, fn := range c.ModuleFuncs(pkgReflect) {
		if !closure[fn] {
			continue
		}
		var a *linAn
		if inputParam(fn) != nil {
			a = c.bounds(fn, closure)
		}
		for _, b := range fn.Blocks {
			for _, ins := range b.Instrs {
				switch x := ins.(type) {
				case *ssa.Call:
					if x.Call.StaticCallee() != malloc {
						continue
					}
					n, al, ab := x.Call.Args[1], x.Call.Args[2], x.Call.Args[3]
					key := shortFn(fn) + ":Malloc"
					// string-data form
					if a1, ok1 := constInt(al); ok1 && a1 == 1 {
						if a2, ok2 := constInt(ab); ok2 && a2 == 0 {
							okLen := a != nil && wireSource(a, n)
							// copy of exactly l bytes into it
							okCopy := false
							for _, b2 := range fn.Blocks {
								for _, in2 := range b2.Instrs {
									if cp, ok := in2.(*ssa.Call); ok && isBuiltin(cp, "copy") {
										if dst, ok := cp.Call.Args[0].(*ssa.Call); ok && isBuiltin(dst, "Slice") {
											if cv, ok := dst.Call.Args[0].(*ssa.Convert); ok && cv.X == ssa.Value(x) && dst.Call.Args[1] == n {
												okCopy = true
											}
										}
									}
								}
							}
							s.check(okLen && okCopy, key+":string-data", c.InstrPos(x), "Malloc(l, 1, 0) followed by a copy of exactly l bytes", "string data allocation is not (l, 1, 0) with the wire length followed by a copy of l bytes")
							continue
						}
					}
					sz := n
					if bo, ok := n.(*ssa.BinOp); ok && bo.Op == token.MUL {
						sz = bo.Y
						if _, _, f, ok := fieldOf(bo.X); ok && f == "Size" {
							sz = bo.X
						}
					}
					r1, _, f1, ok1 := fieldOf(sz)
					r2, _, f2, ok2 := fieldOf(al)
					r3, _, f3, ok3 := fieldOf(ab)
					good := ok1 && ok2 && ok3 && f1 == "Size" && f2 == "Align" && f3 == "MallocAbiType" && path(r1) == path(r2) && path(r1) == path(r3)
					desc := ""
					if ok1 {
						desc = path(r1)
					}
					s.check(good, key+":triple", c.InstrPos(x), "size, alignment and type all from "+desc, "size, alignment and type of the allocation come from different descriptors ("+path(sz)+", "+path(al)+", "+path(ab)+"): elements would be mis-sized, misaligned or scanned with the wrong layout")
					if !good {
						continue
					}
					// strides: every unsafe.Add on pointers rooted at this allocation advances by desc.Size
					for _, b2 := range fn.Blocks {
						for _, in2 := range b2.Instrs {
							ad, ok := in2.(*ssa.Call)
							if !ok || !isBuiltin(ad, "Add") {
								continue
							}
							if !rootedAt(ad.Call.Args[0], x) {
								continue
							}
							okS, what := strideOK(ad.Call.Args[1], desc+".Size")
							s.check(okS, key+":stride", c.InstrPos(ad), what, "pointer into an allocation of "+desc+" elements advances by "+what+": elements would overlap or leave gaps")
						}
					}
				case *ssa.Store:
					// slice header
					recv, typ, f, ok := fieldOf(x.Addr)
					if !ok || typ != "sliceHeader" || fn.Name() == "Zero" {
						continue
					}
					key := shortFn(fn) + ":header." + f
					// the empty header written out (what (*sliceHeader).Zero does): {zerobase, 0, 0} on one receiver in one block
					if emptyHeaderIn(b, recv) {
						s.ok(key, c.InstrPos(x), "part of the empty header {zerobase, 0, 0}")
						continue
					}
					switch f {
					case "Data":
						good := false
						if call, ok := x.Val.(*ssa.Call); ok && call.Call.StaticCallee() == malloc {
							good = true
						}
						s.check(good, key, c.InstrPos(x), "Data = the element allocation", "slice Data is not the fresh element allocation")
					case "Len", "Cap":
						good := a != nil && wireSource(a, x.Val)
						// Len and Cap must be the same value
						for _, in2 := range b.Instrs {
							if st2, ok := in2.(*ssa.Store); ok {
								if _, t2, f2, ok := fieldOf(st2.Addr); ok && t2 == "sliceHeader" && (f2 == "Len" || f2 == "Cap") && st2.Val != x.Val {
									good = false
								}
							}
						}
						s.check(good, key, c.InstrPos(x), "Len == Cap == element count", "decoded slice has Len != Cap or a length that is not the element count: spare capacity would expose memory of other objects")
					}
				}
			}
		}
	}
	// Zero(): zerobase sentinel
	if z := c.Func(pkgReflect, "(*sliceHeader).Zero"); z != nil {
		data, ln, cp := false, false, false
		for _, b := range z.Blocks {
			for _, ins := range b.Instrs {
				if st, ok := ins.(*ssa.Store); ok {
					if _, _, f, ok := fieldOf(st.Addr); ok {
						switch f {
						case "Data":
							data = path(st.Val) == "reflect.zerobase"
						case "Len":
							v, ok := constInt(st.Val)
							ln = ok && v == 0
						case "Cap":
							v, ok := constInt(st.Val)
							cp = ok && v == 0
						}
					}
				}
			}
		}
		s.check(data && ln && cp, "sliceHeader.Zero", c.Pos(z.Pos()), "empty slices point at the zerobase sentinel with Len = Cap = 0", "empty slice is not {zerobase, 0, 0}")
	}
	return s.obs
}

// rootedAt: v derives from call through phis and unsafe.Add.
func rootedAt(v ssa.Value, root ssa.Value) bool {
	seen := map[ssa.Value]bool{}
	var walk func(v ssa.Value) bool
	walk = func(v ssa.Value) bool {
		if v == root {
			return true
		}
		if seen[v] {
			return false
		}
		seen[v] = true
		switch x := v.(type) {
		case *ssa.Phi:
			for _, e := range x.Edges {
				if walk(e) {
					return true
				}
			}
		case *ssa.Call:
			if isBuiltin(x, "Add") {
				return walk(x.Call.Args[0])
			}
		}
		return false
	}
	return walk(v)
}

func ruleBump(c *Ctx) []Ob {
	s := newSink(c, "E9.bump")
	ini := c.Func(pkgReflect, "(*span).init")
	// the allocator functions, by construct: those that advance the span position (store a non-constant into span.p). Today
	// that is (*span).Malloc; written out in the decoder's Malloc it is that function
	type bumpFn struct {
		fn *ssa.Function
		sp string
	}
	var bumps []bumpFn
	isBump := map[*ssa.Function]bool{}
	for _, fn := range c.ModuleFuncs(pkgReflect) {
		for _, b := range fn.Blocks {
			for _, ins := range b.Instrs {
				if st, ok := ins.(*ssa.Store); ok {
					if _, typ, f, ok := fieldOf(st.Addr); ok && typ == "span" && f == "p" {
						if _, isC := st.Val.(*ssa.Const); !isC && !isBump[fn] && !isRefillHelper(fn) {
							if fa, ok := st.Addr.(*ssa.FieldAddr); ok {
								isBump[fn] = true
								bumps = append(bumps, bumpFn{fn, path(fa.X)})
							}
						}
					}
				}
			}
		}
	}
	if len(bumps) == 0 {
		s.bad("roles", "-", "no function advances the span position: the bump allocator was not found")
		return s.obs
	}
	// writers of span state
	for _, fn := range c.ModuleFuncs(pkgReflect) {
		for _, b := range fn.Blocks {
			for _, ins := range b.Instrs {
				st, ok := ins.(*ssa.Store)
				if !ok {
					continue
				}
				if _, typ, f, ok := fieldOf(st.Addr); ok && typ == "span" {
					s.check(isBump[fn] || fn == ini || isRefillHelper(fn), shortFn(fn)+":span."+f, c.InstrPos(st), "span state written by the allocator itself", "span."+f+" is written outside (*span).init/Malloc (and not by a helper that installs a fresh block): resetting or rewinding the position re-issues memory that earlier decoded objects still own")
				}
			}
		}
	}
	for _, bf := range bumps {
		bumpShape(c, s, bf.fn, bf.sp)
	}
	return s.obs
}

// bumpShape: capacity test, refill and round-up / advance of one allocator function m working on the span at path sp.
func bumpShape(c *Ctx, s *obSink, m *ssa.Function, sp string) {
	var ints []*ssa.Parameter
	for _, p := range m.Params {
		if isInt(p.Type()) {
			ints = append(ints, p)
		}
	}
	if len(ints) < 2 {
		s.undec("span.Malloc:capacity-test", c.Pos(m.Pos()), "the allocator "+m.Name()+" does not take a size and an alignment")
		return
	}
	n, align := ints[0], ints[1]
	a := newLinAn(c, m, nil)
	var capTest *ssa.If
	for _, b := range m.Blocks {
		if iff, ok := b.Instrs[len(b.Instrs)-1].(*ssa.If); ok {
			if bo, ok := iff.Cond.(*ssa.BinOp); ok && bo.Op == token.GTR && path(bo.Y) == sp+".n" {
				want := addF(addF(addF(symF("ld:"+sp+".p"), a.lin(n), 1), a.lin(align), 1), konst(1), -1)
				if eqForm(a.lin(bo.X), want) {
					capTest = iff
				}
			}
		}
	}
	if capTest == nil {
		s.undec("span.Malloc:capacity-test", c.Pos(m.Pos()), "no capacity test of the form s.p + n + (align-1) > s.n: allocator shape not recognised")
		return
	}
	s.ok("span.Malloc:capacity-test", c.InstrPos(capTest), "p + n + (align-1) > n-of-block triggers a refill")
	// refill: p = 0, b = mallocgc(sz), n = sz with sz >= n+mask
	refill := capTest.Block().Succs[0]
	p0, nb, nn := false, false, false
	var szv ssa.Value
	type rsite struct {
		sz  ssa.Value
		blk *ssa.BasicBlock
	}
	var rsites []rsite
	a.condFacts()
	for _, b := range m.Blocks {
		if !(b == refill || refill.Dominates(b)) || !edgeDominates(capTest.Block(), 0, b) {
			continue
		}
		for _, ins := range b.Instrs {
			if call, ok := ins.(*ssa.Call); ok && isRefillHelper(call.Call.StaticCallee()) && len(call.Call.Args) == 2 {
				p0, nb, nn = true, true, true
				szv = call.Call.Args[1]
				rsites = append(rsites, rsite{szv, b})
			}
			st, ok := ins.(*ssa.Store)
			if !ok {
				continue
			}
			switch path(st.Addr) {
			case sp + ".p":
				v, ok := constInt(st.Val)
				p0 = ok && v == 0
			case sp + ".b":
				if call, ok := st.Val.(*ssa.Call); ok && call.Call.StaticCallee() != nil && call.Call.StaticCallee().Name() == "mallocgc" {
					nb = true
					if cv, ok := call.Call.Args[0].(*ssa.Convert); ok {
						szv = cv.X
					}
				}
			case sp + ".n":
				nn = szv != nil && st.Val == szv
			}
		}
	}
	// sz is phi(default, n+mask) chosen under n+mask > default
	okSz := false
	if ph, ok := szv.(*ssa.Phi); ok && len(ph.Edges) == 2 {
		def, _ := c.constOf(pkgReflect, "defaultDecoderMemSize")
		var hasDef, hasNeed bool
		for _, e := range ph.Edges {
			if v, ok := constInt(e); ok && v == def {
				hasDef = true
			}
			want := addF(addF(a.lin(n), a.lin(align), 1), konst(1), -1)
			if eqForm(a.lin(e), want) {
				hasNeed = true
			}
		}
		okSz = hasDef && hasNeed
	}
	if !okSz && len(rsites) > 0 {
		// several refill sites, each with its own size: what matters is that every fresh block can hold the request
		// (size >= n + align - 1 where it is taken) and that the default size is among the choices
		def, _ := c.constOf(pkgReflect, "defaultDecoderMemSize")
		all, hasDef := true, false
		for _, rs := range rsites {
			if v, ok := constInt(rs.sz); ok && v == def {
				hasDef = true
			}
			want := addF(a.lin(rs.sz), addF(addF(a.lin(n), a.lin(align), 1), konst(1), -1), -1)
			if ok, _ := a.prove(want, rs.blk); !ok {
				all = false
			}
		}
		okSz = all && hasDef
	}
	s.check(p0 && nb && nn && okSz, "span.Malloc:refill", c.InstrPos(capTest), "refill: fresh block of max(default, n+align-1), p = 0", fmt.Sprintf("refill does not take a fresh block of max(default, n+align-1) and restart at 0 (p=0 %v, new block %v, n=sz %v, size choice %v)", p0, nb, nn, okSz))
	// round-up and advance
	var ret *ssa.Return
	for _, b := range m.Blocks {
		if r, ok := b.Instrs[len(b.Instrs)-1].(*ssa.Return); ok {
			ret = r
		}
	}
	good := false
	why := "return shape"
	if ret != nil {
		if ad, ok := ret.Results[0].(*ssa.Call); ok && isBuiltin(ad, "Add") {
			base, off := ad.Call.Args[0], ad.Call.Args[1]
			if b0, ok := base.(*ssa.Call); ok && isBuiltin(b0, "Add") && path(b0.Call.Args[0]) == sp+".b" && path(b0.Call.Args[1]) == sp+".p" {
				// off = ((uintptr(base)+mask) &^ mask) - uintptr(base)
				if sub, ok := stripConv(off).(*ssa.BinOp); ok && sub.Op == token.SUB {
					if an, ok := sub.X.(*ssa.BinOp); ok && (an.Op == token.AND_NOT || an.Op == token.AND) {
						maskArg := an.Y
						if an.Op == token.AND {
							// x & ^mask
							if u, ok := an.Y.(*ssa.UnOp); ok && u.Op == token.XOR {
								maskArg = u.X
							} else {
								maskArg = nil
							}
						}
						if ad2, ok := an.X.(*ssa.BinOp); ok && ad2.Op == token.ADD && maskArg != nil {
							isBase := func(v ssa.Value) bool { return stripConv(v) == ssa.Value(b0) }
							isMask := func(v ssa.Value) bool {
								f := a.lin(stripConv(v))
								want := addF(a.lin(align), konst(1), -1)
								return eqForm(f, want)
							}
							if isBase(ad2.X) && isMask(ad2.Y) && isMask(maskArg) && isBase(sub.Y) {
								// advance: s.p = s.p + n + off
								for _, b := range m.Blocks {
									for _, ins := range b.Instrs {
										if st, ok := ins.(*ssa.Store); ok && path(st.Addr) == sp+".p" && b == ret.Block() {
											if bo, ok := st.Val.(*ssa.BinOp); ok && bo.Op == token.ADD && path(bo.X) == sp+".p" {
												if in2, ok := bo.Y.(*ssa.BinOp); ok && in2.Op == token.ADD && in2.X == ssa.Value(n) && stripConv(in2.Y) == stripConv(off) {
													good = true
												}
											}
										}
									}
								}
								why = "advance is not p += n + off"
							} else {
								why = "round-up is not ((addr+mask) &^ mask) - addr with mask = align-1"
							}
						}
					}
				}
			} else {
				why = "base is not b + p"
			}
		}
	}
	if good {
		s.ok("span.Malloc:align-advance", c.InstrPos(ret), "off = ((addr+mask)&^mask)-addr; p += n+off; return b+p+off")
	} else {
		s.undec("span.Malloc:align-advance", c.Pos(m.Pos()), "alignment round-up / advance not in the recognised shape ("+why+"): the allocator must be re-confirmed by hand")
	}
}

// isRefillHelper: a span method (s, sz) that installs a fresh block: p = 0, b = mallocgc(sz, 0, false), n = sz, and nothing else.
func isRefillHelper(fn *ssa.Function) bool {
	if fn == nil || fn.Blocks == nil || len(fn.Params) != 2 || namedOf(fn.Params[0].Type()) != "span" || !isInt(fn.Params[1].Type()) {
		return false
	}
	sp, sz := fn.Params[0].Name(), fn.Params[1]
	p0, nb, nn, other := false, false, false, false
	for _, b := range fn.Blocks {
		for _, ins := range b.Instrs {
			st, ok := ins.(*ssa.Store)
			if !ok {
				continue
			}
			switch path(st.Addr) {
			case sp + ".p":
				v, ok := constInt(st.Val)
				p0 = ok && v == 0
			case sp + ".b":
				if call, ok := st.Val.(*ssa.Call); ok && call.Call.StaticCallee() != nil && call.Call.StaticCallee().Name() == "mallocgc" {
					if cv, ok := call.Call.Args[0].(*ssa.Convert); ok && cv.X == ssa.Value(sz) {
						nb = true
					}
				}
			case sp + ".n":
				nn = st.Val == ssa.Value(sz)
			default:
				other = true
			}
		}
	}
	return p0 && nb && nn && !other
}

// domCondsKindOnly: the conditions dominating b that are not inherited from the function entry's straight-line prologue
// (used to require that a store is unconditional).
func domCondsKindOnly(b *ssa.BasicBlock) []Cond {
	var out []Cond
	for _, cd := range domConds(b) {
		// a condition whose If block dominates every return of the function and whose other edge leaves the function is a
		// prologue guard (e.g. a cache hit returning early)
		if leavesFunction(cd.If.Block().Succs[0]) || leavesFunction(cd.If.Block().Succs[1]) {
			continue
		}
		out = append(out, cd)
	}
	return out
}

// emptyHeaderIn: block b stores Data = zerobase, Len = 0 and Cap = 0 into the slice header recv (and nothing else into it).
func emptyHeaderIn(b *ssa.BasicBlock, recv ssa.Value) bool {
	data, ln, cp := false, false, false
	for _, ins := range b.Instrs {
		st, ok := ins.(*ssa.Store)
		if !ok {
			continue
		}
		r2, typ, f, ok := fieldOf(st.Addr)
		if !ok || typ != "sliceHeader" || r2 != recv {
			continue
		}
		switch f {
		case "Data":
			if path(st.Val) != "reflect.zerobase" {
				return false
			}
			data = true
		case "Len":
			if v, ok := constInt(st.Val); !ok || v != 0 {
				return false
			}
			ln = true
		case "Cap":
			if v, ok := constInt(st.Val); !ok || v != 0 {
				return false
			}
			cp = true
		}
	}
	return data && ln && cp
}

// ---------------------------------------------------------------- header shape of string / binary destinations

// A STRING field is a Go string (two words) unless its tag is T_binary, in which case it is a []byte (three words). The decoder
// writes the destination through a cast of the raw pointer; the cast must agree with the tag on every path: a slice header
// written into a string destination overwrites the neighbouring word, a string header written into a []byte leaves its
// capacity word as it was.
func headerShape(c *Ctx, s *obSink) {
	tbin, ok := c.constOf(pkgDefs, "T_binary")
	if !ok {
		s.bad("header-shape", "-", "constant defs.T_binary not found")
		return
	}
	nBytes, nStr := 0, 0
	for _, fn := range c.ModuleFuncs(pkgReflect) {
		hasDesc := false
		for _, p := range fn.Params {
			if namedOf(p.Type()) == "tType" {
				hasDesc = true
			}
		}
		if !hasDesc {
			continue
		}
		for _, b := range fn.Blocks {
			for _, ins := range b.Instrs {
				st, isSt := ins.(*ssa.Store)
				if !isSt {
					continue
				}
				cv, isCv := st.Addr.(*ssa.Convert)
				if !isCv || !isUnsafePointer(cv.X.Type()) {
					continue
				}
				if _, isParam := cv.X.(*ssa.Parameter); !isParam {
					continue
				}
				pt, isPtr := cv.Type().Underlying().(*types.Pointer)
				if !isPtr {
					continue
				}
				wantBinary := false
				switch {
				case isByteSlice(pt.Elem()):
					wantBinary = true
					nBytes++
				case types.Identical(pt.Elem().Underlying(), types.Typ[types.String]):
					nStr++
				default:
					continue
				}
				known, isBinary := false, false
				for _, cd := range domConds(b) {
					bo, isB := cd.V.(*ssa.BinOp)
					if !isB || bo.Op != token.EQL && bo.Op != token.NEQ {
						continue
					}
					x, y := bo.X, bo.Y
					if _, isC := constInt(x); isC {
						x, y = y, x
					}
					k, isC := constInt(y)
					if !isC || k != tbin || !strings.HasSuffix(path(x), ".Tag") {
						continue
					}
					known = true
					isBinary = (bo.Op == token.EQL) == cd.Truth
				}
				what := "string"
				if wantBinary {
					what = "[]byte"
				}
				key := shortFn(fn) + ":header-shape:" + what
				switch {
				case !known:
					s.bad(key, c.InstrPos(st), "the destination is written as a "+what+" header without a dominating test of the descriptor's Tag against T_binary: "+c.srcLine(st.Pos()))
				case isBinary != wantBinary:
					s.bad(key, c.InstrPos(st), "the destination is written as a "+what+" header on the path where the tag says the opposite (a three-word header over a two-word string overwrites the next field; a two-word header leaves a stale capacity): "+c.srcLine(st.Pos()))
				default:
					s.ok(key, c.InstrPos(st), "written as "+what+" exactly where Tag "+map[bool]string{true: "==", false: "!="}[wantBinary]+" T_binary")
				}
			}
		}
	}
	if nBytes == 0 || nStr == 0 {
		s.bad("header-shape", "-", fmt.Sprintf("expected the decoder to write string destinations through both a []byte and a string cast selected by the tag; found %d and %d such stores", nBytes, nStr))
	}
}

func init() {
	registerExtra("T7.reader-lens", headerShape)
	registerExtra("E9.input-alias", headerShape)
}
