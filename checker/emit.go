package main

import (
	"go/token"
	"go/types"
	"sort"

	"golang.org/x/tools/go/ssa"
)

// Emit is one step of the output-buffer chain in a writer function: something that appends to the
// []byte that started as the function's buffer parameter.
type Emit struct {
	Kind   string      // bytes | uint | bool | payload | call | dyn
	N      int         // bytes emitted (bytes/uint/bool), -1 when variable or delegated
	Srcs   []ssa.Value // per byte (bytes) or the single value (uint, bool, payload)
	Callee *ssa.Function
	Call   *ssa.Call
	In     ssa.Value
	Out    ssa.Value
	Instr  ssa.Instruction
	// LenOf is set when the emitted integer is the length of this value (an expanded string helper): consumers treat
	// Srcs[0] as len(LenOf)
	LenOf ssa.Value
}

type emitInfo struct {
	fn     *ssa.Function
	buf    ssa.Value
	chain  map[ssa.Value]bool
	events []*Emit
	byOut  map[ssa.Value]*Emit
	// stores/uses of chain values that are not appends (indexed stores, reslices): violations of append-only
	foreign []ssa.Instruction
}

// bufParam returns the first []byte parameter of fn.
func bufParam(fn *ssa.Function) ssa.Value {
	for _, p := range fn.Params {
		if isByteSlice(p.Type()) {
			return p
		}
	}
	return nil
}

func returnsBytesFirst(sig *types.Signature) bool {
	r := sig.Results()
	if r.Len() == 0 {
		return false
	}
	return isByteSlice(r.At(0).Type())
}

// analyseEmits computes the output chain of fn starting at its []byte parameter.
func analyseEmits(fn *ssa.Function) *emitInfo {
	ei := &emitInfo{fn: fn, chain: map[ssa.Value]bool{}, byOut: map[ssa.Value]*Emit{}}
	ei.buf = bufParam(fn)
	if ei.buf == nil || fn.Blocks == nil {
		return ei
	}
	ei.chain[ei.buf] = true
	done := map[ssa.Instruction]bool{}
	for changed := true; changed; {
		changed = false
		for _, b := range fn.Blocks {
			for _, in := range b.Instrs {
				if done[in] {
					continue
				}
				switch x := in.(type) {
				case *ssa.Phi:
					if !isByteSlice(x.Type()) {
						continue
					}
					any := false
					for _, e := range x.Edges {
						if ei.chain[e] {
							any = true
						}
					}
					if any {
						ei.chain[x] = true
						done[in] = true
						changed = true
					}
				case *ssa.Extract:
					if c, ok := x.Tuple.(*ssa.Call); ok && x.Index == 0 && isByteSlice(x.Type()) {
						if e := ei.byOut[c]; e != nil {
							ei.chain[x] = true
							ei.byOut[x] = e
							e.Out = x
							done[in] = true
							changed = true
						}
					}
				case *ssa.Call:
					var in0 ssa.Value
					for _, a := range x.Call.Args {
						if ei.chain[a] {
							in0 = a
							break
						}
					}
					if in0 == nil {
						continue
					}
					// a helper that writes one string (4-byte length, then the bytes) is expanded into those two events
					if f := x.Call.StaticCallee(); f != nil && len(x.Call.Args) == 2 && x.Call.Args[0] == in0 && strEmitHelper(f) {
						e1 := &Emit{Kind: "uint", N: 4, Srcs: []ssa.Value{x.Call.Args[1]}, LenOf: x.Call.Args[1], Call: x, In: in0, Out: x, Instr: x, Callee: f}
						e2 := &Emit{Kind: "payload", N: -1, Srcs: []ssa.Value{x.Call.Args[1]}, Call: x, In: in0, Out: x, Instr: x, Callee: f}
						done[in] = true
						changed = true
						ei.events = append(ei.events, e1, e2)
						ei.byOut[x] = e2
						ei.chain[x] = true
						continue
					}
					e := classifyEmit(x, in0)
					if e == nil {
						continue
					}
					done[in] = true
					changed = true
					ei.events = append(ei.events, e)
					ei.byOut[x] = e
					if isByteSlice(x.Type()) {
						ei.chain[x] = true
					}
				}
			}
		}
	}
	// foreign uses of chain values: anything but calls handled above, phis, extracts, returns, len()
	for v := range ei.chain {
		for _, r := range referrers(v) {
			switch x := r.(type) {
			case *ssa.Phi, *ssa.Return, *ssa.Extract, *ssa.DebugRef:
			case *ssa.Call:
				if isBuiltin(x, "len") || isBuiltin(x, "cap") {
					continue
				}
				if ei.byOut[x] == nil {
					ei.foreign = append(ei.foreign, r)
				}
			case *ssa.MakeInterface:
				// passing the buffer to fmt etc. on an error path: reading only
			case *ssa.Store:
				// result spill of functions with defer: *resultslot = b
				if al, ok := x.Addr.(*ssa.Alloc); ok && x.Val == v {
					_ = al
					continue
				}
				ei.foreign = append(ei.foreign, r)
			default:
				ei.foreign = append(ei.foreign, r)
			}
		}
	}
	sort.SliceStable(ei.events, func(i, j int) bool { return evBefore(ei.events[i], ei.events[j]) })
	return ei
}

func evBefore(a, b *Emit) bool {
	ba, bb := a.Instr.Block(), b.Instr.Block()
	if ba == bb {
		return instrIndex(a.Instr) < instrIndex(b.Instr)
	}
	if ba.Dominates(bb) {
		return true
	}
	if bb.Dominates(ba) {
		return false
	}
	return ba.Index < bb.Index
}

func classifyEmit(c *ssa.Call, in0 ssa.Value) *Emit {
	e := &Emit{Call: c, In: in0, Out: c, Instr: c, N: -1}
	if b, ok := c.Call.Value.(*ssa.Builtin); ok {
		if b.Name() != "append" || len(c.Call.Args) != 2 || c.Call.Args[0] != in0 {
			return nil
		}
		arg := c.Call.Args[1]
		if sl, ok := arg.(*ssa.Slice); ok {
			if al, ok := sl.X.(*ssa.Alloc); ok && al.Comment == "varargs" && sl.Low == nil && sl.High == nil {
				arr, ok := al.Type().Underlying().(*types.Pointer).Elem().Underlying().(*types.Array)
				if ok {
					e.Kind = "bytes"
					e.N = int(arr.Len())
					e.Srcs = make([]ssa.Value, e.N)
					for _, r := range referrers(al) {
						ia, ok := r.(*ssa.IndexAddr)
						if !ok {
							continue
						}
						idx, ok := constInt(ia.Index)
						if !ok || idx < 0 || int(idx) >= e.N {
							continue
						}
						for _, rr := range referrers(ia) {
							if st, ok := rr.(*ssa.Store); ok && st.Addr == ia {
								e.Srcs[idx] = st.Val
							}
						}
					}
					return e
				}
			}
		}
		e.Kind = "payload"
		e.Srcs = []ssa.Value{arg}
		return e
	}
	if f := c.Call.StaticCallee(); f != nil {
		e.Callee = f
		if fnPkgPath(f) == pkgReflect {
			switch f.Name() {
			case "appendUint16", "appendUint32", "appendUint64":
				e.Kind = "uint"
				e.N = map[string]int{"appendUint16": 2, "appendUint32": 4, "appendUint64": 8}[f.Name()]
				e.Srcs = []ssa.Value{c.Call.Args[1]}
				return e
			}
			if isBoolEmitHelper(f) {
				e.Kind = "bool"
				e.N = 1
				e.Srcs = []ssa.Value{c.Call.Args[1]}
				return e
			}
		}
		if !returnsBytesFirst(f.Signature) {
			return nil
		}
		e.Kind = "call"
		return e
	}
	// dynamic call through a function value (AppendFunc)
	if sig, ok := c.Call.Value.Type().Underlying().(*types.Signature); ok && returnsBytesFirst(sig) && !c.Call.IsInvoke() {
		e.Kind = "dyn"
		return e
	}
	return nil
}

// loadOf describes a value that is (a conversion chain over) a typed load through an unsafe pointer:
// v = conv*( *(*T)(ptr) ). convs lists the conversion target types outermost last.
type loadDesc struct {
	T     types.Type // loaded type
	Ptr   ssa.Value  // the unsafe.Pointer (or typed pointer) loaded through
	Convs []types.Type
	Load  *ssa.UnOp
}

func loadOf(v ssa.Value) *loadDesc {
	var convs []types.Type
	for {
		switch x := v.(type) {
		case *ssa.Convert:
			convs = append([]types.Type{x.Type()}, convs...)
			v = x.X
			continue
		case *ssa.ChangeType:
			v = x.X
			continue
		case *ssa.UnOp:
			if x.Op != token.MUL {
				return nil
			}
			ptr := x.X
			if cv, ok := ptr.(*ssa.Convert); ok && isUnsafePointer(cv.X.Type()) {
				ptr = cv.X
			}
			return &loadDesc{T: x.Type(), Ptr: ptr, Convs: convs, Load: x}
		}
		return nil
	}
}

// rootOf follows phis/unsafe.Add to the origin(s) of a pointer value; returns canonical root names.
func ptrRoots(v ssa.Value) []string {
	seen := map[ssa.Value]bool{}
	out := map[string]bool{}
	var walk func(v ssa.Value)
	walk = func(v ssa.Value) {
		if seen[v] {
			return
		}
		seen[v] = true
		switch x := v.(type) {
		case *ssa.Phi:
			for _, e := range x.Edges {
				walk(e)
			}
		case *ssa.Call:
			if isBuiltin(x, "Add") {
				walk(x.Call.Args[0])
				return
			}
			out["call:"+calleeShort(x)] = true
		case *ssa.Extract:
			if c, ok := x.Tuple.(*ssa.Call); ok {
				out["call:"+calleeShort(c)+"#"+itoa(x.Index)] = true
			} else if _, ok := x.Tuple.(*ssa.Next); ok {
				out["range#"+itoa(x.Index)] = true
			} else {
				out[x.Name()] = true
			}
		case *ssa.Convert:
			walk(x.X)
		case *ssa.ChangeType:
			walk(x.X)
		case *ssa.UnOp:
			if x.Op == token.MUL {
				out["load:"+path(x.X)] = true
			} else {
				out[x.Name()] = true
			}
		case *ssa.Parameter:
			out["param:"+x.Name()] = true
		default:
			out[path(v)] = true
		}
	}
	walk(v)
	var r []string
	for k := range out {
		r = append(r, k)
	}
	sort.Strings(r)
	return r
}

func calleeShort(c *ssa.Call) string {
	if f := c.Call.StaticCallee(); f != nil {
		return shortFn(f)
	}
	return "dyn:" + path(c.Call.Value)
}

// shortFn names a function as "F" or "T.M" (receiver type name without package or pointer).
func shortFn(f *ssa.Function) string {
	if r := f.Signature.Recv(); r != nil {
		return namedOf(r.Type()) + "." + f.Name()
	}
	return f.Name()
}

func itoa(i int) string {
	if i == 0 {
		return "0"
	}
	s := ""
	neg := i < 0
	if neg {
		i = -i
	}
	for i > 0 {
		s = string(rune('0'+i%10)) + s
		i /= 10
	}
	if neg {
		s = "-" + s
	}
	return s
}

// loopCounter: v (conversions stripped) is a loop index phi with edges 0 and phi+1.
func loopCounter(v ssa.Value) bool {
	p, ok := stripConv(v).(*ssa.Phi)
	if !ok {
		return false
	}
	z, inc := false, false
	for _, e := range p.Edges {
		if c, ok := constInt(e); ok && c == 0 {
			z = true
		}
		if a, ok := e.(*ssa.BinOp); ok && a.Op == token.ADD && a.X == ssa.Value(p) {
			if c, ok := constInt(a.Y); ok && c == 1 {
				inc = true
			}
		}
	}
	return z && inc
}

// strideOK: the offset of an unsafe.Add is sizePath (pointer advanced once per iteration) or index*sizePath (pointer computed from the base).
func strideOK(off ssa.Value, sizePath string) (bool, string) {
	off = stripConv(off)
	if path(off) == sizePath {
		return true, "advances by " + sizePath
	}
	// running offset: off = phi(0, off + Size)
	if p, ok := off.(*ssa.Phi); ok {
		z, inc := false, false
		for _, ed := range p.Edges {
			if c, ok := constInt(ed); ok && c == 0 {
				z = true
			}
			if a, ok := ed.(*ssa.BinOp); ok && a.Op == token.ADD && (a.X == ssa.Value(p) && path(stripConv(a.Y)) == sizePath || a.Y == ssa.Value(p) && path(stripConv(a.X)) == sizePath) {
				inc = true
			}
		}
		if z && inc {
			return true, "base + running offset advanced by " + sizePath
		}
	}
	if bo, ok := off.(*ssa.BinOp); ok && bo.Op == token.MUL {
		if path(stripConv(bo.Y)) == sizePath && loopCounter(bo.X) || path(stripConv(bo.X)) == sizePath && loopCounter(bo.Y) {
			return true, "base + index*" + sizePath
		}
	}
	return false, path(off)
}

// isDispatchHelper: fn(t, b, p) only forwards to t.AppendFunc(t, b, p) or t.AppendFunc(t, b, *(*unsafe.Pointer)(p)).
func isDispatchHelper(fn *ssa.Function) bool {
	if fn == nil || fn.Blocks == nil || len(fn.Params) != 3 || namedOf(fn.Params[0].Type()) != "tType" || !isByteSlice(fn.Params[1].Type()) || !isUnsafePointer(fn.Params[2].Type()) {
		return false
	}
	ei := analyseEmits(fn)
	if len(ei.events) == 0 || len(ei.foreign) > 0 {
		return false
	}
	t := fn.Params[0].Name()
	for _, e := range ei.events {
		if e.Kind != "dyn" || path(e.Call.Call.Value) != t+".AppendFunc" || len(e.Call.Call.Args) != 3 || e.Call.Call.Args[0] != ssa.Value(fn.Params[0]) {
			return false
		}
		ptr := e.Call.Call.Args[2]
		if ld := loadOf(ptr); ld != nil && isUnsafePointer(ld.T) {
			ptr = ld.Ptr
		}
		if ptr != ssa.Value(fn.Params[2]) {
			return false
		}
	}
	return true
}

var boolHelperMemo = map[*ssa.Function]int{}

// isBoolEmitHelper: f(b []byte, v bool) []byte appends exactly one byte: 1 when v, 0 otherwise.
func isBoolEmitHelper(f *ssa.Function) bool {
	if f == nil || f.Blocks == nil || len(f.Params) != 2 || !isByteSlice(f.Params[0].Type()) {
		return false
	}
	if bt, ok := f.Params[1].Type().Underlying().(*types.Basic); !ok || bt.Kind() != types.Bool {
		return false
	}
	if v, ok := boolHelperMemo[f]; ok {
		return v == 1
	}
	boolHelperMemo[f] = 0
	ei := analyseEmits(f)
	good := len(ei.events) > 0 && len(ei.foreign) == 0
	for _, ev := range ei.events {
		if ev.Kind != "bytes" || ev.N != 1 {
			good = false
			continue
		}
		val, ok := constInt(ev.Srcs[0])
		truth, found := false, false
		for _, cd := range domConds(ev.Instr.Block()) {
			if cd.V == ssa.Value(f.Params[1]) {
				truth, found = cd.Truth, true
			}
		}
		if !ok || !found || (truth && val != 1) || (!truth && val != 0) {
			good = false
		}
	}
	if good {
		boolHelperMemo[f] = 1
	}
	return good
}

var strEmitMemo = map[*ssa.Function]bool{}

// strEmitHelper: f(b []byte, s string) []byte appends uint32(len(s)) and then s, and nothing else.
func strEmitHelper(f *ssa.Function) bool {
	if v, ok := strEmitMemo[f]; ok {
		return v
	}
	strEmitMemo[f] = false
	if f.Blocks == nil || len(f.Blocks) != 1 || len(f.Params) != 2 || fnPkgPath(f) != pkgReflect || !isByteSlice(f.Params[0].Type()) || f.Params[1].Type().String() != "string" {
		return false
	}
	r := f.Signature.Results()
	if r.Len() != 1 || !isByteSlice(r.At(0).Type()) {
		return false
	}
	ei := analyseEmits(f)
	if len(ei.events) != 2 || len(ei.foreign) != 0 {
		return false
	}
	e1, e2 := ei.events[0], ei.events[1]
	if e1.Kind != "uint" || e1.N != 4 || e2.Kind != "payload" || e2.Srcs[0] != ssa.Value(f.Params[1]) {
		return false
	}
	src := e1.Srcs[0]
	viaLen := false
	for {
		if cv, ok := src.(*ssa.Convert); ok {
			src = cv.X
			continue
		}
		if call, ok := src.(*ssa.Call); ok && isBuiltin(call, "len") {
			src = call.Call.Args[0]
			viaLen = true
			continue
		}
		break
	}
	if !viaLen || src != ssa.Value(f.Params[1]) {
		return false
	}
	// the result is the end of the chain
	ret, ok := f.Blocks[0].Instrs[len(f.Blocks[0].Instrs)-1].(*ssa.Return)
	if !ok || len(ret.Results) != 1 || ret.Results[0] != e2.Out {
		return false
	}
	strEmitMemo[f] = true
	return true
}
