#!/usr/bin/env python3
"""usage: ingest_seeds.py <round> <mutdir> <origin text> <Cxx>...  -- copies validated sub-agent deliveries (<mutdir>/<Cxx>-out/mN.*) to seeded/<Cxx>-r<round>mN/"""
import json, os, shutil, subprocess, re, sys
rnd, mutdir, origin = sys.argv[1], sys.argv[2], sys.argv[3]
root = os.path.dirname(os.path.dirname(os.path.abspath(__file__)))
head = subprocess.check_output(['git', '-C', '/repo', 'rev-parse', '--short', 'HEAD'], text=True).strip()
n_in = 0
for pid in sys.argv[4:]:
    out = f'{mutdir}/{pid}-out'
    for n in (1, 2, 3, 4, 5):
        if not os.path.exists(f'{out}/m{n}.diff'):
            continue
        sid = f'{pid}-r{rnd}m{n}'
        d = f'{root}/seeded/{sid}'
        os.makedirs(d, exist_ok=True)
        shutil.copy(f'{out}/m{n}.diff', f'{d}/patch.diff')
        shutil.copy(f'{out}/m{n}_demo_test.go', f'{d}/demo_test.go.txt')
        m = json.load(open(f'{out}/m{n}.json'))
        cmd = re.split(r'\s{2,}\(', m.get('demo_cmd', ''))[0]
        cmd = re.sub(r'cd /tmp/mut[0-9]*/C[0-9]+ *&& *', '', cmd)
        meta = {'id': sid, 'property': pid, 'round': int(rnd), 'summary': m.get('summary'), 'needs': m.get('needs'), 'files_changed': m.get('files_changed'),
                'demo_place': m.get('demo_place', '').split()[0] if m.get('demo_place') else '', 'demo_cmd': cmd,
                'demo_file': 'demo_test.go.txt (copy to demo_place inside the tree; kept with a .txt suffix so that it is not compiled here)',
                'origin': origin + f' and a scratch worktree of /repo at {head}',
                'confirmed': f'tools/validate_seed.sh in a scratch worktree at {head}: patch applies; baseline suite (., fuzz, tests) passes with the patch; demo fails with the patch; demo passes without it'}
        json.dump(meta, open(f'{d}/meta.json', 'w'), indent=1)
        n_in += 1
print(n_in, 'ingested')
