// frugalvet: repository-specific static analysis deciding structural clauses of the
// properties in /verif/properties.jsonl on the current source of cloudwego/frugal.
// Nothing here executes frugal code; everything is computed from the type-checked
// program, its SSA form, call graph and dominator trees.
package main

import (
	"encoding/json"
	"flag"
	"fmt"
	"go/ast"
	"os"
	"path/filepath"
	"runtime/debug"
	"sort"
	"strconv"
	"strings"
	"time"
)

func main() {
	repo := flag.String("repo", "/repo", "repository to analyse")
	prop := flag.String("prop", "", "property id (C01..C18), or 'all'")
	tier := flag.String("tier", "quick", "quick|thorough")
	evPath := flag.String("evidence", "", "evidence file to write")
	known := flag.String("known", "", "known-findings file")
	only := flag.String("only", "", "replay file: re-run only the recorded rule instance")
	replayDir := flag.String("replaydir", "", "directory for replay files")
	list := flag.Bool("list", false, "print all obligations")
	arch := flag.String("goarch", "", "GOARCH for the analysis (default amd64)")
	describe := flag.Bool("describe", false, "print the property table as JSON")
	dumpFuncs := flag.Bool("dumpfuncs", false, "print the functions of the module (the reference list for helper expansion, known_funcs.txt)")
	dumpRefs := flag.Bool("dumprefs", false, "print the declarations of the module (the reference list for rename normalisation, known_refs.txt)")
	dumpLoc := flag.Bool("dumplocals", false, "print the variables each function of the module declares (the reference list for the normalisation of renamed locals, known_locals.txt)")
	flag.Parse()
	if *dumpLoc {
		os.Setenv("FRUGALVET_NO_EXPAND", "1")
		c, err := Load(*repo, *arch)
		if err != nil {
			fmt.Fprintln(os.Stderr, err)
			os.Exit(2)
		}
		fmt.Println("# variables declared by each function of the reference tree, in source order: package, function, name/type pairs")
		for _, l := range dumpLocals(c.Pkgs) {
			fmt.Println(l)
		}
		return
	}
	if *dumpRefs {
		os.Setenv("FRUGALVET_NO_EXPAND", "1")
		c, err := Load(*repo, *arch)
		if err != nil {
			fmt.Fprintln(os.Stderr, err)
			os.Exit(2)
		}
		ds, _ := currentDecls(c.Pkgs)
		fmt.Println("# declarations of the reference tree: kind (F func/method, V var, C const, T type, S struct field), package, name, type, field index (-1: none), shape hash of the body / initialiser with identifiers erased (tie-breaker)")
		for _, d := range ds {
			fmt.Printf("%s\t%s\t%s\t%s\t%d\t%s\n", d.kind, d.pkg, d.name, d.typ, d.idx, d.shape)
		}
		return
	}
	if *dumpFuncs {
		os.Setenv("FRUGALVET_NO_EXPAND", "1")
		c, err := Load(*repo, *arch)
		if err != nil {
			fmt.Fprintln(os.Stderr, err)
			os.Exit(2)
		}
		var out []string
		for _, p := range c.Pkgs {
			for _, f := range p.Syntax {
				for _, d := range f.Decls {
					if fd, ok := d.(*ast.FuncDecl); ok {
						out = append(out, funcDeclKey(p.PkgPath, fd))
					}
				}
			}
		}
		sort.Strings(out)
		fmt.Println("# functions of the reference tree: anything else is a helper introduced by the change under analysis (inline.go)")
		for _, l := range out {
			fmt.Println(l)
		}
		return
	}
	if *describe {
		printDescribe()
		return
	}
	if *prop == "" {
		fmt.Fprintln(os.Stderr, "usage: frugalvet -prop Cxx [-repo dir] [-tier quick|thorough] [-evidence file]")
		os.Exit(2)
	}
	seed := 0
	if s := os.Getenv("VERIF_SEED"); s != "" {
		seed, _ = strconv.Atoi(s)
	}
	start := time.Now()
	code := run(*repo, *prop, *tier, *evPath, *known, *only, *replayDir, *arch, *list, seed, start)
	os.Exit(code)
}

type runResult struct {
	obs       []Ob
	stats     []ruleStat
	fatal     []string
	pkgs      []string
	nfuncs    int
	cgNodes   int
	cgEdges   int
	goarch    string
	graphKind string
	expand    []string
}

// analyse runs the rules of a property on one configuration.
func analyse(repo, arch string, p *Property, useCHA bool, onlyRule string, thorough bool) (res runResult) {
	res.goarch = arch
	if arch == "" {
		res.goarch = "amd64"
	}
	res.graphKind = "VTA(CHA)"
	if useCHA {
		res.graphKind = "CHA"
	}
	c, err := Load(repo, arch)
	if err != nil {
		res.fatal = append(res.fatal, "ANALYSIS-ERROR load: "+err.Error())
		return
	}
	res.expand = c.ExpandNotes
	c.useCHA = useCHA
	c.thorough = thorough
	for _, pk := range c.Pkgs {
		res.pkgs = append(res.pkgs, pk.PkgPath)
	}
	res.nfuncs = c.NumFns
	for _, r := range p.Rules {
		if onlyRule != "" && r.ID != onlyRule {
			continue
		}
		obs, perr := runRule(c, r)
		if perr != "" {
			res.fatal = append(res.fatal, "ANALYSIS-ERROR rule "+r.ID+": "+perr)
			continue
		}
		st := ruleStat{Rule: r.ID, Text: r.Text, Instances: len(obs), Floor: r.Min}
		for _, o := range obs {
			if o.Verdict == OK {
				st.Discharged++
			}
		}
		if len(obs) < r.Min {
			obs = append(obs, Ob{Rule: r.ID, Key: "instance-floor", Pos: "-", Verdict: VIOLATED,
				Reason: fmt.Sprintf("rule matched %d constructs, expected at least %d: the anchored constructs were not found (vacuous pass refused)", len(obs), r.Min)})
		}
		res.stats = append(res.stats, st)
		res.obs = append(res.obs, obs...)
	}
	if c.cgVTA != nil || c.cgCHA != nil {
		g := c.CG()
		res.cgNodes = len(g.Nodes)
		for _, n := range g.Nodes {
			res.cgEdges += len(n.Out)
		}
	}
	return
}

func runRule(c *Ctx, r *Rule) (obs []Ob, perr string) {
	defer func() {
		if e := recover(); e != nil {
			perr = fmt.Sprintf("panic: %v\n%s", e, debug.Stack())
		}
	}()
	obs = r.Run(c)
	for _, extra := range extraObligations[r.ID] {
		s := newSink(c, r.ID)
		extra(c, s)
		obs = append(obs, s.obs...)
	}
	for i := range obs {
		if obs[i].Rule == "" {
			obs[i].Rule = r.ID
		}
	}
	return
}

func run(repo, propID, tier, evPath, knownPath, only, replayDir, arch string, list bool, seed int, start time.Time) int {
	p := properties()[propID]
	if p == nil {
		fmt.Fprintf(os.Stderr, "unknown property %q\n", propID)
		return 2
	}
	onlyRule, onlyKey := "", ""
	if only != "" {
		b, err := os.ReadFile(only)
		if err != nil {
			fmt.Fprintln(os.Stderr, "replay:", err)
			return 2
		}
		var o Ob
		if err := json.Unmarshal(b, &o); err != nil {
			fmt.Fprintln(os.Stderr, "replay:", err)
			return 2
		}
		onlyRule, onlyKey = o.Rule, o.Key
	}
	kf, err := loadKnown(knownPath)
	if err != nil {
		fmt.Println("ANALYSIS-ERROR known findings:", err)
		return 1
	}
	type cfg struct {
		arch string
		cha  bool
	}
	cfgs := []cfg{{arch, false}}
	if tier == "thorough" && only == "" {
		cfgs = append(cfgs, cfg{"386", false}, cfg{arch, true}, cfg{"arm64", false})
	}
	var results []runResult
	for _, cf := range cfgs {
		results = append(results, analyse(repo, cf.arch, p, cf.cha, onlyRule, tier == "thorough"))
	}

	// verdict
	violations := 0
	var fatals []string
	openSeen := map[string]bool{}
	type vrec struct {
		ob  Ob
		cfg string
	}
	var viols []vrec
	totalObs, totalOK := 0, 0
	distinct := map[string]bool{}
	for _, r := range results {
		fatals = append(fatals, r.fatal...)
		for _, o := range r.obs {
			if onlyKey != "" && o.Key != onlyKey {
				continue
			}
			totalObs++
			distinct[o.id()] = true
			if o.Verdict == OK {
				totalOK++
				continue
			}
			isKnown := false
			for _, k := range kf {
				if k.Status == "open" && k.Property == propID && k.Key == o.id() {
					isKnown = true
					if !openSeen[k.Key] {
						openSeen[k.Key] = true
						fmt.Printf("KNOWN-FINDING: property=%s %s\n", propID, k.Text)
					}
				}
			}
			if !isKnown {
				viols = append(viols, vrec{o, r.goarch + "/" + r.graphKind})
			}
		}
	}
	if list {
		for _, r := range results {
			obs := append([]Ob(nil), r.obs...)
			sortObs(obs)
			for _, o := range obs {
				fmt.Printf("[%s %s] %-10s %-28s %-22s %s :: %s\n", r.goarch, r.graphKind, o.Verdict, o.Rule, o.Pos, o.Key, o.Reason)
			}
		}
	}
	if replayDir == "" {
		replayDir = filepath.Join(filepath.Dir(evPath), "replay")
		if evPath == "" {
			replayDir = "evidence/replay"
		}
	}
	for _, f := range fatals {
		fmt.Println(f)
		violations++
		rp := filepath.Join(replayDir, propID+"-analysis-error.json")
		_ = writeJSON(rp, Ob{Rule: "ANALYSIS-ERROR", Key: "load", Verdict: UNDECIDED, Reason: f})
		fmt.Printf("VIOLATION property=%s replay=%s\n", propID, rp)
	}
	seenV := map[string]bool{}
	for _, v := range viols {
		if seenV[v.ob.id()] {
			continue
		}
		seenV[v.ob.id()] = true
		violations++
		fmt.Printf("%s: %s [%s] %s: %s (config %s)\n", v.ob.Pos, v.ob.Verdict, v.ob.Rule, v.ob.Key, v.ob.Reason, v.cfg)
		rp := filepath.Join(replayDir, propID+"-"+shortHash(v.ob.id())+".json")
		_ = writeJSON(rp, v.ob)
		fmt.Printf("VIOLATION property=%s replay=%s\n", propID, rp)
	}

	// evidence
	if evPath != "" {
		r0 := results[0]
		var samples []interface{}
		perRule := map[string]int{}
		obs := append([]Ob(nil), r0.obs...)
		sortObs(obs)
		for _, o := range obs {
			if o.Verdict != OK || perRule[o.Rule] < 4 {
				perRule[o.Rule]++
				samples = append(samples, o)
			}
		}
		var cfgDesc []string
		for _, r := range results {
			n, okc := 0, 0
			for _, o := range r.obs {
				n++
				if o.Verdict == OK {
					okc++
				}
			}
			cfgDesc = append(cfgDesc, fmt.Sprintf("%s %s: %d packages, %d functions, call graph %d nodes/%d edges, %d obligations (%d discharged)",
				r.goarch, r.graphKind, len(r.pkgs), r.nfuncs, r.cgNodes, r.cgEdges, n, okc))
		}
		var ruleTexts []string
		for _, r := range p.Rules {
			ruleTexts = append(ruleTexts, r.ID+": "+r.Text)
		}
		sort.Strings(ruleTexts)
		ev := evidence{
			PropertyID: propID, Tier: tier, Seed: seed, Level: "other",
			Coverage: map[string]interface{}{
				"explanation":         p.Decides + " NOT DECIDED: " + p.NotDecided,
				"evaluations":         totalObs,
				"distinct_nontrivial": len(distinct),
				"rule":                "one evaluation = one obligation (rule instance on a source construct, per analysed configuration); distinct = distinct (rule, construct key) pairs; every construct in a rule's scope is an instance, none is trivial: a construct matching no recognised idiom is UNDECIDED and fails. Rules: " + strings.Join(ruleTexts, " || "),
				"obligations":         totalObs,
				"discharged":          totalOK,
				"samples":             samples,
				"exhaustive":          true,
				"configurations":      cfgDesc,
				"packages":            r0.pkgs,
				"functions_analysed":  r0.nfuncs,
				"per_rule":            r0.stats,
				"checker_cmd":         "bin/frugalvet -repo " + repo + " -prop " + propID + " -tier " + tier,
				"technique":           p.Technique,
				"helper_expansion":    append([]string{"functions absent from the reference list (checker/known_funcs.txt) are expanded at their call sites before the rules run; on this tree:"}, expandOrNone(r0.expand)...),
			},
			Assumptions: p.Assumes,
			WallS:       time.Since(start).Seconds(),
			Violations:  violations,
		}
		if err := writeJSON(evPath, ev); err != nil {
			fmt.Println("ANALYSIS-ERROR writing evidence:", err)
			return 1
		}
	}
	if violations > 0 {
		return 1
	}
	fmt.Printf("OK property=%s tier=%s obligations=%d discharged=%d distinct=%d configs=%d wall=%.1fs\n",
		propID, tier, totalObs, totalOK, len(distinct), len(results), time.Since(start).Seconds())
	return 0
}

func printDescribe() {
	type d struct {
		ID, Technique, Decides, NotDecided string
		Assumes                            []string
		Rules                              []string
	}
	var out []d
	ps := properties()
	var ids []string
	for id := range ps {
		ids = append(ids, id)
	}
	sort.Strings(ids)
	for _, id := range ids {
		p := ps[id]
		if id == "ALL" {
			continue
		}
		out = append(out, d{p.ID, p.Technique, p.Decides, p.NotDecided, p.Assumes, p.RuleIDs})
	}
	b, _ := json.MarshalIndent(map[string]interface{}{"properties": out, "not_applicable": notApplicable()}, "", " ")
	fmt.Println(string(b))
}

func expandOrNone(n []string) []string {
	if len(n) == 0 {
		return []string{"nothing to expand (every function is in the reference list)"}
	}
	return n
}

// extraObligations: additional obligations attached to a rule from another file (registerExtra).
var extraObligations = map[string][]func(c *Ctx, s *obSink){}

func registerExtra(ruleID string, f func(c *Ctx, s *obSink)) {
	extraObligations[ruleID] = append(extraObligations[ruleID], f)
}
