package main

import (
	"fmt"
	"go/token"
	"sort"
	"strings"

	"golang.org/x/tools/go/callgraph"
	"golang.org/x/tools/go/ssa"
)

func init() {
	register(&Rule{ID: "E6.depth", Min: 6,
		Text: "on the call graph restricted to module functions reachable from reflect.Decode: every non-trivial SCC member has an int depth parameter; every intra-SCC call passes param - c with constant c >= 1; every member tests the parameter on entry (== 0 only when every c is 1, or <= k / < k) with the taken edge returning the depth-limit exception, and the test dominates every intra-SCC call; the root passes the constant maxDepthLimit; 48 x |SCC| x max(c) < maxDepthLimit <= 65536 (48 levels always fit, recursion depth is bounded)",
		Run:  ruleE6})
}

func ruleE6(c *Ctx) []Ob {
	s := newSink(c, "E6.depth")
	closure := c.decodeClosure()
	if closure == nil {
		s.bad("closure", "-", "reflect.Decode not found")
		return s.obs
	}
	g := c.CG()
	// adjacency among module functions of the closure
	adj := map[*ssa.Function][]*callgraph.Edge{}
	var nodes []*ssa.Function
	for f := range closure {
		nodes = append(nodes, f)
		n := g.Nodes[f]
		if n == nil {
			continue
		}
		for _, e := range n.Out {
			if closure[e.Callee.Func] {
				adj[f] = append(adj[f], e)
			}
		}
	}
	sort.Slice(nodes, func(i, j int) bool { return nodes[i].String() < nodes[j].String() })
	// Tarjan SCC
	index := map[*ssa.Function]int{}
	low := map[*ssa.Function]int{}
	on := map[*ssa.Function]bool{}
	var stack []*ssa.Function
	var sccs [][]*ssa.Function
	idx := 0
	var strong func(v *ssa.Function)
	strong = func(v *ssa.Function) {
		index[v], low[v] = idx, idx
		idx++
		stack = append(stack, v)
		on[v] = true
		for _, e := range adj[v] {
			w := e.Callee.Func
			if _, seen := index[w]; !seen {
				strong(w)
				if low[w] < low[v] {
					low[v] = low[w]
				}
			} else if on[w] && index[w] < low[v] {
				low[v] = index[w]
			}
		}
		if low[v] == index[v] {
			var comp []*ssa.Function
			for {
				w := stack[len(stack)-1]
				stack = stack[:len(stack)-1]
				on[w] = false
				comp = append(comp, w)
				if w == v {
					break
				}
			}
			sccs = append(sccs, comp)
		}
	}
	for _, n := range nodes {
		if _, seen := index[n]; !seen {
			strong(n)
		}
	}
	limit, okL := c.constOf(pkgReflect, "maxDepthLimit")
	if !okL {
		s.bad("maxDepthLimit", "-", "constant maxDepthLimit not found")
	}
	nRec := 0
	for _, comp := range sccs {
		self := false
		if len(comp) == 1 {
			for _, e := range adj[comp[0]] {
				if e.Callee.Func == comp[0] {
					self = true
				}
			}
			if !self {
				continue
			}
		}
		// recursion over the *type* (descriptor build: doParseType, newTType, fetchStructDesc, ...) is bounded by the finite
		// type graph and the caches; only cycles that consume the input are input-driven
		inputDriven := false
		for _, f := range comp {
			if inputParam(f) != nil {
				inputDriven = true
			}
		}
		if !inputDriven {
			continue
		}
		nRec++
		in := map[*ssa.Function]bool{}
		for _, f := range comp {
			in[f] = true
		}
		sort.Slice(comp, func(i, j int) bool { return comp[i].String() < comp[j].String() })
		maxDec := int64(0)
		allOne := true
		depthParam := map[*ssa.Function]*ssa.Parameter{}
		// depth parameter: the int parameter from which every intra-SCC call's corresponding argument derives
		for _, f := range comp {
			var cands []*ssa.Parameter
			for _, p := range f.Params {
				if isSignedInt(p.Type()) {
					cands = append(cands, p)
				}
			}
			if len(cands) == 0 {
				s.bad(shortFn(f)+":depth-param", c.Pos(f.Pos()), "recursive function in the decode closure without a depth parameter: recursion driven by the input is unbounded")
				continue
			}
			depthParam[f] = cands[len(cands)-1]
		}
		for _, f := range comp {
			dp := depthParam[f]
			if dp == nil {
				continue
			}
			// calls
			for _, e := range adj[f] {
				if !in[e.Callee.Func] || e.Site == nil {
					continue
				}
				callee := e.Callee.Func
				cdp := depthParam[callee]
				key := fmt.Sprintf("%s->%s:decrement", shortFn(f), shortFn(callee))
				if cdp == nil {
					continue
				}
				// argument index of callee's depth param
				ai := -1
				for i, p := range callee.Params {
					if p == cdp {
						ai = i
					}
				}
				args := e.Site.Common().Args
				if e.Site.Common().IsInvoke() || ai < 0 || ai >= len(args) {
					s.undec(key, c.InstrPos(e.Site), "recursive call whose depth argument cannot be identified")
					continue
				}
				arg := args[ai]
				dec, ok := decrementOf(arg, dp)
				if !ok {
					s.bad(key, c.InstrPos(e.Site), "recursive call does not pass `"+dp.Name()+" - c` (c >= 1 constant) as depth: "+c.srcLine(e.Site.Pos()))
					continue
				}
				if dec < 1 {
					s.bad(key, c.InstrPos(e.Site), fmt.Sprintf("recursive call passes the depth unchanged or increased (decrement %d): the recursion is not bounded by the depth limit", dec))
					continue
				}
				if dec != 1 {
					allOne = false
				}
				if dec > maxDec {
					maxDec = dec
				}
				// entry guard dominates the call
				g0 := entryGuard(f, dp)
				if g0 == nil {
					continue // reported below
				}
				okDom := false
				for k := 0; k < 2; k++ {
					if k != g0.errIdx && edgeDominates(g0.iff.Block(), k, e.Site.Block()) {
						okDom = true
					}
				}
				s.check(okDom, key, c.InstrPos(e.Site), fmt.Sprintf("passes %s-%d under the entry guard", dp.Name(), dec), "recursive call is not dominated by the depth test of "+shortFn(f))
			}
		}
		for _, f := range comp {
			dp := depthParam[f]
			if dp == nil {
				continue
			}
			g0 := entryGuard(f, dp)
			key := shortFn(f) + ":entry-guard"
			if g0 == nil {
				s.bad(key, c.Pos(f.Pos()), "recursive decode function does not test its depth parameter on entry: with decrements of different sizes along a cycle the counter steps over zero in the other member, the recursion is unbounded")
				continue
			}
			switch {
			case g0.op == token.EQL && g0.k == 0 && !allOne:
				s.bad(key, c.InstrPos(g0.iff), "depth is tested with == 0 but some recursive call decrements by more than 1: the counter can step over zero")
			case g0.op == token.EQL && g0.k != 0:
				s.bad(key, c.InstrPos(g0.iff), "depth is tested for equality with a non-zero constant")
			case !g0.errors:
				s.bad(key, c.InstrPos(g0.iff), "the depth-exhausted edge does not return the depth-limit error")
			default:
				s.ok(key, c.InstrPos(g0.iff), fmt.Sprintf("%s %s %d returns errDepthLimitExceeded", dp.Name(), g0.op, g0.k))
			}
		}
		if okL && maxDec > 0 {
			need := 48 * int64(len(comp)) * maxDec
			s.check(need < limit && limit <= 65536, "limit", "-",
				fmt.Sprintf("48 levels x %d functions per level x decrement %d = %d < maxDepthLimit = %d <= 65536", len(comp), maxDec, need, limit),
				fmt.Sprintf("maxDepthLimit = %d: 48 nesting levels can cost up to %d units (|SCC| = %d, max decrement %d), and the limit must stay <= 65536 frames", limit, need, len(comp), maxDec))
		}
	}
	if nRec == 0 {
		s.bad("scc", "-", "no recursive cycle found in the decode closure (the decoder's recursion anchors were not resolved)")
	}
	// root passes the constant
	if root := c.SSA[pkgReflect].Func("Decode"); root != nil {
		found := false
		for _, b := range root.Blocks {
			for _, in2 := range b.Instrs {
				call, ok := in2.(*ssa.Call)
				if !ok {
					continue
				}
				callee := call.Call.StaticCallee()
				if callee == nil || !closure[callee] || inputParam(callee) == nil || !hasContract(callee) {
					continue
				}
				found = true
				last := call.Call.Args[len(call.Call.Args)-1]
				v, isC := constInt(last)
				s.check(isC && okL && v == limit, "root:initial-depth", c.InstrPos(call), "reflect.Decode starts with maxDepthLimit", "reflect.Decode does not start the recursion with the constant maxDepthLimit (passes "+path(last)+")")
			}
		}
		if !found {
			s.bad("root:initial-depth", c.Pos(root.Pos()), "reflect.Decode does not call the struct decoder")
		}
	}
	return s.obs
}

// decrementOf: arg == dp - c  -> c (0 for dp itself).
func decrementOf(arg ssa.Value, dp *ssa.Parameter) (int64, bool) {
	if arg == ssa.Value(dp) {
		return 0, true
	}
	bo, ok := arg.(*ssa.BinOp)
	if !ok {
		return 0, false
	}
	switch bo.Op {
	case token.SUB:
		if base, ok := decrementOf(bo.X, dp); ok {
			if k, ok := constInt(bo.Y); ok {
				return base + k, true
			}
		}
	case token.ADD:
		if base, ok := decrementOf(bo.X, dp); ok {
			if k, ok := constInt(bo.Y); ok {
				return base - k, true
			}
		}
	}
	return 0, false
}

type guardInfo struct {
	iff    *ssa.If
	op     token.Token // normalised: dp OP k on the error edge
	k      int64
	errIdx int
	errors bool
}

// entryGuard finds, in the entry block chain, the test of the depth parameter whose taken edge leaves the function.
func entryGuard(f *ssa.Function, dp *ssa.Parameter) *guardInfo {
	for _, b := range f.Blocks {
		// must dominate everything that matters: only consider blocks that dominate all call sites is checked by caller;
		iff, ok := b.Instrs[len(b.Instrs)-1].(*ssa.If)
		if !ok {
			continue
		}
		bo, ok := iff.Cond.(*ssa.BinOp)
		if !ok {
			continue
		}
		var k int64
		var okK bool
		op := bo.Op
		switch {
		case bo.X == ssa.Value(dp):
			k, okK = constInt(bo.Y)
		case bo.Y == ssa.Value(dp):
			k, okK = constInt(bo.X)
			switch op {
			case token.LSS:
				op = token.GTR
			case token.LEQ:
				op = token.GEQ
			case token.GTR:
				op = token.LSS
			case token.GEQ:
				op = token.LEQ
			}
		default:
			continue
		}
		if !okK {
			continue
		}
		for idx := 0; idx < 2; idx++ {
			if !leavesFunction(b.Succs[idx]) {
				continue
			}
			eop := op
			if idx == 1 { // negate
				switch op {
				case token.EQL:
					eop = token.NEQ
				case token.NEQ:
					eop = token.EQL
				case token.LSS:
					eop = token.GEQ
				case token.LEQ:
					eop = token.GTR
				case token.GTR:
					eop = token.LEQ
				case token.GEQ:
					eop = token.LSS
				}
			}
			if eop != token.EQL && eop != token.LEQ && eop != token.LSS {
				continue
			}
			gi := &guardInfo{iff: iff, op: eop, k: k, errIdx: idx}
			gi.errors = edgeReturnsDepthErr(b.Succs[idx])
			return gi
		}
	}
	return nil
}

func edgeReturnsDepthErr(b *ssa.BasicBlock) bool {
	for cur, n := b, 0; cur != nil && n < 8; n++ {
		switch x := cur.Instrs[len(cur.Instrs)-1].(type) {
		case *ssa.Return:
			if len(x.Results) == 0 {
				return false
			}
			ev := unspill(x.Results[len(x.Results)-1], cur)
			p := path(ev)
			if mi, ok := ev.(*ssa.MakeInterface); ok {
				p = path(mi.X)
			}
			return strings.Contains(p, "errDepthLimitExceeded") || strings.Contains(strings.ToLower(p), "depth")
		case *ssa.Jump:
			cur = cur.Succs[0]
		default:
			return false
		}
	}
	return false
}
