#!/bin/bash
# usage: seedcheck.sh [seed ids...]  -- for each seeded change: apply it to a scratch worktree of /repo HEAD, run the check of the
# property it breaks (and, with ALLPROPS=1, every rule), record which rules report it in seeded/<id>/meta.json (detected_by).
cd "$(dirname "$0")/.."
wt=${SEED_WT:-/tmp/scratch/seedwt}
[ -d $wt ] || git -C /repo worktree add -q --detach $wt HEAD
ids=("$@"); [ ${#ids[@]} -eq 0 ] && ids=($(ls seeded))
miss=0
for id in "${ids[@]}"; do
  d=seeded/$id; prop=${id%%-*}
  git -C $wt checkout -q --detach $(git -C /repo rev-parse HEAD) 2>/dev/null; git -C $wt checkout -q -- . ; git -C $wt clean -fdq
  if ! git -C $wt apply "$(readlink -f $d/patch.diff)" 2>/dev/null; then echo "$id: PATCH-DOES-NOT-APPLY"; continue; fi
  out=$(bin/frugalvet -repo $wt -prop $prop -replaydir /tmp/scratch/seedreplay 2>&1); rc=$?
  own=$(echo "$out" | grep -o "\(VIOLATED\|UNDECIDED\) \[[^]]*\]" | sed 's/.*\[\(.*\)\]/\1/' | sort -u | tr '\n' ' ')
  all=$(bin/frugalvet -repo $wt -prop ALL -replaydir /tmp/scratch/seedreplay 2>&1 | grep -o "\(VIOLATED\|UNDECIDED\) \[[^]]*\]" | sed 's/.*\[\(.*\)\]/\1/' | sort -u | tr '\n' ' ')
  git -C $wt checkout -q -- .
  python3 - "$d/meta.json" "$prop" "$own" "$all" "$rc" <<'PY'
import json,sys
p,prop,own,allr,rc=sys.argv[1:]
m=json.load(open(p))
m['detected_by']={'check':prop,'exit_status':int(rc),'rules_of_its_property':own.split(),'all_rules':allr.split()}
json.dump(m,open(p,'w'),indent=1)
PY
  if [ -z "$own" ]; then echo "$id: MISSED by check $prop (other rules: ${all:-none})"; miss=$((miss+1)); else echo "$id: $prop exit=$rc rules: $own"; fi
done
echo "missed by own property check: $miss"
