#!/bin/bash
# usage: mutsweep.sh <worktree> <mutant-list> <out> [skip]   -- systematic single-edit mutants (bin/mutgen). For each mutant that
# builds, every rule is run first; only the mutants no rule reports are then put through the baseline suite (the expensive step),
# because only those can be misses. Prints "<n> <op> <file>:<line> flagged <rules>" / "killed-by-suite" / "survived UNFLAGGED" / "no-build".
# [skip]: number of leading mutants of the list already processed.
export GOFLAGS=-mod=mod GOPROXY=off GOSUMDB=off GOTOOLCHAIN=local; unset GOWORK
wt=$1; list=$2; out=$3; skip=${4:-0}
cd /verif
n=0
while IFS=$'\t' read -r file s e repl op; do
  n=$((n+1))
  [ $n -le $skip ] && continue
  git -C $wt checkout -q -- . ; git -C $wt clean -fdq
  python3 - "$wt/$file" "$s" "$e" "$repl" <<'PY'
import sys,ast
p,s,e,repl=sys.argv[1],int(sys.argv[2]),int(sys.argv[3]),ast.literal_eval(sys.argv[4])
b=open(p,'rb').read()
open(p,'wb').write(b[:s]+repl.encode()+b[e:])
PY
  line=$(head -c $s $wt/$file | wc -l); line=$((line+1))
  if ! (cd $wt && go build ./... >/dev/null 2>&1); then echo "$n $op $file:$line no-build" >> $out; continue; fi
  rules=$(bin/frugalvet -repo $wt -prop ALL -replaydir /tmp/scratch/seedreplay 2>&1 | grep -o "\(VIOLATED\|UNDECIDED\) \[[^]]*\]\|ANALYSIS-ERROR" | sed 's/.*\[\(.*\)\]/\1/' | sort -u | tr '\n' ' ')
  if [ -n "$rules" ]; then echo "$n $op $file:$line flagged $rules" >> $out; continue; fi
  ok=1
  for m in . tests fuzz; do
    if ! (cd $wt/$m && timeout 300 go test -vet=off -count=1 -failfast ./... >/dev/null 2>&1); then ok=0; break; fi
  done
  if [ $ok = 0 ]; then echo "$n $op $file:$line killed-by-suite" >> $out; continue; fi
  git -C $wt diff > /tmp/scratch/mutsweep/$(basename $out .log)_$n.diff
  echo "$n $op $file:$line survived UNFLAGGED" >> $out
done < $list
git -C $wt checkout -q -- .
echo done >> $out
