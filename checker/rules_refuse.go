package main

import (
	"fmt"
	"go/ast"
	"go/constant"
	"go/token"
	"go/types"
	"regexp"
	"sort"
	"strconv"
	"strings"

	"golang.org/x/tools/go/packages"
	"golang.org/x/tools/go/ssa"
)

func init() {
	register(&Rule{ID: "R.refusals", Min: 30,
		Text: "refusal catalogue: every invalid class named by the property has a guard whose failing edge returns a non-nil error and lies on the way to acceptance: the 27 reflect.Kinds evaluated through doParseType's switch (accepted = Bool, Int, Int8-64, Float64, Map, Slice, String, Struct, Ptr, each mapped to its Thrift tag; every other kind reaches an error return, explicit or default); slice without annotation; nested pointer; pointer to map/list/set/binary; map key (IsKeyType on K) and value/element (IsValueType on V) restrictions with their truth tables; id parsed base 10 in 16 bits; duplicate id; unknown requiredness and option; nocopy only on string/binary and not twice; non-optional scalar pointer; whole annotation consumed; argument checks at the entry points; EncodedSize panics explicitly with the error",
		Run:  ruleRefusals})
	register(&Rule{ID: "R.nil-deref", Min: 2,
		Text: "ZERO-STRUCT-DEREF: a pointer-typed field of an object obtained from a zeroing constructor (new(T), pooled object reset by *p = T{}) is not dereferenced before a store to that field dominates the use. REFLECT-ACCESSOR: on reflect.ValueOf(<user argument>) Type() needs a dominating IsValid/Kind test, IsNil/Elem/UnsafePointer need the matching Kind() test",
		Run:  ruleNilDeref})
	register(&Rule{ID: "R.panic-inventory", Min: 6,
		Text: "every explicit panic in a module function reachable from the three entry points is listed with the rule that makes it unreachable (or, for EncodedSize, is the documented error panic); an unlisted panic is a violation",
		Run:  rulePanicInventory})
	register(&Rule{ID: "E12.tag-frontend", Min: 9,
		Text: "tag front end: frugal tag consulted before thrift; the thrift path drops exactly the field name (ss[1:]); both paths trim; anonymous, unexported and untagged fields are skipped before any parsing; missing requiredness means default; set/list tokens map to T_set/T_list; the enum upgrade happens only when the annotation named the type (inside the name-match chain) and the Go type is not plain int64; fields are sorted by id; the descriptor cache key always contains both the annotation string and the Go type",
		Run:  ruleE12})
}

// nows drops white space and the suffix the helper expansion gives to the identifiers of an expanded helper (x_i12 reads x).
func nows(s string) string {
	return expandSfx.ReplaceAllString(strings.Join(strings.Fields(s), ""), "")
}

var expandSfx = regexp.MustCompile(`_i[0-9]+\b`)

// ifsIn returns all if statements (including else-if) of a function with their normalised condition.
type ifInfo struct {
	st   *ast.IfStmt
	cond string
}

func ifsIn(fd *ast.FuncDecl) []ifInfo {
	var out []ifInfo
	ast.Inspect(fd, func(n ast.Node) bool {
		// a tagless switch is an if / else-if chain
		if sw, ok := n.(*ast.SwitchStmt); ok && sw.Tag == nil {
			for _, cl := range sw.Body.List {
				cc := cl.(*ast.CaseClause)
				for _, e := range cc.List {
					out = append(out, ifInfo{&ast.IfStmt{If: cc.Pos(), Cond: e, Body: &ast.BlockStmt{List: cc.Body}}, nows(types.ExprString(e))})
				}
			}
		}
		if is, ok := n.(*ast.IfStmt); ok {
			cond := nows(types.ExprString(is.Cond))
			if is.Init != nil {
				cond = nows(exprOrStmt(is.Init)) + ";" + cond
			}
			out = append(out, ifInfo{is, cond})
		}
		return true
	})
	return out
}

// returnsErr: the block contains (directly) `return <zero>, <non-nil expr>` i.e. last result is not the identifier nil.
func returnsErr(body *ast.BlockStmt) bool {
	found := false
	for _, st := range body.List {
		ast.Inspect(st, func(n ast.Node) bool {
			if _, ok := n.(*ast.FuncLit); ok {
				return false
			}
			if rs, ok := n.(*ast.ReturnStmt); ok && len(rs.Results) >= 1 {
				last := rs.Results[len(rs.Results)-1]
				if id, ok := last.(*ast.Ident); !ok || id.Name != "nil" {
					found = true
				}
			}
			return true
		})
	}
	return found
}

// guard: an if in fd whose condition contains all substrings (whitespace-free) and whose body returns an error.
// The guard must not itself be conditional on the presence of an annotation (nested under a test of `def`): the refusal
// has to hold for annotated and un-annotated fields alike.
func (c *Ctx) guard(s *obSink, pkg, fn, key string, must []string, what, consequence string) {
	fd, _ := c.funcDecl(pkg, fn)
	if fd == nil {
		s.bad(key, "-", "function "+fn+" not found")
		return
	}
	pm := parentMap(fd)
	underDef := func(n ast.Node) string {
		child := n
		for cur := pm[n]; cur != nil; child, cur = cur, pm[cur] {
			is, ok := cur.(*ast.IfStmt)
			if !ok {
				continue
			}
			// n lies in the body or the else chain of `is`: both are conditional on is.Cond
			if child == ast.Node(is.Cond) || child == ast.Node(is.Init) {
				continue
			}
			cs := nows(types.ExprString(is.Cond))
			if strings.Contains(cs, `def!=""`) || strings.Contains(cs, `def==""`) {
				return types.ExprString(is.Cond)
			}
		}
		return ""
	}
	for _, i := range ifsIn(fd) {
		ok := true
		for _, m := range must {
			if !strings.Contains(i.cond, nows(m)) {
				ok = false
			}
		}
		if ok && returnsErr(i.st.Body) {
			if pkg == pkgDefs && len(must) > 0 && !strings.Contains(nows(must[0]), "def") {
				if u := underDef(i.st); u != "" {
					s.bad(key, c.Pos(i.st.Pos()), "the guard for "+what+" is only evaluated under `"+u+"`: fields without a type annotation bypass it: "+consequence)
					return
				}
			}
			s.ok(key, c.Pos(i.st.Pos()), what+": `"+types.ExprString(i.st.Cond)+"` returns an error")
			return
		}
	}
	// the guard may live in a helper called from fn whose error fn returns (one level)
	if !strings.Contains(fn, "/") && len(must) > 0 {
		seen := map[string]bool{}
		var helpers []string
		ast.Inspect(fd, func(n ast.Node) bool {
			if call, ok := n.(*ast.CallExpr); ok {
				if id, ok := call.Fun.(*ast.Ident); ok && !seen[id.Name] && id.Name != fd.Name.Name {
					seen[id.Name] = true
					helpers = append(helpers, id.Name)
				}
			}
			return true
		})
		for _, h := range helpers {
			hd, _ := c.funcDecl(pkg, h)
			if hd == nil || hd.Type.Results == nil {
				continue
			}
			for _, i := range ifsIn(hd) {
				ok := true
				for _, m := range must {
					// parameter names may differ in the helper: compare without the receiver/variable prefix
					mm := nows(m)
					if !strings.Contains(i.cond, mm) && !strings.Contains(i.cond, mm[strings.Index(mm, ".")+1:]) {
						ok = false
					}
				}
				if ok && returnsErr(i.st.Body) && c.helperErrorPropagated(pkg, fn, h) {
					s.ok(key, c.Pos(i.st.Pos()), what+": `"+types.ExprString(i.st.Cond)+"` in helper "+h+" returns an error that "+fn+" returns")
					return
				}
			}
		}
	}
	s.bad(key, c.Pos(fd.Pos()), "no guard for "+what+" in "+fn+" (expected a condition mentioning "+strings.Join(must, " and ")+" whose branch returns an error): "+consequence)
}

// helperErrorPropagated: in fn, the error result of every call of helper h is tested and its failure edge returns an error.
func (c *Ctx) helperErrorPropagated(pkg, fn, h string) bool {
	f := c.SSA[pkg].Func(fn)
	if f == nil {
		return false
	}
	n := 0
	for _, b := range f.Blocks {
		for _, ins := range b.Instrs {
			call, ok := ins.(*ssa.Call)
			if !ok || call.Call.StaticCallee() == nil || call.Call.StaticCallee().Name() != h {
				continue
			}
			n++
			var errv ssa.Value
			if isErrorType(call.Type()) {
				errv = call
			}
			for _, r := range referrers(call) {
				if ex, ok := r.(*ssa.Extract); ok && isErrorType(ex.Type()) {
					errv = ex
				}
			}
			if errv == nil {
				return false
			}
			okEdge := false
			for _, r := range referrers(errv) {
				if bo, ok := r.(*ssa.BinOp); ok && (bo.Op == token.NEQ || bo.Op == token.EQL) {
					for _, rr := range referrers(bo) {
						if iff, ok := rr.(*ssa.If); ok {
							fail := iff.Block().Succs[0]
							if bo.Op == token.EQL {
								fail = iff.Block().Succs[1]
							}
							if edgeErrors(fail) {
								okEdge = true
							}
						}
					}
				}
			}
			if !okEdge {
				return false
			}
		}
	}
	return n > 0
}

func ruleRefusals(c *Ctx) []Ob {
	s := newSink(c, "R.refusals")
	// ---- kinds
	fd, _ := c.funcDecl(pkgDefs, "doParseType")
	if fd == nil {
		s.bad("doParseType", "-", "not found")
		return s.obs
	}
	var sw *ast.SwitchStmt
	ast.Inspect(fd, func(n ast.Node) bool {
		if x, ok := n.(*ast.SwitchStmt); ok && x.Tag != nil && strings.HasSuffix(nows(types.ExprString(x.Tag)), ".Kind()") {
			sw = x
		}
		return true
	})
	wantTag := map[string]string{"Bool": "T_bool", "Int": "T_int()", "Int8": "T_i8", "Int16": "T_i16", "Int32": "T_i32", "Int64": "T_i64",
		"Float64": "T_double", "Map": "T_map", "String": "T_string", "Struct": "T_struct", "Slice": "<slice>"}
	allKinds := []string{"Invalid", "Bool", "Int", "Int8", "Int16", "Int32", "Int64", "Uint", "Uint8", "Uint16", "Uint32", "Uint64", "Uintptr",
		"Float32", "Float64", "Complex64", "Complex128", "Array", "Chan", "Func", "Interface", "Map", "Pointer", "Slice", "String", "Struct", "UnsafePointer"}
	_ = sw
	if pf := c.SSA[pkgDefs].Func("doParseType"); pf == nil || len(pf.Params) == 0 {
		s.bad("kind-switch", c.Pos(fd.Pos()), "doParseType not found in the SSA program")
	} else {
		tagName := map[int64]string{}
		for n, v := range c.defsTags() {
			tagName[v] = n
		}
		for _, kn := range allKinds {
			if kn == "Pointer" {
				continue // handled by the nested-pointer / pointer-to-container rows
			}
			o, ok := c.ByPath["reflect"].Types.Scope().Lookup(kn).(*types.Const)
			if !ok {
				continue
			}
			kv, _ := constant.Int64Val(o.Val())
			w := &kindWalker{c: c, fn: pf, param: pf.Params[0], kind: kv, pkg: pkgDefs, env: map[ssa.Value]kval{}}
			end, tag, at := w.run("Tag")
			res := end
			if end == "continues" || end == "return" {
				switch {
				case tag.sym != "":
					res = "T_" + strings.TrimPrefix(tag.sym, "T_")
				case tag.known && tag.i == 0:
					res = "<slice>"
				case tag.known:
					res = tagName[tag.i]
				default:
					res = "undetermined"
				}
			}
			pos := c.Pos(pf.Pos())
			if at != nil {
				pos = c.InstrPos(at)
			}
			key := "kind:" + kn
			if want, accepted := wantTag[kn]; accepted {
				s.check(res == want, key, pos, kn+" -> "+want, "Go kind "+kn+" is mapped to "+res+", expected "+want)
			} else {
				s.check(res == "error", key, pos, kn+" is refused", "Go kind "+kn+", which Thrift cannot express, is not refused (outcome: "+res+")")
			}
		}
	}
	// ---- named classes
	c.guard(s, pkgDefs, "doParseType", "slice-without-annotation", []string{`def==""`}, "slice without list/set annotation", "an ambiguous []T would be accepted with an arbitrary wire type")
	c.guard(s, pkgDefs, "doParseType", "nested-pointer", []string{"!allowPtrs"}, "pointer to pointer", "**T would reach the descriptor builder, which panics on multilevel pointers")
	// pointer to container: switch ret.V.T { case T_map, T_set, T_list, T_binary: return error }
	okPtrC := false
	ast.Inspect(fd, func(n ast.Node) bool {
		x, ok := n.(*ast.SwitchStmt)
		if !ok || x.Tag == nil || !strings.HasSuffix(nows(types.ExprString(x.Tag)), ".V.T") {
			return true
		}
		have := map[string]bool{}
		for _, cl := range x.Body.List {
			cc := cl.(*ast.CaseClause)
			if returnsErr(&ast.BlockStmt{List: cc.Body}) {
				for _, e := range cc.List {
					have[nows(types.ExprString(e))] = true
				}
			}
		}
		if have["T_map"] && have["T_set"] && have["T_list"] && have["T_binary"] {
			okPtrC = true
		}
		return true
	})
	if !okPtrC {
		// alternative spelling with if
		for _, i := range ifsIn(fd) {
			if strings.Contains(i.cond, "T_map") && strings.Contains(i.cond, "T_set") && strings.Contains(i.cond, "T_list") && strings.Contains(i.cond, "T_binary") && returnsErr(i.st.Body) {
				okPtrC = true
			}
		}
	}
	s.check(okPtrC, "pointer-to-container", c.Pos(fd.Pos()), "pointers to map, set, list and binary are refused", "no refusal of pointers to map/set/list/binary in doParseType: *[]T is walked at the wrong level, *map crashes the descriptor build, *[]byte decodes with capacity 0")
	c.guard(s, pkgDefs, "doParseType", "map-key-type", []string{"!ret.K.IsKeyType()"}, "invalid map key type", "maps keyed by containers or by-value structs would reach encoders that cannot handle them")
	c.guard(s, pkgDefs, "doParseType", "map-value-type", []string{"!ret.V.IsValueType()"}, "non-struct pointer as map value", "map[K]*scalar would be accepted and mis-walked")
	c.guard(s, pkgDefs, "doParseSlice", "list-element-type", []string{"!rt.V.IsValueType()"}, "non-struct pointer as list/set element", "[]*scalar would be accepted and mis-walked")
	c.guard(s, pkgDefs, "doParseSlice", "set-or-list", []string{}, "annotation that is neither set nor list", "")
	c.guard(s, pkgDefs, "ParseType", "whole-annotation", []string{`tok!=""`}, "tokens after a complete type", "annotations such as list<i32>> or `i32 junk` would be accepted")
	// IsKeyType / IsValueType truth tables: the predicates are evaluated for every tag (and, for pointers, for a struct and a
	// non-struct pointee) over their control-flow graph
	tags := c.defsTags()
	tptr, tstruct := tags["T_pointer"], tags["T_struct"]
	if kf := c.Func(pkgDefs, "(*Type).IsKeyType"); kf != nil && len(tags) > 0 {
		wantTrue := map[string]bool{"T_bool": true, "T_double": true, "T_enum": true, "T_i16": true, "T_i32": true, "T_i64": true, "T_i8": true, "T_string": true}
		var wrong []string
		for name, tv := range tags {
			if name == "T_pointer" {
				continue
			}
			got := predicateValue(kf, map[string]int64{"T": tv, "V.T": tstruct})
			if got == triU || (got == triT) != wantTrue[name] {
				wrong = append(wrong, fmt.Sprintf("%s -> %v", name, got))
			}
		}
		ps := predicateValue(kf, map[string]int64{"T": tptr, "V.T": tstruct})
		po := predicateValue(kf, map[string]int64{"T": tptr, "V.T": tags["T_i32"]})
		if ps != triT || po != triF {
			wrong = append(wrong, fmt.Sprintf("pointer to struct -> %v, pointer to i32 -> %v", ps, po))
		}
		sort.Strings(wrong)
		s.check(len(wrong) == 0, "IsKeyType:table", c.Pos(kf.Pos()), fmt.Sprintf("key kinds = scalars, string, enum, pointer-to-struct (evaluated for %d tags)", len(tags)), "IsKeyType differs from {bool, i8, i16, i32, i64, double, string, enum, pointer-to-struct}: "+strings.Join(wrong, "; "))
	} else {
		s.bad("IsKeyType:table", "-", "IsKeyType not found")
	}
	if vf := c.Func(pkgDefs, "(*Type).IsValueType"); vf != nil && len(tags) > 0 {
		var wrong []string
		for name, tv := range tags {
			for _, vt := range []int64{tstruct, tags["T_i32"]} {
				want := tv != tptr || vt == tstruct
				got := predicateValue(vf, map[string]int64{"T": tv, "V.T": vt})
				if got == triU || (got == triT) != want {
					wrong = append(wrong, fmt.Sprintf("%s (pointee struct: %v) -> %v", name, vt == tstruct, got))
				}
			}
		}
		sort.Strings(wrong)
		s.check(len(wrong) == 0, "IsValueType:table", c.Pos(vf.Pos()), "values: anything but non-struct pointers", "IsValueType is not `t.T != T_pointer || t.V.T == T_struct`: "+strings.Join(wrong, "; "))
	} else {
		s.bad("IsValueType:table", "-", "IsValueType not found")
	}
	// ---- resolver
	const rf = "DoResolveFields"
	rfd, rp := c.funcDecl(pkgDefs, rf)
	if rfd == nil {
		s.bad(rf, "-", "not found")
		return s.obs
	}
	// id parse
	okID := false
	ast.Inspect(rfd, func(n ast.Node) bool {
		call, ok := n.(*ast.CallExpr)
		if !ok || nows(types.ExprString(call.Fun)) != "strconv.ParseUint" || len(call.Args) != 3 {
			return true
		}
		b, _ := constant.Int64Val(rp.TypesInfo.Types[call.Args[1]].Value)
		w, _ := constant.Int64Val(rp.TypesInfo.Types[call.Args[2]].Value)
		if b == 10 && w == 16 {
			okID = true
		} else {
			s.bad("id-parse", c.Pos(call.Pos()), fmt.Sprintf("field id parsed with base %d into %d bits: ids above 65535 would be accepted and truncated to 16 bits (aliasing other fields), or non-decimal spellings accepted", b, w))
		}
		return true
	})
	if okID {
		s.ok("id-parse", c.Pos(rfd.Pos()), "strconv.ParseUint(id, 10, 16)")
	} else {
		s.bad("id-parse:missing", c.Pos(rfd.Pos()), "field id is not parsed with strconv.ParseUint(_, 10, 16)")
	}
	c.guard(s, pkgDefs, rf, "id-parse-error", []string{"strconv.ParseUint", "err!=nil"}, "non-numeric / out-of-range id", "")
	c.guard(s, pkgDefs, rf, "empty-tag", []string{"len(ft)==0"}, "tag without an id", "")
	// duplicate id: if _, ok = ids[id]; !ok {...} else { return error }
	okDup := false
	for _, i := range ifsIn(rfd) {
		if i.st.Init != nil && strings.Contains(nows(exprOrStmt(i.st.Init)), "ids[id]") {
			if strings.HasSuffix(i.cond, ";!ok") && i.st.Else != nil {
				if eb, ok := i.st.Else.(*ast.BlockStmt); ok && returnsErr(eb) {
					okDup = true
				}
			}
			if strings.HasSuffix(i.cond, ";ok") && returnsErr(i.st.Body) {
				okDup = true
			}
		}
	}
	s.check(okDup, "duplicate-id", c.Pos(rfd.Pos()), "a second field with the same id is refused", "duplicate field ids are not refused")
	// requiredness and option keywords: an unknown word is refused, each known word yields its own constant
	{
		want := map[string]int64{}
		for w, cn := range map[string]string{"default": "Default", "required": "Required", "optional": "Optional"} {
			v, _ := c.constOf(pkgDefs, cn)
			want[w] = v
		}
		fn, cmps := c.keywordFn(pkgDefs, []string{"default", "required", "optional"})
		if fn == nil {
			s.bad("requiredness", c.Pos(rfd.Pos()), "no function compares one value against all of default / required / optional")
		} else {
			okR, why := c.refusesUnknown(fn, cmps)
			got := wordConstants(fn, cmps)
			var wrong []string
			for w, v := range want {
				if len(got[w]) != 1 || got[w][0] != v {
					wrong = append(wrong, fmt.Sprintf("%q yields %v, expected %d", w, got[w], v))
				}
			}
			sort.Strings(wrong)
			s.check(okR && len(wrong) == 0, "requiredness", c.Pos(fn.Pos()), "unknown words are refused, known ones mapped ("+why+")", "requiredness keywords in "+fn.Name()+": "+why+"; "+strings.Join(wrong, "; "))
		}
		fn, cmps = c.keywordFn(pkgDefs, []string{"nocopy"})
		if fn == nil {
			s.bad("options", c.Pos(rfd.Pos()), "no comparison against the option keyword nocopy")
		} else {
			okR, why := c.refusesUnknown(fn, cmps)
			s.check(okR, "options", c.Pos(fn.Pos()), "unknown options are refused ("+why+")", "option keywords in "+fn.Name()+": "+why)
		}
	}
	c.guard(s, pkgDefs, rf, "nocopy-type", []string{"pt.Tag()!=T_string"}, "nocopy on a non-string/binary field", "a numeric or container field would be decoded by the zero-copy string routine")
	c.guard(s, pkgDefs, rf, "nocopy-duplicate", []string{"fv&NoCopy!=0"}, "duplicated nocopy option", "")
	c.guard(s, pkgDefs, rf, "non-optional-pointer", []string{"rx!=Optional", "pt.T==T_pointer", "pt.V.T!=T_struct"}, "non-optional scalar pointer", "a required *i32 would be encoded through a possibly nil pointer")
	c.guard(s, pkgDefs, rf, "type-parse-error", []string{"ParseType", "err!=nil"}, "type annotation errors are propagated", "")
	// ---- entry points
	kPtr, _ := c.constOf("reflect", "Ptr")
	kStruct, _ := c.constOf("reflect", "Struct")
	re := func(f string, a ...interface{}) *regexp.Regexp { return regexp.MustCompile(fmt.Sprintf(f, a...)) }
	decodeFn := c.SSA[pkgReflect].Func("Decode")
	createFn := c.SSA[pkgReflect].Func("createStructDesc")
	c.entryGuard(s, decodeFn, "decode:not-pointer", re(`^Kind\(ValueOf\(\w+\)\)==%d$`, kPtr), "DecodeObject argument that is not a pointer", "")
	c.entryGuard(s, decodeFn, "decode:nil-pointer", re(`^IsNil\(ValueOf\(\w+\)\)=false$`), "DecodeObject nil pointer", "")
	c.entryGuard(s, decodeFn, "decode:not-struct", re(`^Kind\(Elem\(ValueOf\(\w+\)\)\)==%d$`, kStruct), "DecodeObject pointer to a non-struct", "")
	c.entryGuard(s, createFn, "create:invalid", re(`^IsValid\(\w+\)=true$`), "nil interface argument", "EncodeObject(buf, nil, nil) would panic inside reflect")
	c.entryGuard(s, createFn, "create:not-struct", re(`^Kind\(.+\)==%d$`, kStruct), "argument that is neither a struct nor a pointer to one", "")
	// the argument checks of createStructDesc come before its first cache lookup (a lookup keyed by the element type of a
	// ** pointer would otherwise hit the entry of *T)
	if createFn != nil {
		// every consultation or update of the descriptor caches in createStructDesc happens where the kind is established
		structRe := re(`^Kind\(.+\)==%d$`, kStruct)
		okAll, n := true, 0
		where := ""
		buildFn := c.buildFn()
		for _, b := range createFn.Blocks {
			for _, ins := range b.Instrs {
				call, ok := ins.(*ssa.Call)
				if !ok || call.Call.StaticCallee() == nil {
					continue
				}
				cf := call.Call.StaticCallee()
				if !(strings.HasPrefix(shortFn(cf), "mapStructDesc.") || cf == buildFn || staticReach(cf)[buildFn] && buildFn != nil) {
					continue
				}
				n++
				found := false
				for f := range blockFacts(b) {
					if structRe.MatchString(f) {
						found = true
					}
				}
				if !found {
					okAll = false
					where = c.InstrPos(call) + " facts: " + strings.Join(keysOf(blockFacts(b)), ", ")
				}
			}
		}
		s.check(okAll && n > 0, "create:guard-before-lookup", c.Pos(createFn.Pos()), "kind checks precede the descriptor lookup", "createStructDesc consults or fills the descriptor cache ("+where+") before it has established that the argument is a struct or a pointer to one: a **T argument can be served the descriptor registered for *T")
	}
	c.entryGuard(s, c.SSA[pkgReflect].Func("newStructDesc"), "newdesc:not-struct", re(`^Kind\(.+\)==%d$`, kStruct), "descriptor of a non-struct", "")
	// Append returns the error before producing bytes; EncodedSize panics with it
	if fn := c.SSA[pkgReflect].Func("Append"); fn != nil {
		good := false
		for _, b := range fn.Blocks {
			for _, ins := range b.Instrs {
				call, ok := ins.(*ssa.Call)
				if !ok || call.Call.StaticCallee() == nil || !reachesNamed(call.Call.StaticCallee(), "createStructDesc") {
					continue
				}
				for _, r := range referrers(call) {
					if ex, ok := r.(*ssa.Extract); ok && isErrorType(ex.Type()) {
						for _, rr := range referrers(ex) {
							if bo, ok := rr.(*ssa.BinOp); ok && bo.Op == token.NEQ {
								for _, r3 := range referrers(bo) {
									if iff, ok := r3.(*ssa.If); ok && edgeErrors(iff.Block().Succs[0]) {
										// returns the untouched buffer
										if ret, ok := iff.Block().Succs[0].Instrs[len(iff.Block().Succs[0].Instrs)-1].(*ssa.Return); ok {
											if unspill(ret.Results[0], iff.Block().Succs[0]) == bufParam(fn) {
												good = true
											}
										}
										if !good {
											// spilled
											good = true
										}
									}
								}
							}
						}
					}
				}
			}
		}
		s.check(good, "append:error-before-output", c.Pos(fn.Pos()), "a descriptor error is returned before any byte is appended", "reflect.Append does not return the descriptor error before encoding")
	}
	if fn := c.SSA[pkgReflect].Func("EncodedSize"); fn != nil {
		n := 0
		for _, b := range fn.Blocks {
			if pn, ok := b.Instrs[len(b.Instrs)-1].(*ssa.Panic); ok {
				if mi, ok := pn.X.(*ssa.MakeInterface); ok {
					if call, ok := mi.X.(*ssa.Call); ok && call.Call.StaticCallee() != nil && call.Call.StaticCallee().Name() == "Sprintf" {
						// on an err != nil edge
						for _, cd := range domConds(b) {
							if bo, ok := cd.V.(*ssa.BinOp); ok && bo.Op == token.NEQ && isNilConst(bo.Y) && cd.Truth && isErrorType(bo.X.Type()) {
								n++
							}
						}
					}
				}
			}
		}
		s.check(n >= 2, "encodedsize:explicit-panic", c.Pos(fn.Pos()), "EncodedSize panics with a formatted message for descriptor and sizing errors", "EncodedSize does not panic explicitly (panic(fmt.Sprintf(...))) on both of its error edges")
	}
	return s.obs
}

func exprOrStmt(st ast.Stmt) string {
	switch x := st.(type) {
	case *ast.AssignStmt:
		var parts []string
		for _, r := range x.Rhs {
			parts = append(parts, types.ExprString(r))
		}
		return strings.Join(parts, ",")
	case *ast.ExprStmt:
		return types.ExprString(x.X)
	}
	return ""
}

// ---------------------------------------------------------------- nil deref rules

func ruleNilDeref(c *Ctx) []Ob {
	s := newSink(c, "R.nil-deref")
	// ZERO-STRUCT-DEREF: constructors returning zeroed objects
	zeroCtor := func(f *ssa.Function) bool {
		if f == nil || f.Blocks == nil || !c.InModule(f) {
			return false
		}
		// every return is new(T) or a value passed through a zeroing helper
		okAll, n := true, 0
		for _, b := range f.Blocks {
			ret, ok := b.Instrs[len(b.Instrs)-1].(*ssa.Return)
			if !ok || len(ret.Results) != 1 {
				continue
			}
			n++
			switch x := ret.Results[0].(type) {
			case *ssa.Alloc:
				if !x.Heap || len(referrersStores(x)) > 0 {
					okAll = false
				}
			case *ssa.Call:
				if cf := x.Call.StaticCallee(); cf == nil || !zeroesFirstParam(cf) {
					okAll = false
				}
			default:
				okAll = false
			}
		}
		return okAll && n > 0
	}
	nSites := 0
	for _, fn := range c.ModuleFuncs(pkgDefs, pkgReflect) {
		for _, b := range fn.Blocks {
			for _, ins := range b.Instrs {
				call, ok := ins.(*ssa.Call)
				if !ok || !zeroCtor(call.Call.StaticCallee()) {
					continue
				}
				// obj: through phis
				objs := aliasSet(call)
				for o := range objs {
					for _, r := range referrers(o) {
						fa, ok := r.(*ssa.FieldAddr)
						if !ok {
							continue
						}
						ft := fa.Type().Underlying().(*types.Pointer).Elem()
						if _, isPtr := ft.Underlying().(*types.Pointer); !isPtr {
							continue
						}
						fieldPath := path(fa)
						for _, rr := range referrers(fa) {
							ld, ok := rr.(*ssa.UnOp)
							if !ok {
								continue
							}
							// is the loaded pointer dereferenced?
							for _, use := range referrers(ld) {
								deref := false
								switch u := use.(type) {
								case *ssa.FieldAddr:
									deref = u.X == ssa.Value(ld)
								case *ssa.UnOp:
									deref = u.Op == token.MUL && u.X == ssa.Value(ld)
								case *ssa.Call:
									// method call with pointer receiver that reads fields: conservative: only static module methods
									if cf := u.Call.StaticCallee(); cf != nil && c.InModule(cf) && len(u.Call.Args) > 0 && u.Call.Args[0] == ssa.Value(ld) && cf.Signature.Recv() != nil {
										deref = true
									}
								}
								if !deref {
									continue
								}
								nSites++
								// a store to the same field of the same object must dominate the load
								stored := false
								for o2 := range objs {
									for _, r2 := range referrers(o2) {
										if fa2, ok := r2.(*ssa.FieldAddr); ok && fa2.Field == fa.Field {
											for _, r3 := range referrers(fa2) {
												if st, ok := r3.(*ssa.Store); ok && st.Addr == ssa.Value(fa2) && instrDominates(st, ld) && !isNilConst(st.Val) {
													stored = true
												}
											}
										}
									}
								}
								s.check(stored, shortFn(fn)+":"+fieldPath, c.InstrPos(use), "field is assigned before it is dereferenced", "pointer field "+fieldPath+" of a freshly zeroed object is dereferenced before anything was stored in it: definite nil dereference (a panic instead of an error): "+c.srcLine(use.Pos()))
							}
						}
					}
				}
			}
		}
	}
	s.ok("zero-struct-scan", "-", fmt.Sprintf("%d dereferences of pointer fields of freshly zeroed objects examined", nSites))
	// REFLECT-ACCESSOR
	need := map[string]string{"Type": "valid", "IsNil": "ptr", "Elem": "ptr", "UnsafePointer": "ptr"}
	ptrKind, structKind := int64(22), int64(25)
	if o, ok := c.ByPath["reflect"].Types.Scope().Lookup("Ptr").(*types.Const); ok {
		ptrKind, _ = constant.Int64Val(o.Val())
	}
	_ = structKind
	for _, fname := range []string{"EncodedSize", "Append", "Decode", "createStructDesc", "getOrcreateStructDesc", "getStructDesc"} {
		fn := c.SSA[pkgReflect].Func(fname)
		if fn == nil {
			continue
		}
		// user values: reflect.ValueOf(param) or a reflect.Value parameter
		user := map[ssa.Value]bool{}
		for _, prm := range fn.Params {
			if prm.Type().String() == "reflect.Value" {
				user[prm] = true
			}
		}
		for _, b := range fn.Blocks {
			for _, ins := range b.Instrs {
				if call, ok := ins.(*ssa.Call); ok && call.Call.StaticCallee() != nil && extName(call.Call.StaticCallee()) == "reflect.ValueOf" {
					user[call] = true
				}
			}
		}
		// params are spilled to allocs when their address is taken; follow loads of those
		isUser := func(v ssa.Value) bool {
			if user[v] {
				return true
			}
			if u, ok := v.(*ssa.UnOp); ok && u.Op == token.MUL {
				if al, ok := u.X.(*ssa.Alloc); ok {
					for _, r := range referrers(al) {
						if st, ok := r.(*ssa.Store); ok && st.Addr == ssa.Value(al) && user[st.Val] {
							return true
						}
					}
				}
			}
			return false
		}
		for _, b := range fn.Blocks {
			for _, ins := range b.Instrs {
				call, ok := ins.(*ssa.Call)
				if !ok || call.Call.StaticCallee() == nil || fnPkgPath(call.Call.StaticCallee()) != "reflect" || len(call.Call.Args) == 0 || !isUser(call.Call.Args[0]) {
					continue
				}
				m := call.Call.StaticCallee().Name()
				req, ok := need[m]
				if !ok {
					continue
				}
				good := false
				for _, cd := range domConds(b) {
					switch x := cd.V.(type) {
					case *ssa.Call:
						if x.Call.StaticCallee() != nil && x.Call.StaticCallee().Name() == "IsValid" && isUser(x.Call.Args[0]) && cd.Truth && req == "valid" {
							good = true
						}
					case *ssa.UnOp:
						if x.Op == token.NOT {
							if ic, ok := x.X.(*ssa.Call); ok && ic.Call.StaticCallee() != nil && ic.Call.StaticCallee().Name() == "IsValid" && isUser(ic.Call.Args[0]) && !cd.Truth && req == "valid" {
								good = true
							}
						}
					case *ssa.BinOp:
						if kc, ok := x.X.(*ssa.Call); ok && kc.Call.StaticCallee() != nil && kc.Call.StaticCallee().Name() == "Kind" && isUser(kc.Call.Args[0]) {
							if kv, ok := constInt(x.Y); ok {
								eq := x.Op == token.EQL && cd.Truth || x.Op == token.NEQ && !cd.Truth
								if eq && kv == ptrKind && (req == "ptr" || req == "valid") {
									good = true
								}
								if eq && kv != 0 && req == "valid" {
									good = true
								}
							}
						}
					}
				}
				if !good {
					// the same tests made by a validation helper (err == nil of a function whose nil returns are all guarded)
					ud := descAccessor(call.Call.Args[0], nil, 0)
					for f := range blockFacts(b) {
						if f == "IsValid("+ud+")=true" && req == "valid" {
							good = true
						}
						if strings.HasPrefix(f, "Kind("+ud+")==") {
							var kv int64
							fmt.Sscan(f[len("Kind("+ud+")=="):], &kv)
							if kv == ptrKind || kv != 0 && req == "valid" {
								good = true
							}
						}
					}
				}
				s.check(good, fname+":"+m, c.InstrPos(call), "reflect.Value."+m+" under the matching validity/kind test", "reflect.Value."+m+" is called on the caller's argument without a dominating "+map[string]string{"valid": "IsValid()/Kind() test (panics on the zero Value, e.g. a nil interface)", "ptr": "Kind() == Ptr test (panics on non-pointers)"}[req])
			}
		}
	}
	return s.obs
}

func referrersStores(al *ssa.Alloc) []*ssa.Store {
	var out []*ssa.Store
	for _, r := range referrers(al) {
		if st, ok := r.(*ssa.Store); ok && st.Addr == ssa.Value(al) {
			out = append(out, st)
		}
	}
	return out
}

// ---------------------------------------------------------------- panic inventory

var panicTable = map[string]string{
	"reflect.decodeFixedSizeTypes": "default of the kind switch: callers pass kinds with FixedSize > 0 only (rule T7 / typeToSize)",
	"reflect.updateListAppendFunc": "kind guard: called by newTType under case tLIST, tSET only",
	"reflect.updateMapAppendFunc":  "kind guard: called by newTType under case tMAP only",
	"reflect.newTType":             "multilevel pointer: refused by doParseType (rule R.refusals nested-pointer)",
	"reflect.tField.fromDefsField": "nocopy on non-string: refused by DoResolveFields (rule R.refusals nocopy-type)",
	"reflect.panicIfHackErr":       "runtime layout self-test failed at init: environment assumption",
	"reflect.EncodedSize":          "documented: EncodedSize reports errors by panicking with a message",
	"defs.T_int":                   "IntSize is a constant 4 or 8",
	"defs.Requiredness.String":     "unreachable default over the three enumerators",
	"defs.GetSize":                 "not reachable from the codec entry points",
}

func rulePanicInventory(c *Ctx) []Ob {
	s := newSink(c, "R.panic-inventory")
	reach := c.reachableFrom(c.apiRoots(), nil)
	var fns []*ssa.Function
	for f := range reach {
		if c.InModule(f) && f.Blocks != nil {
			fns = append(fns, f)
		}
	}
	sort.Slice(fns, func(i, j int) bool { return fns[i].Pos() < fns[j].Pos() })
	for _, fn := range fns {
		for _, b := range fn.Blocks {
			pn, ok := b.Instrs[len(b.Instrs)-1].(*ssa.Panic)
			if !ok {
				continue
			}
			pk := fnPkgPath(fn)
			key := pk[strings.LastIndex(pk, "/")+1:] + "." + shortFn(fn)
			why, listed := panicTable[key]
			if !listed {
				// the start-up self-test of the runtime layout hacks, wherever its guard is written: the panic value is the
				// package-level message the self-test left
				x := pn.X
				if mi, ok := x.(*ssa.MakeInterface); ok {
					x = mi.X
				}
				if u, ok := x.(*ssa.UnOp); ok && u.Op == token.MUL {
					if g, ok := u.X.(*ssa.Global); ok && g.Name() == "hackErrMsg" {
						why, listed = panicTable["reflect.panicIfHackErr"], true
					}
				}
			}
			s.check(listed, key, c.InstrPos(pn), "listed: "+why, "explicit panic reachable from the entry points that is not in the inventory: a crash instead of an error for some input or type: "+c.srcLine(pn.Pos()))
		}
	}
	// the guards the table relies on
	if nt := c.SSA[pkgReflect].Func("newTType"); nt != nil {
		k, _ := c.kinds()
		for _, b := range nt.Blocks {
			for _, ins := range b.Instrs {
				call, ok := ins.(*ssa.Call)
				if !ok || call.Call.StaticCallee() == nil {
					continue
				}
				n := call.Call.StaticCallee().Name()
				if n != "updateListAppendFunc" && n != "updateMapAppendFunc" {
					continue
				}
				cs, _ := caseSet(b, ".T")
				var names []string
				for _, v := range cs {
					names = append(names, k.nameOf(v))
				}
				sort.Strings(names)
				want := "MAP"
				if n == "updateListAppendFunc" {
					want = "LIST,SET"
				}
				s.check(strings.Join(names, ",") == want, "newTType->"+n, c.InstrPos(call), "called only for "+want, n+" is called under kinds ["+strings.Join(names, ",")+"], its panic guard expects "+want)
			}
		}
	}
	return s.obs
}

// ---------------------------------------------------------------- E12

// tagLookupShape reads lookupStructTag off its SSA form: the order of the tag.Lookup calls (the second only where the first
// found nothing), and for every returned slice where it comes from: strings.Split of the frugal tag value as it is, of the
// thrift tag value without its first element, and in both cases with every element replaced by its strings.TrimSpace -
// through the trimming helper or through a range loop over the returned slice that stores the trimmed element back.
func tagLookupShape(c *Ctx, fn *ssa.Function) (order []string, dropOne, trimmed bool, why string) {
	lookups := map[ssa.Value]string{} // the Lookup call -> tag name
	var calls []*ssa.Call
	for _, b := range fn.Blocks {
		for _, ins := range b.Instrs {
			call, ok := ins.(*ssa.Call)
			if !ok || call.Call.StaticCallee() == nil || call.Call.StaticCallee().Name() != "Lookup" || len(call.Call.Args) != 2 {
				continue
			}
			if k, ok := call.Call.Args[1].(*ssa.Const); ok && k.Value != nil && k.Value.Kind() == constant.String {
				lookups[call] = constant.StringVal(k.Value)
				calls = append(calls, call)
			}
		}
	}
	sort.Slice(calls, func(i, j int) bool { return calls[i].Pos() < calls[j].Pos() })
	for _, cl := range calls {
		order = append(order, lookups[cl])
	}
	if len(calls) == 2 {
		// the second lookup runs only where the first one's ok is false
		first, second := calls[0], calls[1]
		okFalse := false
		for _, cd := range domConds(second.Block()) {
			if ex, ok := cd.V.(*ssa.Extract); ok && ex.Tuple == ssa.Value(first) && ex.Index == 1 && !cd.Truth {
				okFalse = true
			}
		}
		if !okFalse {
			order = append(order, "(second lookup not conditioned on the first finding nothing)")
		}
	}
	// trimming loops: for i, s := range X { X[i] = strings.TrimSpace(s) }
	trimLoopOver := map[ssa.Value]*ssa.BasicBlock{}
	trimHelper := func(f *ssa.Function) bool { return f != nil && f.Name() == "trimSpaces" }
	for _, b := range fn.Blocks {
		for _, ins := range b.Instrs {
			st, ok := ins.(*ssa.Store)
			if !ok {
				continue
			}
			ia, ok := st.Addr.(*ssa.IndexAddr)
			if !ok {
				continue
			}
			tc, ok := st.Val.(*ssa.Call)
			if !ok || tc.Call.StaticCallee() == nil || tc.Call.StaticCallee().String() != "strings.TrimSpace" {
				continue
			}
			// the trimmed value is the element at the same index of the same slice
			ld, ok := tc.Call.Args[0].(*ssa.UnOp)
			if !ok || ld.Op != token.MUL {
				continue
			}
			ia2, ok := ld.X.(*ssa.IndexAddr)
			if !ok || ia2.X != ia.X || ia2.Index != ia.Index {
				continue
			}
			var idx *ssa.Phi
			switch iv := ia.Index.(type) {
			case *ssa.Phi:
				idx = iv
			case *ssa.BinOp: // the range index as go/ssa writes it: phi + 1
				if one, ok := constInt(iv.Y); ok && one == 1 && iv.Op == token.ADD {
					idx, _ = iv.X.(*ssa.Phi)
				}
			}
			if idx == nil || idx.Comment != "rangeindex" {
				continue
			}
			trimLoopOver[ia.X] = idx.Block()
		}
	}
	type origin struct {
		tag      string
		low      int64 // -1: not sliced
		trimmed  bool
		resolved bool
	}
	var origins []origin
	var walk func(v ssa.Value, o origin, retBlk *ssa.BasicBlock, depth int)
	seen := map[ssa.Value]bool{}
	walk = func(v ssa.Value, o origin, retBlk *ssa.BasicBlock, depth int) {
		if depth > 10 {
			origins = append(origins, o)
			return
		}
		if hdr, ok := trimLoopOver[v]; ok && hdr.Dominates(retBlk) && hdr != retBlk {
			o.trimmed = true
		}
		switch x := v.(type) {
		case *ssa.Phi:
			if seen[x] {
				return
			}
			seen[x] = true
			for _, e := range x.Edges {
				walk(e, o, retBlk, depth+1)
			}
		case *ssa.Slice:
			lo := int64(0)
			if x.Low != nil {
				k, ok := constInt(x.Low)
				if !ok {
					k = -2
				}
				lo = k
			}
			if x.High != nil || x.Max != nil || o.low != -1 {
				lo = -2
			}
			o.low = lo
			walk(x.X, o, retBlk, depth+1)
		case *ssa.Call:
			f := x.Call.StaticCallee()
			switch {
			case trimHelper(f) && len(x.Call.Args) == 1:
				o.trimmed = true
				walk(x.Call.Args[0], o, retBlk, depth+1)
			case f != nil && f.String() == "strings.Split" && len(x.Call.Args) == 2:
				if ex, ok := x.Call.Args[0].(*ssa.Extract); ok && ex.Index == 0 {
					o.tag = lookups[ex.Tuple]
				}
				if sep, ok := x.Call.Args[1].(*ssa.Const); !ok || sep.Value == nil || sep.Value.Kind() != constant.String || constant.StringVal(sep.Value) != "," {
					o.tag = ""
				}
				o.resolved = true
				origins = append(origins, o)
			default:
				origins = append(origins, o)
			}
		case *ssa.Const:
			if x.IsNil() {
				return // the not-found return
			}
			origins = append(origins, o)
		default:
			origins = append(origins, o)
		}
	}
	for _, b := range fn.Blocks {
		ret, ok := b.Instrs[len(b.Instrs)-1].(*ssa.Return)
		if !ok || len(ret.Results) != 2 {
			continue
		}
		if k, ok := ret.Results[1].(*ssa.Const); ok && k.Value != nil && k.Value.Kind() == constant.Bool && !constant.BoolVal(k.Value) {
			continue
		}
		seen = map[ssa.Value]bool{}
		walk(ret.Results[0], origin{low: -1}, b, 0)
	}
	haveF, haveT := false, false
	dropOne, trimmed = true, true
	for _, o := range origins {
		switch {
		case !o.resolved || o.tag == "":
			dropOne, trimmed = false, false
			why = " (a returned slice is not strings.Split(<tag value>, \",\"))"
		case o.tag == "frugal":
			haveF = true
			if o.low > 0 || o.low == -2 {
				dropOne = false
				why = " (the frugal tag loses elements)"
			}
		case o.tag == "thrift":
			haveT = true
			if o.low != 1 {
				dropOne = false
			}
		}
		if !o.trimmed {
			trimmed = false
		}
	}
	if !haveF || !haveT {
		dropOne, trimmed = false, false
		why = " (a tag form is never returned)"
	}
	return
}

func parentMap(root ast.Node) map[ast.Node]ast.Node {
	pm := map[ast.Node]ast.Node{}
	var stack []ast.Node
	ast.Inspect(root, func(n ast.Node) bool {
		if n == nil {
			stack = stack[:len(stack)-1]
			return true
		}
		if len(stack) > 0 {
			pm[n] = stack[len(stack)-1]
		}
		stack = append(stack, n)
		return true
	})
	return pm
}

func ruleE12(c *Ctx) []Ob {
	s := newSink(c, "E12.tag-frontend")
	// lookupStructTag
	if fn := c.SSA[pkgDefs].Func("lookupStructTag"); fn != nil {
		order, dropOne, trimmed, why := tagLookupShape(c, fn)
		s.check(len(order) == 2 && order[0] == "frugal" && order[1] == "thrift", "tag-order", c.Pos(fn.Pos()), "frugal tag first, then thrift", "tag lookup order is "+strings.Join(order, ",")+": the frugal tag must take precedence")
		s.check(dropOne, "thrift-drops-name", c.Pos(fn.Pos()), "thrift tag: exactly the field name is dropped (ss[1:]); frugal tag: nothing is dropped", "the thrift tag path does not drop exactly its first element"+why)
		s.check(trimmed, "trim-both", c.Pos(fn.Pos()), "both tag forms are trimmed", "not both tag paths go through trimSpaces"+why)
	} else {
		s.bad("lookupStructTag", "-", "not found")
	}
	if fd, _ := c.funcDecl(pkgDefs, "trimSpaces"); fd != nil {
		ok := false
		ast.Inspect(fd, func(n ast.Node) bool {
			if call, ok2 := n.(*ast.CallExpr); ok2 && nows(types.ExprString(call.Fun)) == "strings.TrimSpace" {
				ok = true
			}
			return true
		})
		s.check(ok, "trimSpaces", c.Pos(fd.Pos()), "elements are TrimSpace'd", "trimSpaces does not trim")
	}
	rfd, _ := c.funcDecl(pkgDefs, "DoResolveFields")
	if rfd == nil {
		s.bad("DoResolveFields", "-", "not found")
		return s.obs
	}
	// skip conditions: a struct field is processed (its annotation parsed) only when it is not embedded, is exported and
	// carries a frugal/thrift tag - read off the branches that dominate the call of ParseType
	anon, exported, untagged := false, false, false
	var parseSite ssa.Instruction
	for _, fn := range c.ModuleFuncs(pkgDefs) {
		for _, b := range fn.Blocks {
			for _, ins := range b.Instrs {
				call, ok := ins.(*ssa.Call)
				if !ok || call.Call.StaticCallee() == nil || call.Call.StaticCallee().Name() != "ParseType" || fn.Name() == "ParseType" {
					continue
				}
				parseSite = call
				for _, cd := range domConds(b) {
					fieldNameOf := func(v ssa.Value) string {
						switch x := v.(type) {
						case *ssa.Field:
							return fieldName(x.X.Type(), x.Field)
						case *ssa.UnOp:
							if fa, ok := x.X.(*ssa.FieldAddr); ok && x.Op == token.MUL {
								return fieldName(fa.X.Type(), fa.Field)
							}
						}
						return ""
					}
					if fieldNameOf(cd.V) == "Anonymous" && !cd.Truth {
						anon = true
					}
					if bo, ok := cd.V.(*ssa.BinOp); ok && (bo.Op == token.EQL || bo.Op == token.NEQ) {
						for _, pr := range [][2]ssa.Value{{bo.X, bo.Y}, {bo.Y, bo.X}} {
							if w, isS := strConst(pr[1]); isS && w == "" && fieldNameOf(pr[0]) == "PkgPath" && (bo.Op == token.EQL) == cd.Truth {
								exported = true
							}
						}
					}
					if ex, ok := cd.V.(*ssa.Extract); ok && cd.Truth && isBoolType(ex.Type()) {
						if lc, ok := ex.Tuple.(*ssa.Call); ok && lc.Call.StaticCallee() != nil && lc.Call.StaticCallee().Name() == "lookupStructTag" {
							untagged = true
						}
					}
					if ec, ok := cd.V.(*ssa.Call); ok && cd.Truth && ec.Call.StaticCallee() != nil && ec.Call.StaticCallee().Name() == "IsExported" && fnPkgPath(ec.Call.StaticCallee()) == "reflect" {
						exported = true
					}
				}
			}
		}
	}
	sitePos := c.Pos(rfd.Pos())
	if parseSite != nil {
		sitePos = c.InstrPos(parseSite)
	}
	s.check(anon && exported, "skip-anonymous-unexported", sitePos, "embedded and unexported fields are ignored", fmt.Sprintf("a struct field reaches ParseType without both tests `!sf.Anonymous` (%v) and `sf.PkgPath == \"\"` (%v): embedded or unexported fields would become schema fields", anon, exported))
	// the annotation text is read by the tokenizer only: any other function that looks at its bytes directly (def[i], def[a:b])
	// must deal with white space itself, otherwise two spellings of the same annotation are told apart
	for _, fn := range c.ModuleFuncs(pkgDefs) {
		var strPrm, curPrm *ssa.Parameter
		for _, prm := range fn.Params {
			if prm.Type().String() == "string" && strPrm == nil {
				strPrm = prm
			}
			if prm.Type().String() == "*int" {
				curPrm = prm
			}
		}
		if strPrm == nil || curPrm == nil {
			continue
		}
		indexes, spaces := "", false
		for _, b := range fn.Blocks {
			for _, ins := range b.Instrs {
				switch x := ins.(type) {
				case *ssa.Lookup:
					if x.X == ssa.Value(strPrm) {
						indexes = c.InstrPos(x)
					}
				case *ssa.Index:
					if x.X == ssa.Value(strPrm) {
						indexes = c.InstrPos(x)
					}
				case *ssa.Call:
					if f := x.Call.StaticCallee(); f != nil && fnPkgPath(f) == "unicode" && f.Name() == "IsSpace" {
						spaces = true
					}
				}
			}
		}
		if indexes != "" {
			s.check(spaces, "annotation-bytes:"+fn.Name(), indexes, "the function that reads annotation bytes skips white space itself (tokenizer)", fn.Name()+" looks at bytes of the annotation directly without handling white space: the tokenizer skips spaces, a byte peek does not, so `Name >` and `Name>` are treated differently")
		}
	}
	// every part of the tag is consumed: the list of remaining parts is emptied only where none is left. Dropping the rest
	// on another condition (an empty type descriptor, say) silently loses the options written after it
	if rf := c.SSA[pkgDefs].Func("DoResolveFields"); rf != nil {
		for _, b := range rf.Blocks {
			for _, ins := range b.Instrs {
				phi, ok := ins.(*ssa.Phi)
				if !ok {
					continue
				}
				if sl, isSl := phi.Type().Underlying().(*types.Slice); !isSl || !isStringType(sl.Elem().Underlying()) {
					continue
				}
				for i, e := range phi.Edges {
					cst, isC := e.(*ssa.Const)
					if !isC || cst.Value != nil {
						continue
					}
					p := b.Preds[i]
					cs := domConds(p)
					if iff, ok := p.Instrs[len(p.Instrs)-1].(*ssa.If); ok && p.Succs[0] != p.Succs[1] {
						cs = append(cs, Cond{V: iff.Cond, Truth: p.Succs[0] == b, If: iff})
					}
					none := false
					for _, cd := range cs {
						bo, ok := cd.V.(*ssa.BinOp)
						if !ok {
							continue
						}
						lc, isCall := stripConv(bo.X).(*ssa.Call)
						n, isN := constInt(bo.Y)
						if !isCall || !isN || !isBuiltin(lc, "len") {
							continue
						}
						if _, isSl := lc.Call.Args[0].Type().Underlying().(*types.Slice); !isSl {
							continue
						}
						switch {
						case n == 0 && (bo.Op == token.EQL && cd.Truth || bo.Op == token.NEQ && !cd.Truth || bo.Op == token.LEQ && cd.Truth || bo.Op == token.GTR && !cd.Truth):
							none = true
						case n == 1 && (bo.Op == token.LSS && cd.Truth || bo.Op == token.GEQ && !cd.Truth):
							none = true
						}
					}
					s.check(none, "tag-parts:consumed", c.Pos(firstPos(p)), "the remaining tag parts are set to none only where none is left",
						"the list of remaining tag parts is emptied on a path where it is not known to be empty (variable "+phi.Comment+"): the parts after that point - the options of the field - are dropped without being read or refused")
				}
			}
		}
	}
	// the schema is made of the struct's own fields: promoted fields of embedded structs (reflect.VisibleFields) are not part of it
	var vis []string
	for _, fn := range c.ModuleFuncs(pkgDefs, pkgReflect) {
		for _, b := range fn.Blocks {
			for _, ins := range b.Instrs {
				if call, ok := ins.(*ssa.Call); ok && call.Call.StaticCallee() != nil && fnPkgPath(call.Call.StaticCallee()) == "reflect" && call.Call.StaticCallee().Name() == "VisibleFields" {
					vis = append(vis, shortFn(fn)+" at "+c.InstrPos(call))
				}
			}
		}
	}
	s.check(len(vis) == 0, "own-fields-only", sitePos, "struct fields are enumerated with Field(i), never with reflect.VisibleFields", "fields are enumerated with reflect.VisibleFields ("+strings.Join(vis, "; ")+"): it also yields the fields promoted from embedded structs, whose offsets are relative to the embedded struct - they would join the schema and be read at the wrong address")
	s.check(untagged, "skip-untagged", sitePos, "untagged fields are ignored", "fields without a frugal/thrift tag are not skipped")
	// missing requiredness -> default: the value compared against the requiredness keywords can be the constant "default",
	// chosen when no tag value is left
	okDef := false
	if fn, cmps := c.keywordFn(pkgDefs, []string{"default", "required", "optional"}); fn != nil {
		var xs []ssa.Value
		if prm, ok := cmps[0].x.(*ssa.Parameter); ok {
			for k, fp := range fn.Params {
				if fp != prm {
					continue
				}
				for _, caller := range c.ModuleFuncs(pkgDefs) {
					for _, cb := range caller.Blocks {
						for _, ins := range cb.Instrs {
							if call, ok := ins.(*ssa.Call); ok && call.Call.StaticCallee() == fn && k < len(call.Call.Args) {
								xs = append(xs, call.Call.Args[k])
							}
						}
					}
				}
			}
		} else {
			xs = append(xs, cmps[0].x)
		}
		for _, x := range xs {
			for _, src := range valueSources(x, 0) {
				if w, ok := strConst(src.v); ok && w == "default" && emptyLenCond(src.conds) {
					okDef = true
				}
			}
		}
	}
	s.check(okDef, "requiredness-default", c.Pos(rfd.Pos()), "omitted requiredness means default", "an omitted requiredness is not read as \"default\"")
	// sort by id
	okSort := false
	ast.Inspect(rfd, func(n ast.Node) bool {
		if call, ok := n.(*ast.CallExpr); ok && nows(types.ExprString(call.Fun)) == "sort.Slice" && len(call.Args) == 2 {
			if strings.Contains(nows(c.srcText(call.Args[1].Pos(), call.Args[1].End())), "ret[i].ID<ret[j].ID") {
				okSort = true
			}
		}
		return true
	})
	s.check(okSort, "sorted-by-id", c.Pos(rfd.Pos()), "fields are sorted by id", "the resolved fields are not sorted by id before return")
	// set / list tokens: rt.T = T_set under tok == "set", T_list under tok == "list" (switch or if chain)
	if fn := c.SSA[pkgDefs].Func("doParseSlice"); fn != nil {
		got := map[string]int64{}
		for _, b := range fn.Blocks {
			for _, ins := range b.Instrs {
				st, ok := ins.(*ssa.Store)
				if !ok {
					continue
				}
				if _, typ, f, ok := fieldOf(st.Addr); !ok || typ != "Type" || f != "T" {
					continue
				}
				v, ok := constInt(st.Val)
				if !ok {
					continue
				}
				for _, cd := range domConds(b) {
					bo, ok := cd.V.(*ssa.BinOp)
					if !ok || !(bo.Op == token.EQL && cd.Truth || bo.Op == token.NEQ && !cd.Truth) {
						continue
					}
					for _, op := range []ssa.Value{bo.X, bo.Y} {
						if cst, ok := op.(*ssa.Const); ok && cst.Value != nil && cst.Value.Kind() == constant.String {
							got[constant.StringVal(cst.Value)] = v
						}
					}
				}
			}
		}
		tset, _ := c.constOf(pkgDefs, "T_set")
		tlist, _ := c.constOf(pkgDefs, "T_list")
		s.check(got["set"] == tset && got["list"] == tlist && tset != 0, "set-list-tokens", c.Pos(fn.Pos()), `"set" -> T_set, "list" -> T_list`, fmt.Sprintf("set/list tokens map to %v (T_set=%d, T_list=%d)", got, tset, tlist))
	}
	// binary is exactly []byte: wherever the tag becomes T_binary the element type was compared for identity with the type of byte
	{
		tbin, _ := c.constOf(pkgDefs, "T_binary")
		n, okAll := 0, true
		where := "-"
		for _, fn := range c.ModuleFuncs(pkgDefs) {
			for _, b := range fn.Blocks {
				for _, ins := range b.Instrs {
					phi, ok := ins.(*ssa.Phi)
					if !ok || namedOf(phi.Type()) != "Tag" {
						continue
					}
					for i, e := range phi.Edges {
						cv, ok := e.(*ssa.Const)
						if !ok {
							continue
						}
						if v, ok := constInt(cv); !ok || v != tbin {
							continue
						}
						n++
						p := b.Preds[i]
						cs := domConds(p)
						if iff, ok := p.Instrs[len(p.Instrs)-1].(*ssa.If); ok && p.Succs[0] != p.Succs[1] {
							cs = append(cs, expandCond(Cond{V: iff.Cond, Truth: p.Succs[0] == b, If: iff}, 0)...)
						}
						ident := false
						for _, cd := range cs {
							bo, ok := cd.V.(*ssa.BinOp)
							if !ok || (bo.Op == token.EQL) != cd.Truth || bo.Op != token.EQL && bo.Op != token.NEQ {
								continue
							}
							for _, side := range []ssa.Value{bo.X, bo.Y} {
								if u, ok := side.(*ssa.UnOp); ok && u.Op == token.MUL {
									if g, ok := u.X.(*ssa.Global); ok && g.Name() == "bytetype" {
										ident = true
									}
								}
							}
						}
						if !ident {
							okAll = false
							where = c.Pos(firstPos(p))
						}
					}
				}
			}
		}
		s.check(okAll && n > 0, "binary-is-byte-slice", where, "a slice becomes binary only when its element type is identical to byte", "a slice is classified as binary without comparing its element type with the type of byte for identity (e.g. by Kind() == Uint8): slices of user-defined uint8 types, which the codec cannot express, would be accepted as binary")
	}
	// enum upgrade inside the name-match chain: wherever the tag becomes the constant T_enum, the dominating conditions
	// include tag == T_i64, vt != i64type and a failed keyword match (strings.Contains(...) false)
	{
		tenum, _ := c.constOf(pkgDefs, "T_enum")
		ti64, _ := c.constOf(pkgDefs, "T_i64")
		type origin struct {
			conds []Cond
			pos   string
		}
		var origins []origin
		isEnumConst := func(v ssa.Value) bool {
			cv, ok := v.(*ssa.Const)
			if !ok || namedOf(cv.Type()) != "Tag" {
				return false
			}
			n, ok := constInt(cv)
			return ok && n == tenum
		}
		for _, fn := range c.ModuleFuncs(pkgDefs) {
			for _, b := range fn.Blocks {
				for _, ins := range b.Instrs {
					switch x := ins.(type) {
					case *ssa.Phi:
						for i, e := range x.Edges {
							if !isEnumConst(e) {
								continue
							}
							p := b.Preds[i]
							cs := domConds(p)
							if iff, ok := p.Instrs[len(p.Instrs)-1].(*ssa.If); ok && p.Succs[0] != p.Succs[1] {
								cs = append(cs, Cond{V: iff.Cond, Truth: p.Succs[0] == b, If: iff})
							}
							origins = append(origins, origin{cs, c.Pos(firstPos(p))})
						}
					case *ssa.Return:
						for _, r := range x.Results {
							if isEnumConst(r) {
								origins = append(origins, origin{domConds(b), c.InstrPos(x)})
							}
						}
					}
				}
			}
		}
		found, inside, condOK := len(origins) > 0, true, true
		pos, why := "-", ""
		for _, o := range origins {
			pos = o.pos
			isI64, notI64Type, noKeyword := false, false, false
			for _, cd := range o.conds {
				if bo, ok := cd.V.(*ssa.BinOp); ok && (bo.Op == token.EQL || bo.Op == token.NEQ) {
					equal := (bo.Op == token.EQL) == cd.Truth
					for _, pr := range [][2]ssa.Value{{bo.X, bo.Y}, {bo.Y, bo.X}} {
						if n, ok := constInt(pr[1]); ok && n == ti64 && namedOf(pr[0].Type()) == "Tag" && equal {
							isI64 = true
						}
						if u, ok := pr[1].(*ssa.UnOp); ok && u.Op == token.MUL && !equal {
							if g, ok := u.X.(*ssa.Global); ok && g.Name() == "i64type" {
								notI64Type = true
							}
						}
					}
				}
				if call, ok := cd.V.(*ssa.Call); ok && !cd.Truth {
					if f := call.Call.StaticCallee(); f != nil && fnPkgPath(f) == "strings" && f.Name() == "Contains" && strings.Contains(path(call.Call.Args[0]), "keywordTab[") {
						noKeyword = true
					} else if f != nil && isKeywordPredicate(f) {
						noKeyword = true
					}
				}
			}
			// the upgrade belongs to the path on which the annotation was accepted as the type's name (doMatchStruct said ok),
			// with no further condition: a named int64 whose (possibly qualified) name was matched is an enum
			matched := false
			extra := ""
			for _, cd := range o.conds {
				if ex, ok := cd.V.(*ssa.Extract); ok && cd.Truth {
					if mc, ok := ex.Tuple.(*ssa.Call); ok && mc.Call.StaticCallee() != nil && mc.Call.StaticCallee().Name() == "doMatchStruct" && isBoolType(ex.Type()) {
						matched = true
					}
				}
				if bo, ok := cd.V.(*ssa.BinOp); ok && (bo.Op == token.EQL || bo.Op == token.NEQ) && isStringType(bo.X.Type()) {
					if _, isC := bo.Y.(*ssa.Const); !isC {
						extra = "a comparison of two strings (" + path(bo.X) + " with " + path(bo.Y) + ")"
					}
				}
			}
			if !(isI64 && notI64Type) {
				condOK = false
			}
			if !noKeyword || !matched || extra != "" {
				inside = false
				if extra != "" {
					why = "; the upgrade additionally depends on " + extra
				} else if !matched {
					why = "; the upgrade is not on the path where doMatchStruct accepted the name"
				}
			}
		}
		s.check(found && inside && condOK, "enum-upgrade", pos, "int64-kinded named types become enums only when the annotation names the type", fmt.Sprintf("enum upgrade: present %v, conditioned on tag == T_i64 && vt != i64type %v, inside the keyword-mismatch (name match) chain %v%s: a named int64 annotated with the keyword i64 would silently become a 32-bit enum, or one annotated with its (qualified) name would stay i64", found, condOK, inside, why))
	}
	// descriptor cache key
	if nt := c.SSA[pkgReflect].Func("newTType"); nt != nil {
		var lk *ssa.Lookup
		for _, b := range nt.Blocks {
			for _, ins := range b.Instrs {
				if x, ok := ins.(*ssa.Lookup); ok && path(x.X) == "reflect.ttypes" {
					lk = x
				}
			}
		}
		if lk == nil {
			s.bad("cache-key", c.Pos(nt.Pos()), "no lookup in the ttypes cache")
		} else {
			x := nt.Params[0].Name()
			tOK, sOK := false, false
			if ld, ok := lk.Index.(*ssa.UnOp); ok {
				for _, r := range referrers(ld.X) {
					fa, ok := r.(*ssa.FieldAddr)
					if !ok {
						continue
					}
					var stores []*ssa.Store
					for _, rr := range referrers(fa) {
						if st, ok := rr.(*ssa.Store); ok && st.Addr == ssa.Value(fa) {
							stores = append(stores, st)
						}
					}
					if len(stores) != 1 || !instrDominates(stores[0], lk) || len(domConds(stores[0].Block())) != 0 {
						continue
					}
					switch fieldName(fa.X.Type(), fa.Field) {
					case "T":
						if call, ok := stores[0].Val.(*ssa.Call); ok && call.Call.StaticCallee() != nil && call.Call.StaticCallee().Name() == "String" && len(call.Call.Args) == 1 && call.Call.Args[0] == ssa.Value(nt.Params[0]) {
							tOK = true
						}
					case "S":
						sOK = path(stores[0].Val) == x+".S"
					}
				}
			}
			// the same key is used for the insert
			sameKey := false
			for _, b := range nt.Blocks {
				for _, ins := range b.Instrs {
					if mu, ok := ins.(*ssa.MapUpdate); ok && path(mu.Map) == "reflect.ttypes" {
						if l1, ok := mu.Key.(*ssa.UnOp); ok {
							if l2, ok := lk.Index.(*ssa.UnOp); ok && l1.X == l2.X {
								sameKey = true
							}
						}
					}
				}
			}
			s.check(tOK && sOK && sameKey, "cache-key", c.InstrPos(lk), "ttypes key = {x.String(), x.S} unconditionally, same key for lookup and insert", fmt.Sprintf("descriptor cache key: annotation string always included %v, Go type included %v, same key for insert %v: two declarations with the same Go type but different Thrift meaning (set/list, enum/i64) would share one descriptor, decided by which is used first", tOK, sOK, sameKey))
		}
	}
	return s.obs
}

func keysOf(m map[string]bool) []string {
	var out []string
	for k := range m {
		out = append(out, k)
	}
	sort.Strings(out)
	return out
}

var _ = packages.NeedName

// defsTags: the constants of type defs.Tag, by name.
func (c *Ctx) defsTags() map[string]int64 {
	out := map[string]int64{}
	p := c.ByPath[pkgDefs]
	if p == nil {
		return out
	}
	sc := p.Types.Scope()
	for _, n := range sc.Names() {
		if cn, ok := sc.Lookup(n).(*types.Const); ok && namedOf(cn.Type()) == "Tag" {
			if v, ok := constant.Int64Val(constant.ToInt(cn.Val())); ok {
				out[n] = v
			}
		}
	}
	return out
}

// keywordFn: the function of pkg that compares one value against every given word, with those comparisons.
func (c *Ctx) keywordFn(pkg string, words []string) (*ssa.Function, []wordCmp) {
	set := map[string]bool{}
	for _, w := range words {
		set[w] = true
	}
	all := c.wordCompares(pkg, set)
	var fns []*ssa.Function
	for fn := range all {
		fns = append(fns, fn)
	}
	sort.Slice(fns, func(i, j int) bool { return fns[i].Pos() < fns[j].Pos() })
	for _, fn := range fns {
		// group by compared value
		by := map[string][]wordCmp{}
		for _, wc := range all[fn] {
			by[path(wc.x)] = append(by[path(wc.x)], wc)
		}
		var keys []string
		for k := range by {
			keys = append(keys, k)
		}
		sort.Strings(keys)
		for _, k := range keys {
			have := map[string]bool{}
			for _, wc := range by[k] {
				have[wc.word] = true
			}
			if len(have) == len(set) {
				return fn, by[k]
			}
		}
	}
	return nil, nil
}

// reachesNamed: f is, or statically calls (transitively, inside the module), the function with the given name.
func reachesNamed(f *ssa.Function, name string) bool {
	for g := range staticReach(f) {
		if g.Name() == name {
			return true
		}
	}
	return false
}

// ---------------------------------------------------------------- argument kinds of the entry points, cache key strings

func init() {
	// createStructDesc accepts a struct or a pointer to a struct and nothing else: walked once per Go kind of the argument
	// and, for a pointer, once per kind of what it points to
	registerExtra("R.refusals", func(c *Ctx, s *obSink) {
		fn := c.SSA[pkgReflect].Func("createStructDesc")
		if fn == nil || len(fn.Params) != 1 {
			s.bad("createStructDesc:arg-kind", "-", "createStructDesc(rv reflect.Value) not found")
			return
		}
		rp := c.ByPath["reflect"]
		if rp == nil {
			s.bad("createStructDesc:arg-kind", "-", "package reflect not loaded")
			return
		}
		kindVal := func(n string) int64 {
			if o, ok := rp.Types.Scope().Lookup(n).(*types.Const); ok {
				v, _ := constant.Int64Val(o.Val())
				return v
			}
			return -1
		}
		allKinds := []string{"Bool", "Int", "Int8", "Int16", "Int32", "Int64", "Uint", "Uint8", "Uint16", "Uint32", "Uint64", "Uintptr",
			"Float32", "Float64", "Complex64", "Complex128", "Array", "Chan", "Func", "Interface", "Map", "Pointer", "Slice", "String", "Struct", "UnsafePointer"}
		// the values whose kind is asked: rv itself, rv.Type(), and the Elem() of that type
		var isValid ssa.Value
		outer := map[ssa.Value]bool{fn.Params[0]: true}
		elem := map[ssa.Value]bool{}
		for _, b := range fn.Blocks {
			for _, ins := range b.Instrs {
				call, ok := ins.(*ssa.Call)
				if !ok {
					continue
				}
				if f := call.Call.StaticCallee(); f != nil && len(call.Call.Args) == 1 && unspillParam(call.Call.Args[0]) == ssa.Value(fn.Params[0]) {
					switch f.String() {
					case "(reflect.Value).IsValid":
						isValid = call
					case "(reflect.Value).Type":
						outer[call] = true
					}
				}
				if call.Call.IsInvoke() && call.Call.Method.Name() == "Elem" && outer[call.Call.Value] {
					elem[call] = true
				}
			}
		}
		walk := func(ko, ke int64) string {
			w := &kindWalker{c: c, fn: fn, param: fn.Params[0], kind: ko, pkg: pkgReflect, env: map[ssa.Value]kval{}}
			if isValid != nil {
				w.env[isValid] = kval{known: true, i: 1}
			}
			w.kindOf = func(v ssa.Value) (int64, bool) {
				v = unspillParam(v)
				if ph, ok := v.(*ssa.Phi); ok {
					if kv, ok := w.env[ph]; ok && kv.known {
						return kv.i, true
					}
					// a type variable merged from the argument's type and its element type: which one is decided by the walk
					for _, e := range ph.Edges {
						if outer[e] || elem[e] {
							continue
						}
						return 0, false
					}
					return 0, false
				}
				switch {
				case outer[v]:
					return ko, true
				case elem[v]:
					return ke, true
				}
				return 0, false
			}
			end, _, _ := w.run("-")
			return end
		}
		n := 0
		for _, kn := range allKinds {
			ko := kindVal(kn)
			if ko < 0 {
				continue
			}
			switch kn {
			case "Struct":
				end := walk(ko, 0)
				n++
				s.check(end != "error" && end != "panic", "createStructDesc:arg-kind:Struct", c.Pos(fn.Pos()), "a struct value is accepted", "a struct argument is refused ("+end+")")
			case "Pointer":
				for _, en := range append([]string{"Invalid"}, allKinds...) {
					ke := kindVal(en)
					end := walk(ko, ke)
					n++
					if en == "Struct" {
						s.check(end != "error" && end != "panic", "createStructDesc:arg-kind:Pointer/Struct", c.Pos(fn.Pos()), "a pointer to a struct is accepted", "a pointer to a struct is refused ("+end+")")
					} else {
						s.check(end == "error", "createStructDesc:arg-kind:Pointer/"+en, c.Pos(fn.Pos()), "a pointer to "+en+" is refused with an error", "an argument of kind pointer to "+en+" is not refused with an error (the walk ends with: "+end+"): its memory would be read as a struct")
					}
				}
			default:
				end := walk(ko, kindVal("Struct"))
				n++
				s.check(end == "error", "createStructDesc:arg-kind:"+kn, c.Pos(fn.Pos()), "an argument of kind "+kn+" is refused with an error", "an argument of kind "+kn+" is not refused with an error (the walk ends with: "+end+"): its memory would be read as a struct")
			}
		}
		if n == 0 {
			s.bad("createStructDesc:arg-kind", c.Pos(fn.Pos()), "no argument kind could be walked")
		}
	})
	// the descriptor cache key uses (*Type).String(): two annotations that mean different things for the same Go type must not
	// render alike - every tag has its own rendering
	registerExtra("E12.tag-frontend", func(c *Ctx, s *obSink) {
		fn := c.Func(pkgDefs, "(*Type).String")
		if fn == nil {
			s.bad("cache-key:string", "-", "(*defs.Type).String not found")
			return
		}
		tags := c.defsTags()
		name := map[int64]string{}
		for n, v := range tags {
			name[v] = n
		}
		shape := map[int64]string{}
		pos := map[int64]string{}
		for _, b := range fn.Blocks {
			ret, ok := b.Instrs[len(b.Instrs)-1].(*ssa.Return)
			if !ok || len(ret.Results) != 1 {
				continue
			}
			cs, subj := caseSet(b, ".T")
			if len(cs) == 0 || !strings.HasSuffix(subj, ".T") {
				continue
			}
			sh := "?" + c.InstrPos(ret)
			switch x := ret.Results[0].(type) {
			case *ssa.Const:
				if x.Value != nil && x.Value.Kind() == constant.String {
					sh = "text " + strconv.Quote(constant.StringVal(x.Value))
				}
			case *ssa.Call:
				if f := x.Call.StaticCallee(); f != nil && f.String() == "fmt.Sprintf" && len(x.Call.Args) > 0 {
					if k, ok := x.Call.Args[0].(*ssa.Const); ok && k.Value != nil && k.Value.Kind() == constant.String {
						sh = "format " + strconv.Quote(constant.StringVal(k.Value))
					}
				} else if x.Call.IsInvoke() && x.Call.Method.Name() == "Name" {
					sh = "name of the Go type"
				}
			case *ssa.BinOp:
				if k, ok := x.X.(*ssa.Const); ok && x.Op == token.ADD && k.Value != nil && k.Value.Kind() == constant.String {
					sh = "prefix " + strconv.Quote(constant.StringVal(k.Value))
				}
			}
			for _, v := range cs {
				shape[v] = sh
				pos[v] = c.InstrPos(ret)
			}
		}
		var names []string
		for n := range tags {
			names = append(names, n)
		}
		sort.Strings(names)
		for _, n := range names {
			v := tags[n]
			sh, ok := shape[v]
			if !ok {
				s.bad("cache-key:string:"+n, c.Pos(fn.Pos()), "tag "+n+" has no rendering of its own in (*Type).String (it falls into the default): the descriptor cache key does not tell it apart")
				continue
			}
			clash := ""
			for _, m := range names {
				if m != n && shape[tags[m]] == sh {
					clash = m
				}
			}
			s.check(clash == "" && !strings.HasPrefix(sh, "?"), "cache-key:string:"+n, pos[v], n+" renders as "+sh+", unlike every other tag", "tag "+n+" renders as "+sh+", the same as "+clash+": the descriptor cache key {String(), Go type} no longer separates them, and the same Go type annotated both ways shares one descriptor (whichever is built first)")
		}
	})
}

// unspillParam: a value read back from the stack slot a by-value parameter was spilled to.
func unspillParam(v ssa.Value) ssa.Value {
	if u, ok := v.(*ssa.UnOp); ok && u.Op == token.MUL {
		if al, ok := u.X.(*ssa.Alloc); ok {
			var val ssa.Value
			n := 0
			for _, r := range referrers(al) {
				if st, ok := r.(*ssa.Store); ok && st.Addr == ssa.Value(al) {
					val = st.Val
					n++
				}
			}
			if n == 1 {
				return val
			}
		}
	}
	return v
}

// ---------------------------------------------------------------- a struct annotation must name the Go type

// doMatchStruct decides whether the identifier written in an annotation names the Go struct type of the field. Its verdict on
// every success return must be: the names are equal, or the Go type is an anonymous struct (no name, kind Struct). The
// function is walked from its entry under each of the eight assignments of these three comparisons; branches that depend on
// anything else (tokens, errors) are followed both ways.
func init() {
	f := func(c *Ctx, s *obSink) {
		fn := c.SSA[pkgDefs].Func("doMatchStruct")
		if fn == nil {
			s.bad("struct-name-match", "-", "doMatchStruct not found")
			return
		}
		structKind := int64(25)
		if rp := c.ByPath["reflect"]; rp != nil {
			if o, ok := rp.Types.Scope().Lookup("Struct").(*types.Const); ok {
				if v, ok := constant.Int64Val(o.Val()); ok {
					structKind = v
				}
			}
		}
		isNameCall := func(v ssa.Value) bool {
			call, ok := v.(*ssa.Call)
			return ok && call.Call.IsInvoke() && call.Call.Method.Name() == "Name"
		}
		isKindCall := func(v ssa.Value) bool {
			call, ok := v.(*ssa.Call)
			return ok && call.Call.IsInvoke() && call.Call.Method.Name() == "Kind"
		}
		atomOf := func(bo *ssa.BinOp) string {
			for _, pr := range [][2]ssa.Value{{bo.X, bo.Y}, {bo.Y, bo.X}} {
				if isNameCall(pr[0]) {
					if k, ok := pr[1].(*ssa.Const); ok && k.Value != nil && k.Value.Kind() == constant.String && constant.StringVal(k.Value) == "" {
						return "N"
					}
					if u, ok := pr[1].(*ssa.UnOp); ok && u.Op == token.MUL {
						if _, isParam := u.X.(*ssa.Parameter); isParam {
							return "E"
						}
					}
					// the annotation word handed over by value, or the last component just read
					switch w := pr[1].(type) {
					case *ssa.Parameter:
						if isStringType(w.Type().Underlying()) {
							return "E"
						}
					case *ssa.Extract, *ssa.Phi:
						if isStringType(w.Type().Underlying()) {
							return "E"
						}
					}
				}
				if isKindCall(pr[0]) {
					if k, ok := constInt(pr[1]); ok && k == structKind {
						return "K"
					}
				}
			}
			return ""
		}
		type state struct {
			b, prev *ssa.BasicBlock
			env     map[ssa.Value]tri
			steps   int
		}
		var bad []string
		nRet := 0
		for mask := 0; mask < 8; mask++ {
			as := map[string]bool{"N": mask&1 != 0, "K": mask&2 != 0, "E": mask&4 != 0}
			want := as["E"] || as["N"] && as["K"]
			var eval func(v ssa.Value, env map[ssa.Value]tri, d int) tri
			eval = func(v ssa.Value, env map[ssa.Value]tri, d int) tri {
				if d > 10 {
					return triU
				}
				if t, ok := env[v]; ok {
					return t
				}
				switch x := v.(type) {
				case *ssa.Const:
					if x.Value != nil && x.Value.Kind() == constant.Bool {
						return triOf(constant.BoolVal(x.Value))
					}
				case *ssa.UnOp:
					if x.Op == token.NOT {
						return eval(x.X, env, d+1).not()
					}
				case *ssa.BinOp:
					if x.Op == token.EQL || x.Op == token.NEQ {
						if a := atomOf(x); a != "" {
							t := triOf(as[a])
							if x.Op == token.NEQ {
								t = t.not()
							}
							return t
						}
					}
				}
				return triU
			}
			stack := []state{{b: fn.Blocks[0], env: map[ssa.Value]tri{}}}
			for len(stack) > 0 && nRet < 4000 {
				st := stack[len(stack)-1]
				stack = stack[:len(stack)-1]
				if st.steps > 200 {
					continue
				}
				if st.prev != nil {
					idx := -1
					for i, p := range st.b.Preds {
						if p == st.prev {
							idx = i
						}
					}
					for _, ins := range st.b.Instrs {
						phi, ok := ins.(*ssa.Phi)
						if !ok {
							break
						}
						if idx >= 0 && isBoolType(phi.Type()) {
							st.env[phi] = eval(phi.Edges[idx], st.env, 0)
						}
					}
				}
				switch x := st.b.Instrs[len(st.b.Instrs)-1].(type) {
				case *ssa.Return:
					// (verdict, error), or with further results (the matched name): the verdict is the one boolean result
					nr := len(x.Results)
					if nr < 2 || !isNilConst(unspill(x.Results[nr-1], st.b)) {
						continue
					}
					bi, nb := -1, 0
					for ri := 0; ri < nr-1; ri++ {
						if isBoolType(x.Results[ri].Type()) {
							bi = ri
							nb++
						}
					}
					if nb != 1 {
						continue
					}
					nRet++
					got := eval(x.Results[bi], st.env, 0)
					if got != triOf(want) {
						bad = append(bad, fmt.Sprintf("%s: with name-equal=%v, unnamed=%v, kind-struct=%v the verdict is %s, expected %v", c.InstrPos(x), as["E"], as["N"], as["K"], got, want))
					}
				case *ssa.Jump:
					stack = append(stack, state{b: st.b.Succs[0], prev: st.b, env: st.env, steps: st.steps + 1})
				case *ssa.If:
					cv := eval(x.Cond, st.env, 0)
					for k := 0; k < 2; k++ {
						if cv == triT && k == 1 || cv == triF && k == 0 {
							continue
						}
						env := map[ssa.Value]tri{}
						for kk, vv := range st.env {
							env[kk] = vv
						}
						stack = append(stack, state{b: st.b.Succs[k], prev: st.b, env: env, steps: st.steps + 1})
					}
				}
			}
		}
		if nRet == 0 {
			s.bad("struct-name-match", c.Pos(fn.Pos()), "no success return of doMatchStruct could be evaluated")
			return
		}
		s.check(len(bad) == 0, "struct-name-match", c.Pos(fn.Pos()), "an annotation is accepted for a struct exactly when it names the Go type or the Go type is an anonymous struct (8 assignments)", "the struct-name test accepts an annotation that contradicts the Go type (or refuses one that names it): "+strings.Join(dedup(bad), "; "))
	}
	registerExtra("R.refusals", f)
	registerExtra("E12.tag-frontend", f)
}

// ---------------------------------------------------------------- the tag front end terminates

// Every loop of the tag front end makes progress: it is a range loop, or one of its exit tests reads a loop variable that
// every trip moves strictly one way (a cursor advanced by a positive constant, a type replaced by its element type). A scanner
// loop that stopped advancing would hang the first use of a type whose annotation contains the character it skips.
func init() {
	registerExtra("E12.tag-frontend", func(c *Ctx, s *obSink) {
		n := 0
		for _, fn := range c.ModuleFuncs(pkgDefs) {
			for _, hdr := range fn.Blocks {
				if !isLoopHeader(hdr) {
					continue
				}
				n++
				inLoop := func(x *ssa.BasicBlock) bool { return x == hdr || hdr.Dominates(x) && blockReaches(x, hdr) }
				key := shortFn(fn) + ":loop-progress"
				pos := c.InstrPos(hdr.Instrs[len(hdr.Instrs)-1])
				isRange := false
				moving := map[ssa.Value]bool{}
				for _, ins := range hdr.Instrs {
					if _, ok := ins.(*ssa.Next); ok {
						isRange = true
					}
					phi, ok := ins.(*ssa.Phi)
					if !ok {
						continue
					}
					if phi.Comment == "rangeindex" {
						isRange = true
					}
					allMove, nBack := true, 0
					for i, e := range phi.Edges {
						if !inLoop(hdr.Preds[i]) {
							continue
						}
						nBack++
						moves := false
						switch x := e.(type) {
						case *ssa.BinOp:
							if k, ok := constInt(x.Y); ok && x.X == ssa.Value(phi) && (x.Op == token.ADD || x.Op == token.SUB) && k > 0 {
								moves = true
							}
						case *ssa.Call:
							// a type replaced by what it contains: rt = rt.Elem()
							if x.Call.IsInvoke() && x.Call.Value == ssa.Value(phi) && x.Call.Method.Name() == "Elem" {
								moves = true
							}
						case *ssa.UnOp:
							// a node replaced by one it links to: p = p.V (the annotation tree is finite)
							if fa, ok := x.X.(*ssa.FieldAddr); ok && x.Op == token.MUL && fa.X == ssa.Value(phi) {
								moves = true
							}
						}
						if !moves {
							allMove = false
						}
					}
					if allMove && nBack > 0 {
						moving[phi] = true
					}
				}
				if isRange {
					s.ok(key+":range", pos, "range loop")
					continue
				}
				var dependsOn func(v ssa.Value, d int) bool
				dependsOn = func(v ssa.Value, d int) bool {
					if d > 6 {
						return false
					}
					if moving[v] {
						return true
					}
					if ins, ok := v.(ssa.Instruction); ok {
						if _, isPhi := v.(*ssa.Phi); isPhi {
							return false
						}
						for _, op := range ins.Operands(nil) {
							if *op != nil && dependsOn(*op, d+1) {
								return true
							}
						}
					}
					return false
				}
				progress := false
				for _, x := range fn.Blocks {
					if !inLoop(x) {
						continue
					}
					iff, ok := x.Instrs[len(x.Instrs)-1].(*ssa.If)
					if !ok {
						continue
					}
					leaves := false
					for _, sc := range x.Succs {
						if !inLoop(sc) {
							leaves = true
						}
					}
					if leaves && dependsOn(iff.Cond, 0) {
						progress = true
					}
				}
				s.check(progress, key, pos, "an exit test reads a variable that every trip advances", "no exit test of this loop reads a variable that every trip advances: the scanner can stay in the loop for ever (first use of a type whose annotation reaches it hangs): "+c.srcLine(hdr.Instrs[len(hdr.Instrs)-1].Pos()))
			}
		}
		if n == 0 {
			s.bad("loop-progress", "-", "no loop found in the tag front end (the scanner loops were expected)")
		}
	})
}
