#!/usr/bin/env python3
"""Regenerates /verif/MANIFEST.json from the checker's own property table (bin/frugalvet -describe)."""
import json, subprocess, os, sys
root = os.path.dirname(os.path.dirname(os.path.abspath(__file__)))
d = json.loads(subprocess.check_output([os.path.join(root, "bin/frugalvet"), "-describe"]))
allp = [json.loads(l)["id"] for l in open(os.path.join(root, "properties.jsonl"))]
checks = []
claimed = set()
for p in d["properties"]:
    claimed.add(p["ID"])
    checks.append({
        "property_id": p["ID"],
        "quick_cmd": "./run.sh %s quick" % p["ID"],
        "thorough_cmd": "./run.sh %s thorough" % p["ID"],
        "evidence_file": "/verif/evidence/%s.json" % p["ID"],
        "replay_cmd_template": "./run.sh %s quick --only {path}" % p["ID"],
        "engine": "frugalvet",
        "level_claimed": {
            "category": "other",
            "text": "Static analysis of the current source (no execution): decides, for every function, path and registration in scope, the structural clauses that are necessary conditions of the property - " + p["Decides"] + " It does NOT decide: " + p["NotDecided"] + " Level 'other' because the claim is a complete structural argument over the code shape (all constructs enumerated, unrecognised idioms fail), not a proof of the behavioural statement.",
            "design_ref": "DESIGN.md section 4 (" + p["ID"] + ") and section 3 (rules " + ", ".join(p["Rules"]) + ")",
        },
        "level_note": "trusted base / assumptions: " + "; ".join(p["Assumes"]),
        "technique": p["Technique"],
    })
na = d["not_applicable"]
for x in na:
    assert x["property_id"] not in claimed
missing = [i for i in allp if i not in claimed and i not in {x["property_id"] for x in na}]
for i in missing:
    na.append({"property_id": i, "reason": "rules for this property are not built yet (work in progress; see DESIGN.md section 8)"})
m = {
    "version": 1,
    "setup_cmd": "mkdir -p bin evidence && cd checker && GOFLAGS=-mod=vendor GOPROXY=off GOSUMDB=off GOTOOLCHAIN=local GOWORK=off go build -o ../bin/frugalvet .",
    "hooks": {
        "guard": "verif",
        "enable": "none needed: the checks are static analyses of the unmodified source; no instrumentation is compiled into /repo (the build tag 'verif' is reserved and unused)",
        "baseline_off_cmd": "for m in . fuzz tests; do (cd /repo/$m && GOFLAGS=-mod=mod GOPROXY=off GOSUMDB=off GOTOOLCHAIN=local go test -vet=off -count=1 ./...) || exit 1; done",
        "source_commits": [],
        "add_only": True,
    },
    "engines": [{
        "name": "frugalvet",
        "path": "checker/",
        "serves_properties": sorted(claimed),
        "kind_free_text": "repository-specific static analyser (go/packages + go/types + go/ssa + VTA/CHA call graph, golang.org/x/tools v0.29.0 vendored): rule engines produce proof obligations per source construct; any obligation that is violated or undecided fails the check",
    }],
    "checks": checks,
    "not_applicable": na,
    "notes": "All checks are static (technique family: static analysis). Genuine defects found on the pinned tree were repaired by 'fix:' commits in /repo and are listed in known-findings.txt as fixed; see DESIGN.md section 5.",
}
json.dump(m, open(os.path.join(root, "MANIFEST.json"), "w"), indent=1)
print("claimed", sorted(claimed), "not applicable", [x["property_id"] for x in na])
