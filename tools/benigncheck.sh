#!/bin/bash
# usage: benigncheck.sh  -- runs every rule on every behaviour-preserving patch of benign/ and records the outcome in benign/RESULTS.txt
cd "$(dirname "$0")/.."
tools/benigntest.sh benign/*/patch.diff | sed -E 's#^.*/benign/([^/]+)/patch.diff: *#\1: #; s/ +/ /g' > benign/RESULTS.txt
grep -vc ": silent" benign/RESULTS.txt | sed 's/^/patches with an alarm: /'
