package main

import (
	"fmt"
	"go/token"
	"go/types"
	"sort"
	"strings"

	"golang.org/x/tools/go/ssa"
)

func init() {
	register(&Rule{ID: "E5.length-sanitised", Min: 10,
		Text: "taint analysis over SSA of the decode closure: every integer converted from BigEndian.UintN(<input>) that reaches a sink (size argument of (*tDecoder).Malloc / mallocgc / reflect.MakeMapWithSize, length of unsafe.Slice/String, stored slice Len/Cap, bound of a counted loop) is, at the sink, (i) proved non-negative and (ii) dominated by the in-range edge of a comparison `l > X` whose X is built only from len(<input>), constants and class-I table entries at schema wire types (minWireSize[desc.WT]) and whose failing edge returns a non-nil error; so every allocation is <= len(input) x (per-type constant)",
		Run:  ruleE5})
	register(&Rule{ID: "E5.guards-error", Min: 12,
		Text: "in the decode closure every branch on a comparison involving len(<input>) or a wire-derived value, one of whose edges leaves the function, leaves it with a non-nil error (never `return n, nil`); header type-code bytes read from the input are compared with the schema's WT before any element is decoded and the mismatch edge returns a non-nil error",
		Run:  ruleE5Guards})
	register(&Rule{ID: "E5.loops", Min: 5,
		Text: "every loop in the decode closure is (a) a counted loop j < l over a sanitised wire count, (b) a cursor loop in which every iteration advances the input cursor by at least 1 under a remaining-length guard, or (c) a range over a descriptor/recorded slice; any other loop shape is undecided",
		Run:  ruleE5Loops})
}

// wireSource: v is (a conversion chain over) BigEndian.UintN of a slice derived from the input, or a byte loaded from it.
func wireSource(a *linAn, v ssa.Value) bool {
	for {
		switch x := v.(type) {
		case *ssa.Convert:
			v = x.X
			continue
		case *ssa.ChangeType:
			v = x.X
			continue
		case *ssa.Call:
			if f := x.Call.StaticCallee(); f != nil && fnPkgPath(f) == "encoding/binary" && strings.HasPrefix(f.Name(), "Uint") {
				return a.derivedFrom(x.Call.Args[len(x.Call.Args)-1])
			}
			return false
		case *ssa.UnOp:
			if ia, ok := x.X.(*ssa.IndexAddr); ok && x.Op == token.MUL {
				return a.derivedFrom(ia.X)
			}
			return false
		}
		return false
	}
}

// wireLeaves collects wire-derived leaves of an integer expression (through +,-,*,conversions).
func wireLeaves(a *linAn, v ssa.Value, out map[ssa.Value]bool, depth int) {
	if depth > 8 {
		return
	}
	if isInt(v.Type()) && wireSource(a, v) {
		// normalise to the outermost int-typed conversion: the value the guards are written against
		out[v] = true
		return
	}
	switch x := v.(type) {
	case *ssa.BinOp:
		wireLeaves(a, x.X, out, depth+1)
		wireLeaves(a, x.Y, out, depth+1)
	case *ssa.Convert:
		wireLeaves(a, x.X, out, depth+1)
	case *ssa.Phi:
		for _, e := range x.Edges {
			wireLeaves(a, e, out, depth+1)
		}
	}
}

// inputBounded: X is built only from len(<input-derived>), constants, +,-,/ and class-I table entries indexed by a descriptor's WT.
func inputBounded(a *linAn, v ssa.Value, depth int) (bool, string) {
	if depth > 10 {
		return false, "expression too deep"
	}
	switch x := v.(type) {
	case *ssa.Const:
		return true, ""
	case *ssa.Call:
		if isBuiltin(x, "len") && a.derivedFrom(x.Call.Args[0]) {
			return true, ""
		}
		// a constant table written as a function of the kind, applied to a schema wire type
		if f := x.Call.StaticCallee(); f != nil && len(x.Call.Args) == 1 && a.c.InModule(f) {
			if _, ok := constIntFuncTable(f); ok {
				if strings.HasSuffix(path(x.Call.Args[0]), ".WT") && !wireSource(a, x.Call.Args[0]) {
					return true, ""
				}
				return false, "function " + f.Name() + " applied to " + path(x.Call.Args[0]) + " (must be a schema wire type, not a wire byte)"
			}
		}
		return false, "call " + calleeShort(x)
	case *ssa.BinOp:
		switch x.Op {
		case token.ADD, token.SUB, token.QUO, token.MUL:
			if ok, why := inputBounded(a, x.X, depth+1); !ok {
				return false, why
			}
			return inputBounded(a, x.Y, depth+1)
		}
		return false, "operator " + x.Op.String()
	case *ssa.Convert:
		return inputBounded(a, x.X, depth+1)
	case *ssa.UnOp:
		if x.Op == token.MUL {
			if ia, ok := x.X.(*ssa.IndexAddr); ok {
				if g, ok := ia.X.(*ssa.Global); ok {
					_, _, isTable := a.c.tableOf(g.Pkg.Pkg.Path(), g.Name())
					idx := path(ia.Index)
					if isTable && strings.HasSuffix(idx, ".WT") && !wireSource(a, ia.Index) {
						return true, ""
					}
					return false, "table " + g.Name() + " indexed by " + idx + " (must be a schema wire type, not a wire byte)"
				}
			}
			p := path(x)
			if strings.HasSuffix(p, ".FixedSize") || strings.HasSuffix(p, ".Size") {
				return true, "" // descriptor constants
			}
		}
	}
	return false, "operand " + path(v)
}

// atMostInput: X <= len(input) by its shape: the length itself, such a value minus something non-negative, or divided by
// something positive (a constant or a minimum wire size, which rule T2 keeps >= 1). Sums and products are not.
func atMostInput(a *linAn, v ssa.Value, depth int) (bool, string) {
	if depth > 10 {
		return false, "expression too deep"
	}
	positive := func(y ssa.Value) bool {
		var pos func(y ssa.Value, d int) bool
		pos = func(y ssa.Value, d int) bool {
			if d > 6 {
				return false
			}
			switch t := y.(type) {
			case *ssa.Const:
				k, ok := constInt(t)
				return ok && k > 0
			case *ssa.Convert:
				return pos(t.X, d+1)
			case *ssa.BinOp:
				return (t.Op == token.ADD || t.Op == token.MUL) && pos(t.X, d+1) && pos(t.Y, d+1)
			case *ssa.UnOp:
				if t.Op == token.MUL {
					if ia, ok := t.X.(*ssa.IndexAddr); ok {
						if g, ok := ia.X.(*ssa.Global); ok {
							_, _, isTable := a.c.tableOf(g.Pkg.Pkg.Path(), g.Name())
							return isTable && strings.HasSuffix(path(ia.Index), ".WT")
						}
					}
				}
			case *ssa.Call:
				// a constant table written as a function of the kind, applied to a wire type of the schema (T2 holds its
				// values against the protocol table, which makes them positive for every wire type)
				if f := t.Call.StaticCallee(); f != nil && len(t.Call.Args) == 1 && a.c.InModule(f) {
					if _, ok := constIntFuncTable(f); ok {
						return strings.HasSuffix(path(t.Call.Args[0]), ".WT")
					}
				}
			}
			return false
		}
		return pos(y, 0)
	}
	switch x := v.(type) {
	case *ssa.Call:
		if isBuiltin(x, "len") && a.derivedFrom(x.Call.Args[0]) {
			return true, ""
		}
	case *ssa.Convert:
		return atMostInput(a, x.X, depth+1)
	case *ssa.BinOp:
		switch x.Op {
		case token.SUB:
			if ok, why := atMostInput(a, x.X, depth+1); !ok {
				return false, why
			}
			if k, ok := constInt(x.Y); ok {
				if k >= 0 {
					return true, ""
				}
				return false, "a negative constant is subtracted"
			}
			if ok, _ := a.prove(a.lin(x.Y), x.Block()); ok {
				return true, ""
			}
			return false, "the subtrahend " + a.exprStr(x.Y) + " is not known to be non-negative"
		case token.QUO:
			if ok, why := atMostInput(a, x.X, depth+1); !ok {
				return false, why
			}
			if positive(x.Y) {
				return true, ""
			}
			return false, "the divisor " + a.exprStr(x.Y) + " is not known to be positive"
		}
		return false, "operator " + x.Op.String()
	}
	return false, "operand " + a.exprStr(v)
}

// upperGuards finds dominating edges bounding l from above by an input-bounded expression; reports whether the failing edge errors.
func upperGuarded(a *linAn, l ssa.Value, at *ssa.BasicBlock) (bool, string) {
	lf := a.lin(l)
	var reasons []string
	for _, cd := range domConds(at) {
		bo, ok := cd.V.(*ssa.BinOp)
		if !ok {
			continue
		}
		var other ssa.Value
		op := bo.Op
		switch {
		case eqForm(a.lin(bo.X), lf):
			other = bo.Y
		case eqForm(a.lin(bo.Y), lf):
			other = bo.X
			switch op { // mirror
			case token.LSS:
				op = token.GTR
			case token.LEQ:
				op = token.GEQ
			case token.GTR:
				op = token.LSS
			case token.GEQ:
				op = token.LEQ
			}
		default:
			continue
		}
		// l <= other holds when: (l > other) false, (l >= other) false, (l <= other) true, (l < other) true
		holds := (op == token.GTR || op == token.GEQ) && !cd.Truth || (op == token.LEQ || op == token.LSS) && cd.Truth
		if !holds {
			continue
		}
		if ok, why := inputBounded(a, other, 0); !ok {
			reasons = append(reasons, "bound "+path(other)+" is not derived from len(input): "+why)
			continue
		}
		if ok, why := atMostInput(a, other, 0); !ok {
			reasons = append(reasons, "bound "+a.exprStr(other)+" can exceed the length of the input ("+why+"): a count the input cannot hold passes the plausibility test")
			continue
		}
		// failing edge must return a non-nil error
		failIdx := 0
		if cd.Truth {
			failIdx = 1
		}
		fb := cd.If.Block().Succs[failIdx]
		if !edgeErrors(fb) {
			reasons = append(reasons, "the out-of-range edge at "+a.c.InstrPos(cd.If)+" does not return a non-nil error")
			continue
		}
		return true, "bounded by " + a.exprStr(other) + " at " + a.c.InstrPos(cd.If)
	}
	// the linear facts (which include predicate helpers such as need(b, n)) may bound l by the input length directly
	if ok, why := a.prove(addF(symF("L"), lf, -1), at); ok {
		return true, "bounded by the remaining input: " + why
	}
	if len(reasons) == 0 {
		reasons = append(reasons, "no dominating comparison against the remaining input")
	}
	return false, strings.Join(reasons, "; ")
}

func eqForm(x, y form) bool { return x.c == y.c && eqTerms(x.t, y.t) }

// edgeErrors: block b (a branch target) ends the function with a non-nil error (possibly after straight-line code).
func edgeErrors(b *ssa.BasicBlock) bool {
	seen := map[*ssa.BasicBlock]bool{}
	for cur := b; cur != nil && !seen[cur]; {
		seen[cur] = true
		last := cur.Instrs[len(cur.Instrs)-1]
		switch x := last.(type) {
		case *ssa.Return:
			if len(x.Results) == 0 {
				return false
			}
			ev := unspill(x.Results[len(x.Results)-1], cur)
			return definitelyNonNilErr(ev, cur)
		case *ssa.Panic:
			return true
		case *ssa.Jump:
			cur = cur.Succs[0]
		default:
			return false
		}
	}
	return false
}

func decodeFns(c *Ctx) ([]*ssa.Function, map[*ssa.Function]bool) {
	closure := c.decodeClosure()
	var fns []*ssa.Function
	for f := range closure {
		if inputParam(f) != nil && fnPkgPath(f) == pkgReflect {
			fns = append(fns, f)
		}
	}
	sort.Slice(fns, func(i, j int) bool { return fns[i].Pos() < fns[j].Pos() })
	return fns, closure
}

func ruleE5(c *Ctx) []Ob {
	s := newSink(c, "E5.length-sanitised")
	fns, closure := decodeFns(c)
	if len(fns) == 0 {
		s.bad("closure", "-", "decode closure not found")
		return s.obs
	}
	for _, fn := range fns {
		a := c.bounds(fn, closure)
		fname := shortFn(fn)
		type sink struct {
			v    ssa.Value
			at   ssa.Instruction
			what string
		}
		var sinks []sink
		for _, b := range fn.Blocks {
			for _, ins := range b.Instrs {
				switch x := ins.(type) {
				case *ssa.Call:
					if f := x.Call.StaticCallee(); f != nil {
						switch {
						case shortFn(f) == "tDecoder.Malloc" || shortFn(f) == "span.Malloc":
							sinks = append(sinks, sink{x.Call.Args[1], ins, "Malloc size"})
						case f.Name() == "mallocgc":
							sinks = append(sinks, sink{x.Call.Args[0], ins, "mallocgc size"})
						case f.Name() == "MakeMapWithSize" && fnPkgPath(f) == "reflect":
							sinks = append(sinks, sink{x.Call.Args[1], ins, "MakeMapWithSize hint"})
						}
					}
					if bi, ok := x.Call.Value.(*ssa.Builtin); ok && (bi.Name() == "Slice" || bi.Name() == "String") {
						sinks = append(sinks, sink{x.Call.Args[1], ins, "unsafe." + bi.Name() + " length"})
					}
				case *ssa.MakeSlice:
					sinks = append(sinks, sink{x.Len, ins, "make length"}, sink{x.Cap, ins, "make capacity"})
				case *ssa.Store:
					if _, typ, f, ok := fieldOf(x.Addr); ok && typ == "sliceHeader" && (f == "Len" || f == "Cap") {
						sinks = append(sinks, sink{x.Val, ins, "slice header " + f})
					}
				case *ssa.If:
					// counted loop bound: j < l where the branch is a loop condition
					if bo, ok := x.Cond.(*ssa.BinOp); ok && (bo.Op == token.LSS || bo.Op == token.LEQ) && isLoopHeader(b) {
						sinks = append(sinks, sink{bo.Y, ins, "loop bound"})
					}
				}
			}
		}
		for _, sk := range sinks {
			leaves := map[ssa.Value]bool{}
			wireLeaves(a, sk.v, leaves, 0)
			if len(leaves) == 0 {
				continue
			}
			var ls []ssa.Value
			for l := range leaves {
				ls = append(ls, l)
			}
			sort.Slice(ls, func(i, j int) bool { return ls[i].Name() < ls[j].Name() })
			for _, l := range ls {
				key := fname + ":" + sk.what
				nonneg, _ := a.prove(a.lin(l), sk.at.Block())
				up, why := upperGuarded(a, l, sk.at.Block())
				switch {
				case nonneg && up:
					s.ok(key, c.InstrPos(sk.at), "wire length is >= 0 and "+why)
				case !nonneg:
					s.bad(key, c.InstrPos(sk.at), "wire-derived length reaches "+sk.what+" without a dominating non-negativity check: "+c.srcLine(sk.at.Pos()))
				default:
					s.bad(key, c.InstrPos(sk.at), "wire-derived length reaches "+sk.what+" unbounded ("+why+"): a corrupted length could size a huge allocation: "+c.srcLine(sk.at.Pos()))
				}
			}
		}
	}
	return s.obs
}

func isLoopHeader(b *ssa.BasicBlock) bool {
	for _, p := range b.Preds {
		if b.Dominates(p) {
			return true
		}
	}
	return false
}

func ruleE5Guards(c *Ctx) []Ob {
	s := newSink(c, "E5.guards-error")
	fns, closure := decodeFns(c)
	for _, fn := range fns {
		a := c.bounds(fn, closure)
		fname := shortFn(fn)
		for _, b := range fn.Blocks {
			iff, ok := b.Instrs[len(b.Instrs)-1].(*ssa.If)
			if !ok {
				continue
			}
			bo, ok := iff.Cond.(*ssa.BinOp)
			if !ok {
				continue
			}
			// relevant: mentions len(input) or a wire value
			rel := false
			isTypeCmp := false
			for _, op := range []ssa.Value{bo.X, bo.Y} {
				f := a.lin(op)
				if _, ok := f.t["L"]; ok && isInt(op.Type()) {
					rel = true
				}
				if isInt(op.Type()) && wireSource(a, op) {
					rel = true
					if namedOf(op.Type()) == "ttype" {
						isTypeCmp = true
					}
				}
			}
			if !rel {
				continue
			}
			// the converse for sign guards: a wire length or count compared with a constant must not send the value 0 (the empty
			// string, list, set or map - well-formed) to an error exit
			for _, pr := range [][2]ssa.Value{{bo.X, bo.Y}, {bo.Y, bo.X}} {
				kv, isK := constInt(pr[1])
				if !isK || !isInt(pr[0].Type()) || namedOf(pr[0].Type()) == "ttype" || !wireSource(a, pr[0]) || !isWireLength(pr[0]) {
					continue
				}
				x, y := int64(0), kv
				if pr[0] == bo.Y {
					x, y = kv, 0
				}
				var truth, known bool
				switch bo.Op {
				case token.LSS:
					truth, known = x < y, true
				case token.LEQ:
					truth, known = x <= y, true
				case token.GTR:
					truth, known = x > y, true
				case token.GEQ:
					truth, known = x >= y, true
				case token.EQL:
					truth, known = x == y, true
				case token.NEQ:
					truth, known = x != y, true
				}
				if !known {
					continue
				}
				taken := b.Succs[1]
				if truth {
					taken = b.Succs[0]
				}
				if leavesFunction(taken) {
					s.check(!edgeErrors(taken), fname+":zero-length-accepted", c.InstrPos(iff), "a zero length / count is not refused", "a guard on a wire length refuses the value 0: an empty string, list, set or map - a well-formed value - is reported as an error: "+c.srcLine(iff.Pos()))
				}
			}
			// an edge that asserts "malformed" and leaves the function straight away must carry a non-nil error
			for k := 0; k < 2; k++ {
				sb := b.Succs[k]
				if !leavesFunction(sb) {
					continue
				}
				if !assertsMalformed(a, bo, k == 0) {
					continue
				}
				key := fname + ":guard-exit"
				if isTypeCmp {
					key = fname + ":type-code-mismatch"
				}
				s.check(edgeErrors(sb), key, c.InstrPos(iff), "failing edge returns a non-nil error", "a guard on the input length / wire value leaves the function without a non-nil error (reports success on malformed input): "+c.srcLine(iff.Pos()))
			}
		}
		// type codes compared before elements are decoded (containers)
		if fname == "tDecoder.decodeType" {
			e5TypeCodes(c, s, fn, a)
		}
	}
	return s.obs
}

// assertsMalformed: the edge (truth) of comparison bo says the input is too short, a wire length is negative or
// exceeds a bound, or a wire type code differs from the schema.
func assertsMalformed(a *linAn, bo *ssa.BinOp, truth bool) bool {
	op := bo.Op
	if !truth {
		switch op {
		case token.LSS:
			op = token.GEQ
		case token.LEQ:
			op = token.GTR
		case token.GTR:
			op = token.LEQ
		case token.GEQ:
			op = token.LSS
		case token.EQL:
			op = token.NEQ
		case token.NEQ:
			op = token.EQL
		}
	}
	// normalise to d = X - Y  REL 0
	d := addF(a.lin(bo.X), a.lin(bo.Y), -1)
	if namedOf(bo.X.Type()) == "ttype" || namedOf(bo.Y.Type()) == "ttype" {
		return op == token.NEQ && (wireSource(a, bo.X) || wireSource(a, bo.Y)) && !isConstVal(bo.X) && !isConstVal(bo.Y)
	}
	lc := d.t["L"]
	wireSide := 0 // +1: a wire value on the X side, -1 on the Y side
	if wireSource(a, bo.X) && isInt(bo.X.Type()) {
		wireSide = 1
	} else if wireSource(a, bo.Y) && isInt(bo.Y.Type()) {
		wireSide = -1
	}
	switch op {
	case token.LSS, token.LEQ: // X < Y
		if lc > 0 { // len(...) small
			return true
		}
		if wireSide == 1 { // w < c: negative length
			if cv, ok := constInt(bo.Y); ok && cv <= 0 && op == token.LSS {
				return true
			}
			return false
		}
		if wireSide == -1 { // X < w: length exceeds bound X (unless X is the loop counter: handled by caller via leavesFunction)
			_, isPhi := bo.X.(*ssa.Phi)
			return !isPhi
		}
	case token.GTR, token.GEQ: // X > Y
		if lc < 0 {
			return true
		}
		if wireSide == 1 {
			if cv, ok := constInt(bo.Y); ok && cv <= 0 {
				return false // w > 0 / w >= 0 is not a malformed claim
			}
			_, isPhi := bo.Y.(*ssa.Phi)
			return !isPhi
		}
		if wireSide == -1 { // c > w
			if cv, ok := constInt(bo.X); ok && cv <= 0 && op == token.GTR {
				return true
			}
		}
	}
	return false
}

func isConstVal(v ssa.Value) bool { _, ok := v.(*ssa.Const); return ok }

// leavesFunction: block ends in return/panic possibly after jumps, without branching.
func leavesFunction(b *ssa.BasicBlock) bool {
	seen := map[*ssa.BasicBlock]bool{}
	for cur := b; cur != nil && !seen[cur]; {
		seen[cur] = true
		switch cur.Instrs[len(cur.Instrs)-1].(type) {
		case *ssa.Return, *ssa.Panic:
			return true
		case *ssa.Jump:
			cur = cur.Succs[0]
		default:
			return false
		}
	}
	return false
}

// e5TypeCodes: in decodeType every element-decoding call under case MAP / LIST,SET is dominated by the equality edges
// of the comparisons of the header type bytes with the schema WT.
func e5TypeCodes(c *Ctx, s *obSink, fn *ssa.Function, a *linAn) {
	k, err := c.kinds()
	if err != nil {
		s.undec("kinds", "-", err.Error())
		return
	}
	need := map[string][]string{"MAP": {".K.WT", ".V.WT"}, "LIST": {".V.WT"}, "SET": {".V.WT"}}
	for _, b := range fn.Blocks {
		for _, ins := range b.Instrs {
			call, ok := ins.(*ssa.Call)
			if !ok {
				continue
			}
			f := call.Call.StaticCallee()
			if f == nil || !(f.Name() == "decodeType" || f.Name() == "decodeFixedSizeTypes") {
				continue
			}
			cs, _ := caseSet(b, ".T")
			if cs == nil {
				continue
			}
			for _, cv := range cs {
				kn := k.nameOf(cv)
				sfx, isContainer := need[kn]
				if !isContainer {
					continue
				}
				have := map[string]bool{}
				for _, cd := range domConds(b) {
					bo, ok := cd.V.(*ssa.BinOp)
					if !ok || !(bo.Op == token.NEQ && !cd.Truth || bo.Op == token.EQL && cd.Truth) {
						continue
					}
					for _, pr := range [][2]ssa.Value{{bo.X, bo.Y}, {bo.Y, bo.X}} {
						if wireSource(a, pr[0]) && namedOf(pr[0].Type()) == "ttype" {
							p := path(pr[1])
							for _, sf := range sfx {
								if strings.HasSuffix(p, sf) {
									have[sf] = true
								}
							}
						}
					}
				}
				good := true
				for _, sf := range sfx {
					if !have[sf] {
						good = false
					}
				}
				s.check(good, fmt.Sprintf("decodeType:%s:element-type-checked", kn), c.InstrPos(call),
					"element decode is dominated by header type byte == schema WT", "elements of a "+kn+" are decoded without comparing the header's type code(s) with the schema ("+strings.Join(sfx, ", ")+")")
			}
		}
	}
}

func ruleE5Loops(c *Ctx) []Ob {
	s := newSink(c, "E5.loops")
	closure := c.decodeClosure()
	var fns []*ssa.Function
	for f := range closure {
		if fnPkgPath(f) == pkgReflect && (inputParam(f) != nil || strings.HasPrefix(shortFn(f), "unknownFields.") || strings.HasPrefix(shortFn(f), "bitset.") || strings.HasPrefix(shortFn(f), "span.")) {
			fns = append(fns, f)
		}
	}
	sort.Slice(fns, func(i, j int) bool { return fns[i].Pos() < fns[j].Pos() })
	for _, fn := range fns {
		var a *linAn
		if inputParam(fn) != nil {
			a = c.bounds(fn, closure)
		}
		fname := shortFn(fn)
		for _, b := range fn.Blocks {
			if !isLoopHeader(b) {
				continue
			}
			key := fname + ":loop"
			pos := c.InstrPos(b.Instrs[len(b.Instrs)-1])
			// (c) range loops: rangeindex phi or range iterator
			isRange := false
			for _, ins := range b.Instrs {
				if p, ok := ins.(*ssa.Phi); ok && p.Comment == "rangeindex" {
					isRange = true
				}
				if _, ok := ins.(*ssa.Next); ok {
					isRange = true
				}
			}
			if isRange {
				s.ok(key+":range", pos, "range over a descriptor / recorded slice (bounded by its length)")
				continue
			}
			// (a) counted loop j < l
			if iff, ok := b.Instrs[len(b.Instrs)-1].(*ssa.If); ok {
				if bo, ok := iff.Cond.(*ssa.BinOp); ok && bo.Op == token.LSS {
					if jp, ok := bo.X.(*ssa.Phi); ok && jp.Block() == b {
						z, inc := false, false
						for _, e := range jp.Edges {
							if v, ok := constInt(e); ok && v == 0 {
								z = true
							}
							if ad, ok := e.(*ssa.BinOp); ok && ad.Op == token.ADD && ad.X == jp {
								if v, ok := constInt(ad.Y); ok && v == 1 {
									inc = true
								}
							}
						}
						if z && inc {
							// bound must be loop-invariant (defined outside the loop)
							inv := valueBlock(bo.Y, b) == nil || !b.Dominates(valueBlock(bo.Y, b))
							if call, ok := bo.Y.(*ssa.Call); ok && isBuiltin(call, "len") {
								// len(x) re-evaluated in the header: invariant when x is defined outside the loop
								if vb := valueBlock(call.Call.Args[0], b); vb == nil || !b.Dominates(vb) {
									inv = true
								} else if ld, ok := call.Call.Args[0].(*ssa.UnOp); ok && ld.Op == token.MUL && ld.Block() == b {
									// a field re-read in the header: invariant when nothing in the loop stores it or calls module code
									inv = true
									for _, lb := range fn.Blocks {
										if !(lb == b || b.Dominates(lb) && blockReaches(lb, b)) {
											continue
										}
										for _, li := range lb.Instrs {
											switch y := li.(type) {
											case *ssa.Store:
												if path(y.Addr) == path(ld.X) || !localAlloc(rootOfAddr(y.Addr)) && path(ld.X) == "" {
													inv = false
												}
											case *ssa.Call:
												if f := y.Call.StaticCallee(); f != nil && c.InModule(f) {
													inv = false
												}
												if y.Call.StaticCallee() == nil && !isBuiltinCall(y) {
													inv = false
												}
											}
										}
									}
								}
							}
							if inv {
								s.ok(key+":counted", pos, "counted loop 0 <= j < "+path(bo.Y)+" (bound sanitised by rule E5.length-sanitised)")
							} else if loopIndependentOfInput(fn, b) {
								s.ok(key+":descriptor", pos, "the loop's exit tests do not depend on the input (descriptor walk): a message cannot drive its trip count")
							} else {
								s.bad(key+":counted", pos, "loop bound changes inside the loop")
							}
							continue
						}
					}
				}
			}
			// (b) cursor loop: every back edge advances the cursor by >= 1 and a remaining-length guard is inside
			if a != nil {
				okCursor := false
				for _, ins := range b.Instrs {
					p, ok := ins.(*ssa.Phi)
					if !ok || !isSignedInt(p.Type()) {
						continue
					}
					adv := true
					nback := 0
					for i, e := range p.Edges {
						if !b.Dominates(b.Preds[i]) {
							continue
						}
						nback++
						if ok, _ := a.prove(addF(addF(a.lin(e), a.lin(p), -1), konst(1), -1), b.Preds[i]); !ok {
							adv = false
						}
					}
					// cursor is bounded above: induction fact p <= L holds in the loop
					bounded, _ := a.prove(addF(symF("L"), a.lin(p), -1), b)
					if adv && nback > 0 && bounded {
						okCursor = true
					}
				}
				if okCursor {
					s.ok(key+":cursor", pos, "every iteration advances the input cursor by at least 1 and the cursor never exceeds len(b)")
					continue
				}
			}
			// (d) a loop the message has no say in: every exit test is computed from descriptors, constants and library calls on
			// them (walking a reflect.Type to name a field), never from the input bytes or from decoded memory
			if loopIndependentOfInput(fn, b) {
				s.ok(key+":descriptor", pos, "the loop's exit tests do not depend on the input (descriptor walk): a message cannot drive its trip count")
				continue
			}
			s.undec(key, pos, "loop in the decode closure that is neither counted over a sanitised length, nor a strictly advancing bounded cursor, nor a range loop")
		}
	}
	// time proportional to the input: no loop over decoded data inside another one. Each loop above runs at most once per
	// input byte it consumes (or per element of a count the input can hold); two of them nested - comparing every decoded
	// element with every other, say - make the work quadratic in a count the message chooses.
	var all []*ssa.Function
	for f := range closure {
		if fnPkgPath(f) == pkgReflect && f.Blocks != nil {
			all = append(all, f)
		}
	}
	sort.Slice(all, func(i, j int) bool {
		return all[i].Pos() < all[j].Pos() || all[i].Pos() == all[j].Pos() && all[i].String() < all[j].String()
	})
	nNest := 0
	for _, fn := range all {
		for _, inner := range fn.Blocks {
			if !isLoopHeader(inner) || loopIndependentOfInput(fn, inner) {
				continue
			}
			for _, outer := range fn.Blocks {
				if outer == inner || !isLoopHeader(outer) || !outer.Dominates(inner) || !blockReaches(inner, outer) {
					continue
				}
				if loopIndependentOfInput(fn, outer) {
					continue
				}
				nNest++
				s.bad(shortFn(fn)+":loop-nest", c.InstrPos(inner.Instrs[len(inner.Instrs)-1]), "a loop over decoded data runs inside another one ("+c.InstrPos(outer.Instrs[len(outer.Instrs)-1])+"): the work is not proportional to the input (quadratic in a count the message chooses)")
			}
		}
	}
	if nNest == 0 {
		s.ok("loop-nest", "-", fmt.Sprintf("no loop over decoded data is nested in another one in the %d functions of the decode closure", len(all)))
	}
	return s.obs
}

func valueBlock(v ssa.Value, def *ssa.BasicBlock) *ssa.BasicBlock {
	if in, ok := v.(ssa.Instruction); ok {
		return in.Block()
	}
	return nil
}

// bounds returns the (cached) linear-fact context of a decode function.
func (c *Ctx) bounds(fn *ssa.Function, closure map[*ssa.Function]bool) *linAn {
	if c.boundsCache == nil {
		c.boundsCache = map[*ssa.Function]*linAn{}
	}
	if a, ok := c.boundsCache[fn]; ok {
		return a
	}
	a := e4Function(c, nil, fn, closure)
	c.boundsCache[fn] = a
	return a
}

func rootOfAddr(v ssa.Value) ssa.Value {
	for {
		switch y := v.(type) {
		case *ssa.FieldAddr:
			v = y.X
			continue
		case *ssa.IndexAddr:
			v = y.X
			continue
		}
		return v
	}
}

func isBuiltinCall(call *ssa.Call) bool {
	_, ok := call.Call.Value.(*ssa.Builtin)
	return ok
}

// loopIndependentOfInput: every test that can leave the loop headed by hdr is computed without the input buffer and without
// memory the decoder writes: from constants, parameters other than the input and the destination, fields of descriptors,
// package-level variables, and calls of non-module functions on such values.
func loopIndependentOfInput(fn *ssa.Function, hdr *ssa.BasicBlock) bool {
	inLoop := func(x *ssa.BasicBlock) bool { return x == hdr || hdr.Dominates(x) && blockReaches(x, hdr) }
	seen := map[ssa.Value]bool{}
	var indep func(v ssa.Value, d int) bool
	descRoot := func(t types.Type) bool {
		switch namedOf(t) {
		case "structDesc", "tType", "tField":
			return true
		}
		return false
	}
	var addrOK func(a ssa.Value, d int) bool
	addrOK = func(a ssa.Value, d int) bool {
		if d > 12 {
			return false
		}
		switch x := a.(type) {
		case *ssa.FieldAddr:
			return addrOK(x.X, d+1)
		case *ssa.IndexAddr:
			return addrOK(x.X, d+1) && indep(x.Index, d+1)
		case *ssa.Global:
			return true
		case *ssa.Parameter:
			return descRoot(x.Type())
		case *ssa.UnOp:
			if x.Op == token.MUL { // pointer loaded from a descriptor
				return addrOK(x.X, d+1)
			}
		case *ssa.Call:
			return descRoot(x.Type()) && indep(x, d+1) // a descriptor looked up from independent values
		case *ssa.Alloc:
			if x.Heap {
				return false
			}
			for _, r := range referrers(x) {
				switch y := r.(type) {
				case *ssa.Store:
					if y.Addr != ssa.Value(x) || !indep(y.Val, d+1) {
						return false
					}
				case *ssa.FieldAddr, *ssa.UnOp, *ssa.DebugRef:
				default:
					return false
				}
			}
			return true
		}
		return false
	}
	indep = func(v ssa.Value, d int) bool {
		if d > 12 {
			return false
		}
		if seen[v] {
			return true
		}
		seen[v] = true
		switch x := v.(type) {
		case *ssa.Const, *ssa.Global, *ssa.Function:
			return true
		case *ssa.Parameter:
			return !isByteSlice(x.Type()) && !isUnsafePointer(x.Type())
		case *ssa.BinOp:
			return indep(x.X, d+1) && indep(x.Y, d+1)
		case *ssa.Convert:
			return indep(x.X, d+1)
		case *ssa.ChangeType:
			return indep(x.X, d+1)
		case *ssa.Extract:
			return indep(x.Tuple, d+1)
		case *ssa.Field:
			return indep(x.X, d+1)
		case *ssa.Phi:
			for _, e := range x.Edges {
				if !indep(e, d+1) {
					return false
				}
			}
			return true
		case *ssa.UnOp:
			if x.Op == token.MUL {
				return addrOK(x.X, d+1)
			}
			return indep(x.X, d+1)
		case *ssa.Call:
			if _, isBuiltin := x.Call.Value.(*ssa.Builtin); !isBuiltin {
				f := x.Call.StaticCallee()
				if x.Call.IsInvoke() {
					// a method of an interface value: only library interfaces (reflect.Type)
					if !indep(x.Call.Value, d+1) || namedOf(x.Call.Value.Type()) != "Type" {
						return false
					}
				} else if f == nil || f.Pkg != nil && f.Pkg.Pkg.Path() == fn.Pkg.Pkg.Path() && !descRoot(x.Type()) {
					return false // module code, except a descriptor lookup (GetField): a descriptor computed from descriptors
				}
			}
			for _, a := range x.Call.Args {
				if !indep(a, d+1) {
					return false
				}
			}
			return true
		}
		return false
	}
	nExit := 0
	for _, x := range fn.Blocks {
		if !inLoop(x) {
			continue
		}
		iff, ok := x.Instrs[len(x.Instrs)-1].(*ssa.If)
		if !ok {
			continue
		}
		leaves := false
		for _, sc := range x.Succs {
			if !inLoop(sc) {
				leaves = true
			}
		}
		if !leaves {
			continue
		}
		nExit++
		if !indep(iff.Cond, 0) {
			return false
		}
	}
	return nExit > 0
}

// isWireLength: a 32-bit length or count read from the input (int(int32(BigEndian.Uint32(..))) or through a helper), as
// opposed to a field id or a type byte.
func isWireLength(v ssa.Value) bool {
	for d := 0; d < 6; d++ {
		switch x := v.(type) {
		case *ssa.Convert:
			if b, ok := x.X.Type().Underlying().(*types.Basic); ok && (b.Kind() == types.Int32 || b.Kind() == types.Uint32) {
				return true
			}
			v = x.X
		case *ssa.Phi:
			if len(x.Edges) == 0 {
				return false
			}
			v = x.Edges[0]
		default:
			return false
		}
	}
	return false
}
