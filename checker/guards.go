package main

import (
	"fmt"
	"go/token"
	"regexp"
	"sort"
	"strings"

	"golang.org/x/tools/go/ssa"
)

// Guard facts: what the dominating branches establish about reflect accessors of a value, in a canonical text form
// ("Kind(ValueOf(v))==22", "IsNil(ValueOf(v))=false"), looking through validation helpers: `err == nil` of a module function
// that returns an error imports the facts common to all of that function's nil-error returns, with its parameters replaced
// by the caller's arguments.

func descAccessor(v ssa.Value, bind map[*ssa.Parameter]string, depth int) string {
	if depth > 6 {
		return "?"
	}
	switch x := v.(type) {
	case *ssa.Const:
		if n, ok := constInt(x); ok {
			return fmt.Sprint(n)
		}
		if x.Value == nil {
			return "nil"
		}
		return x.Value.ExactString()
	case *ssa.Parameter:
		if s, ok := bind[x]; ok {
			return s
		}
		return x.Name()
	case *ssa.Convert:
		return descAccessor(x.X, bind, depth)
	case *ssa.ChangeType:
		return descAccessor(x.X, bind, depth)
	case *ssa.UnOp:
		if x.Op == token.MUL {
			if al, ok := x.X.(*ssa.Alloc); ok {
				// a spilled value receiver / local copy: describe what was stored
				for _, r := range referrers(al) {
					if st, ok := r.(*ssa.Store); ok && st.Addr == ssa.Value(al) {
						return descAccessor(st.Val, bind, depth+1)
					}
				}
			}
		}
	case *ssa.Call:
		name := ""
		if x.Call.IsInvoke() {
			name = x.Call.Method.Name()
			return name + "(" + descAccessor(x.Call.Value, bind, depth+1) + ")"
		}
		if f := x.Call.StaticCallee(); f != nil {
			name = f.Name()
			var as []string
			for _, a := range x.Call.Args {
				as = append(as, descAccessor(a, bind, depth+1))
			}
			return name + "(" + strings.Join(as, ",") + ")"
		}
	case *ssa.MakeInterface:
		return descAccessor(x.X, bind, depth)
	}
	return path(v)
}

func condFacts(v ssa.Value, truth bool, bind map[*ssa.Parameter]string, depth int) []string {
	if depth > 4 {
		return nil
	}
	switch x := v.(type) {
	case *ssa.UnOp:
		if x.Op == token.NOT {
			return condFacts(x.X, !truth, bind, depth)
		}
	case *ssa.Call:
		if isBoolType(x.Type()) {
			return []string{fmt.Sprintf("%s=%v", descAccessor(x, bind, 0), truth)}
		}
	case *ssa.BinOp:
		if x.Op != token.EQL && x.Op != token.NEQ {
			return nil
		}
		equal := (x.Op == token.EQL) == truth
		a, b := x.X, x.Y
		if isNilConst(a) {
			a, b = b, a
		}
		// err == nil of a validation helper
		if isNilConst(b) && isErrorType(a.Type()) && equal {
			var call *ssa.Call
			switch y := a.(type) {
			case *ssa.Call:
				call = y
			case *ssa.Extract:
				call, _ = y.Tuple.(*ssa.Call)
			}
			if call != nil {
				if f := call.Call.StaticCallee(); f != nil && f.Blocks != nil {
					nb := map[*ssa.Parameter]string{}
					for k, prm := range f.Params {
						if k < len(call.Call.Args) {
							nb[prm] = descAccessor(call.Call.Args[k], bind, 0)
						}
					}
					var common map[string]bool
					for _, fb := range f.Blocks {
						ret, ok := fb.Instrs[len(fb.Instrs)-1].(*ssa.Return)
						if !ok || len(ret.Results) == 0 {
							continue
						}
						ev := unspill(ret.Results[len(ret.Results)-1], fb)
						if definitelyNonNilErr(ev, fb) {
							continue
						}
						fs := map[string]bool{}
						for _, cd := range domConds(fb) {
							for _, ft := range condFacts(cd.V, cd.Truth, nb, depth+1) {
								fs[ft] = true
							}
						}
						if common == nil {
							common = fs
						} else {
							for k := range common {
								if !fs[k] {
									delete(common, k)
								}
							}
						}
					}
					var out []string
					for k := range common {
						out = append(out, k)
					}
					sort.Strings(out)
					return out
				}
			}
			return nil
		}
		// result != nil of a module helper that returns nil for "not acceptable": the facts common to its non-nil returns,
		// including what they establish about the returned value itself
		if isNilConst(b) && !equal && !isErrorType(a.Type()) {
			if call, ok := a.(*ssa.Call); ok {
				if f := call.Call.StaticCallee(); f != nil && f.Blocks != nil && f.Signature.Results().Len() == 1 {
					nb := map[*ssa.Parameter]string{}
					for k, prm := range f.Params {
						if k < len(call.Call.Args) {
							nb[prm] = descAccessor(call.Call.Args[k], bind, 0)
						}
					}
					self := descAccessor(call, bind, 0)
					var common map[string]bool
					for _, fb := range f.Blocks {
						ret, ok := fb.Instrs[len(fb.Instrs)-1].(*ssa.Return)
						if !ok || len(ret.Results) != 1 || isNilConst(ret.Results[0]) {
							continue
						}
						rd := descAccessor(ret.Results[0], nb, 0)
						fs := map[string]bool{}
						for _, cd := range domConds(fb) {
							for _, ft := range condFacts(cd.V, cd.Truth, nb, depth+1) {
								fs[ft] = true
								if strings.Contains(ft, rd) {
									fs[strings.ReplaceAll(ft, rd, self)] = true
								}
							}
						}
						if common == nil {
							common = fs
						} else {
							for k := range common {
								if !fs[k] {
									delete(common, k)
								}
							}
						}
					}
					out := []string{self + "!=nil"}
					for k := range common {
						out = append(out, k)
					}
					sort.Strings(out)
					return out
				}
			}
		}
		l, r := descAccessor(a, bind, 0), descAccessor(b, bind, 0)
		if _, isC := a.(*ssa.Const); isC {
			l, r = r, l
		}
		op := "!="
		if equal {
			op = "=="
		}
		return []string{l + op + r}
	}
	return nil
}

func blockFacts(b *ssa.BasicBlock) map[string]bool { return blockFactsD(b, 0) }

func blockFactsD(b *ssa.BasicBlock, depth int) map[string]bool {
	out := map[string]bool{}
	for _, cd := range domConds(b) {
		for _, f := range condFacts(cd.V, cd.Truth, nil, 0) {
			out[f] = true
		}
	}
	if depth > 2 {
		return out
	}
	// facts established separately on every way into a dominating merge point, stated about the merged value:
	// `if k(x) != S { x = elem(x); if k(x) != S { fail } }` establishes k(phi) == S after the merge
	for d := b; d != nil; d = d.Idom() {
		if len(d.Preds) < 2 {
			continue
		}
		for _, ins := range d.Instrs {
			phi, ok := ins.(*ssa.Phi)
			if !ok {
				break
			}
			var common map[string]bool
			for i, p := range d.Preds {
				fs := blockFactsD(p, depth+1)
				if iff, ok := p.Instrs[len(p.Instrs)-1].(*ssa.If); ok && p.Succs[0] != p.Succs[1] {
					for _, cd := range expandCond(Cond{V: iff.Cond, Truth: p.Succs[0] == d, If: iff}, 0) {
						for _, f := range condFacts(cd.V, cd.Truth, nil, 0) {
							fs[f] = true
						}
					}
				}
				ed := descAccessor(phi.Edges[i], nil, 0)
				gen := map[string]bool{}
				for f := range fs {
					if strings.Contains(f, ed) {
						gen[strings.ReplaceAll(f, ed, path(phi))] = true
					}
				}
				if common == nil {
					common = gen
				} else {
					for k := range common {
						if !gen[k] {
							delete(common, k)
						}
					}
				}
			}
			for k := range common {
				out[k] = true
			}
		}
	}
	return out
}

// entryGuard: every return of fn that can report success is dominated by a fact matching want.
func (c *Ctx) entryGuard(s *obSink, fn *ssa.Function, key string, want *regexp.Regexp, what, consequence string) {
	if fn == nil {
		s.bad(key, "-", "function not found")
		return
	}
	n := 0
	for _, b := range fn.Blocks {
		ret, ok := b.Instrs[len(b.Instrs)-1].(*ssa.Return)
		if !ok || len(ret.Results) == 0 || b == fn.Recover {
			continue
		}
		ev := unspill(ret.Results[len(ret.Results)-1], b)
		if !isErrorType(ev.Type()) || definitelyNonNilErr(ev, b) {
			continue
		}
		n++
		found := ""
		facts := blockFacts(b)
		for f := range facts {
			if want.MatchString(f) {
				found = f
			}
		}
		if found == "" {
			var fs []string
			for f := range facts {
				fs = append(fs, f)
			}
			sort.Strings(fs)
			s.bad(key, c.InstrPos(ret), "no guard for "+what+" in "+fn.Name()+": a return that can report success is not dominated by a test establishing "+want.String()+" (established here: "+strings.Join(fs, ", ")+"): "+consequence)
			return
		}
	}
	if n == 0 {
		s.bad(key, c.Pos(fn.Pos()), fn.Name()+" has no return that can report success")
		return
	}
	s.ok(key, c.Pos(fn.Pos()), fmt.Sprintf("%s: all %d returns that can report success are dominated by %s", what, n, want.String()))
}
