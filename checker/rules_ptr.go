package main

import (
	"fmt"
	"go/token"
	"go/types"
	"sort"
	"strings"

	"golang.org/x/tools/go/ssa"
)

func init() {
	register(&Rule{ID: "PTR-CHASE", Min: 25,
		Text: "every load/store through (*unsafe.Pointer)(x) in the codec is classified: nil-test only (slot must be pointer-shaped: under CanSkipEncodeIfNil or in a list/map header routine), map-header access (flows only to maplen / final store of the built map), or chase (result used as an address). A chase is dominated by the true edge of IsPointer of the descriptor the chased slot belongs to (the descriptor it is handed to next, or the function's own descriptor); a decoder store that installs a batch pointer is dominated by G.IsPointer and the batch was allocated from G.V",
		Run:  rulePtrChase})
}

func isPtrToUnsafePointer(t types.Type) bool {
	p, ok := t.Underlying().(*types.Pointer)
	return ok && isUnsafePointer(p.Elem())
}

// upSlot reports whether v is a (*unsafe.Pointer)(x) conversion and returns x.
func upSlot(v ssa.Value) (ssa.Value, bool) {
	cv, ok := v.(*ssa.Convert)
	if !ok || !isPtrToUnsafePointer(cv.Type()) || !isUnsafePointer(cv.X.Type()) {
		return nil, false
	}
	return cv.X, true
}

// isPointerGuards returns the descriptor paths G such that `G.IsPointer` is known true at block b.
func isPointerGuards(b *ssa.BasicBlock) []string {
	var out []string
	for _, cd := range domConds(b) {
		if !cd.Truth {
			continue
		}
		if recv, typ, f, ok := fieldOf(cd.V); ok && f == "IsPointer" && typ == "tType" {
			out = append(out, path(recv))
		}
	}
	return out
}

func rulePtrChase(c *Ctx) []Ob {
	s := newSink(c, "PTR-CHASE")
	headerRoutines := map[string]bool{"appendListHeader": true, "appendMapHeader": true, "encodedListSize": true, "encodedMapSize": true}
	// the encode routines installed for list / map descriptors receive a slice / map header just as the header helpers do (the
	// registrations are checked against the kinds by T5 / T6): a header helper written out in such a routine is the same access
	mapRoutines := map[string]bool{"appendMapHeader": true, "encodedMapSize": true, "appendMapAnyAny": true}
	regs, _ := c.registrations()
	for _, r := range regs {
		headerRoutines[r.fn.Name()] = true
		if !r.isList {
			mapRoutines[r.fn.Name()] = true
		}
	}
	for _, g := range []string{"appendMapAnyAny", "appendListAny"} {
		headerRoutines[g] = true
	}
	for _, fn := range c.ModuleFuncs(pkgReflect) {
		if fn.Name() == "testhack" || strings.HasPrefix(fn.Name(), "init") {
			continue
		}
		fname := shortFn(fn)
		descParam := ""
		if len(fn.Params) > 0 && namedOf(fn.Params[0].Type()) == "tType" {
			descParam = fn.Params[0].Name()
		}
		for _, b := range fn.Blocks {
			for _, in := range b.Instrs {
				switch x := in.(type) {
				case *ssa.UnOp:
					if x.Op != token.MUL {
						continue
					}
					slot, ok := upSlot(x.X)
					if !ok {
						continue
					}
					pos := c.InstrPos(x)
					// classify by use
					kind := "niltest"
					var consumers []ssa.Instruction
					var walk func(v ssa.Value, seen map[ssa.Value]bool)
					walk = func(v ssa.Value, seen map[ssa.Value]bool) {
						if seen[v] {
							return
						}
						seen[v] = true
						for _, r := range referrers(v) {
							switch y := r.(type) {
							case *ssa.BinOp:
								if (y.Op == token.EQL || y.Op == token.NEQ) && (isNilConst(y.X) || isNilConst(y.Y)) {
									continue
								}
								kind = "chase"
								consumers = append(consumers, r)
							case *ssa.Call:
								if f := y.Call.StaticCallee(); f != nil && f.Name() == "maplen" {
									if kind == "niltest" {
										kind = "maphdr"
									}
									continue
								}
								kind = "chase"
								consumers = append(consumers, r)
							case *ssa.Phi:
								walk(y, seen)
							case *ssa.DebugRef:
							default:
								kind = "chase"
								consumers = append(consumers, r)
							}
						}
					}
					walk(x, map[ssa.Value]bool{})
					key := fname + ":load:" + kind
					switch kind {
					case "niltest":
						// slot must be pointer-shaped
						okShape := headerRoutines[fn.Name()]
						why := "list/map header routine: first word of a slice/map header"
						if !okShape {
							for _, cd := range domConds(b) {
								if _, _, f, ok := fieldOf(cd.V); ok && f == "CanSkipEncodeIfNil" && cd.Truth {
									okShape = true
									why = "under CanSkipEncodeIfNil (computed only for pointer-shaped representations, rule NIL-TEST)"
								}
							}
						}
						if okShape {
							s.ok(key, pos, "nil test of a pointer-shaped slot: "+why)
						} else {
							s.bad(key, pos, "nil test reads the first word of a slot that is not known to be pointer-shaped (no CanSkipEncodeIfNil guard, not a list/map header routine)")
						}
					case "maphdr":
						s.check(mapRoutines[fn.Name()], key, pos, "map header word passed to maplen in a map header routine", "maplen of a slot outside the map header routines")
					case "chase":
						guards := isPointerGuards(b)
						if len(guards) == 0 {
							s.bad(key, pos, "pointer chase (loaded word used as an address) is not conditioned on the descriptor's IsPointer flag: a by-value slot would be dereferenced")
							continue
						}
						// expected owner
						want := map[string]bool{}
						for _, r := range consumers {
							call, ok := r.(*ssa.Call)
							if !ok {
								continue
							}
							if _, isB := call.Call.Value.(*ssa.Builtin); isB {
								continue // unsafe.Add etc.: address arithmetic inside this function
							}
							if call.Call.StaticCallee() == nil && !call.Call.IsInvoke() {
								fv := path(call.Call.Value)
								if strings.HasSuffix(fv, ".AppendFunc") {
									want[strings.TrimSuffix(fv, ".AppendFunc")] = true
									if len(call.Call.Args) > 0 && path(call.Call.Args[0]) != strings.TrimSuffix(fv, ".AppendFunc") {
										want["<mismatch:"+path(call.Call.Args[0])+">"] = true
									}
								} else if strings.HasSuffix(fv, ".EncodedSizeFunc") {
									want[strings.TrimSuffix(fv, ".EncodedSizeFunc")] = true
								} else {
									want["<dynamic:"+fv+">"] = true
								}
							} else if f := call.Call.StaticCallee(); f != nil && len(call.Call.Args) > 0 && namedOf(call.Call.Args[0].Type()) == "tType" {
								want[path(call.Call.Args[0])] = true
							}
						}
						if len(want) == 0 {
							// used for loads / offsets in this function: owner is the function's own descriptor,
							// or the field type whose offset produced the slot
							if descParam != "" {
								want[descParam] = true
							}
							for _, r := range ptrAddOffsets(slot) {
								want[r+".Type"] = true
							}
						}
						good := false
						for _, g := range guards {
							if want[g] {
								good = true
							}
						}
						var ws []string
						for w := range want {
							ws = append(ws, w)
						}
						sort.Strings(ws)
						if good {
							s.ok(key, pos, fmt.Sprintf("chase under %s.IsPointer, slot belongs to that descriptor", strings.Join(guards, ",")))
						} else {
							s.bad(key, pos, fmt.Sprintf("chase is guarded by %v.IsPointer but the slot belongs to descriptor %v", guards, ws))
						}
					}
				case *ssa.Store:
					_, ok := upSlot(x.Addr)
					if !ok {
						continue
					}
					pos := c.InstrPos(x)
					// value class
					val := x.Val
					cls, allocDesc := storeValueClass(val)
					key := fname + ":store:" + cls
					switch cls {
					case "batch":
						guards := isPointerGuards(b)
						good := false
						for _, g := range guards {
							if allocDesc == g+".V" {
								good = true
							}
						}
						if good {
							s.ok(key, pos, fmt.Sprintf("installs memory allocated from %s under %s.IsPointer", allocDesc, strings.TrimSuffix(allocDesc, ".V")))
						} else {
							s.bad(key, pos, fmt.Sprintf("pointer installed into a slot: allocated from %q, IsPointer guards %v: the slot's descriptor G must satisfy G.IsPointer and the allocation must use G.V", allocDesc, guards))
						}
					case "map":
						slot, _ := upSlot(x.Addr)
						_, isParam := slot.(*ssa.Parameter)
						s.check(isParam, key, pos, "publishes the built map into the destination slot", "map pointer stored into a computed slot")
					default:
						s.undec(key, pos, "store through *unsafe.Pointer of a value of unrecognised origin")
					}
				}
			}
		}
	}
	return s.obs
}

// ptrAddOffsets returns the paths Y such that v derives from unsafe.Add(_, Y.Offset).
func ptrAddOffsets(v ssa.Value) []string {
	var out []string
	seen := map[ssa.Value]bool{}
	var walk func(v ssa.Value)
	walk = func(v ssa.Value) {
		if seen[v] {
			return
		}
		seen[v] = true
		switch x := v.(type) {
		case *ssa.Phi:
			for _, e := range x.Edges {
				walk(e)
			}
		case *ssa.Call:
			if isBuiltin(x, "Add") {
				off := x.Call.Args[1]
				for {
					if cv, ok := off.(*ssa.Convert); ok {
						off = cv.X
						continue
					}
					break
				}
				if recv, _, f, ok := fieldOf(off); ok && f == "Offset" {
					out = append(out, path(recv))
				}
			}
		}
	}
	walk(v)
	return out
}

// storeValueClass: "batch" (derives from (*tDecoder).Malloc; returns the descriptor path used for the size), "map", or "".
func storeValueClass(v ssa.Value) (string, string) {
	seen := map[ssa.Value]bool{}
	cls, desc := "", ""
	var walk func(v ssa.Value)
	walk = func(v ssa.Value) {
		if seen[v] {
			return
		}
		seen[v] = true
		switch x := v.(type) {
		case *ssa.Phi:
			for _, e := range x.Edges {
				walk(e)
			}
		case *ssa.Call:
			if isBuiltin(x, "Add") {
				walk(x.Call.Args[0])
				return
			}
			f := x.Call.StaticCallee()
			if f == nil {
				return
			}
			switch {
			case shortFn(f) == "tDecoder.Malloc":
				cls = "batch"
				// size argument: X.Size or l*X.Size
				sz := x.Call.Args[1]
				if bo, ok := sz.(*ssa.BinOp); ok && bo.Op == token.MUL {
					sz = bo.Y
					if _, _, f, ok := fieldOf(bo.X); ok && f == "Size" {
						sz = bo.X
					}
				}
				if recv, _, f, ok := fieldOf(sz); ok && f == "Size" {
					desc = path(recv)
				}
			case f.Name() == "UnsafePointer" && fnPkgPath(f) == "reflect":
				cls = "map"
			}
		}
	}
	walk(v)
	return cls, desc
}
