package main

import (
	"fmt"
	"go/constant"
	"go/token"
	"go/types"
	"reflect"
	"strings"

	"golang.org/x/tools/go/ssa"
)

// Discovery of the unknown-fields holder.
//
// The decoder writes a three-word []byte header at base + unknownFieldsOffset of the struct it decodes, the writer and the
// sizer read one there. The offset comes from a reflect.StructField. A lookup by name (FieldByName, FieldByNameFunc) also
// finds fields *promoted* from an embedded struct, and their Offset is relative to the embedded struct that declares them,
// not to the outer struct: used as it stands the header lands on other fields of the outer struct (finding D14). So the
// offset of a field found by name may be used only where the field is the struct's own (`len(f.Index) == 1`), the field
// must have been checked to be a byte slice (three words are written), and the flag and the offset are set together.

func init() {
	register(&Rule{ID: "F.holder-discovery", Min: 4,
		Text: "unknown-fields holder: the offset stored in the descriptor is the Offset of a reflect.StructField that is the struct's own field (obtained with Field(i), or found by name and used only under len(f.Index) == 1: a promoted field's Offset is relative to the embedded struct), under the tests that its type is a slice of uint8 and that its name is _unknownFields; the flag is set exactly where the offset is",
		Run:  ruleHolder})
}

// structFieldRoot: the alloc or value of type reflect.StructField that v (a load of one of its fields) reads from, and the field.
func structFieldRoot(v ssa.Value) (root ssa.Value, field string) {
	v = stripConv(v)
	switch x := v.(type) {
	case *ssa.UnOp:
		if x.Op == token.MUL {
			if fa, ok := x.X.(*ssa.FieldAddr); ok && isReflectStructField(fa.X.Type()) {
				return fa.X, fieldName(fa.X.Type(), fa.Field)
			}
		}
	case *ssa.Field:
		if isReflectStructField(x.X.Type()) {
			return x.X, fieldName(x.X.Type(), x.Field)
		}
	}
	return nil, ""
}

func isReflectStructField(t types.Type) bool {
	if p, ok := t.Underlying().(*types.Pointer); ok {
		t = p.Elem()
	}
	n, ok := t.(*types.Named)
	return ok && n.Obj().Pkg() != nil && n.Obj().Pkg().Path() == "reflect" && n.Obj().Name() == "StructField"
}

// structFieldSources: the calls that produced the StructField held in root (an alloc that is stored into, or a value).
func structFieldSources(root ssa.Value) []ssa.Value {
	var out []ssa.Value
	var walk func(v ssa.Value, d int)
	walk = func(v ssa.Value, d int) {
		if d > 6 {
			out = append(out, v)
			return
		}
		switch x := v.(type) {
		case *ssa.Alloc:
			n := 0
			for _, r := range referrers(x) {
				if st, ok := r.(*ssa.Store); ok && st.Addr == ssa.Value(x) {
					walk(st.Val, d+1)
					n++
				}
			}
			if n == 0 {
				out = append(out, v)
			}
		case *ssa.Extract:
			walk(x.Tuple, d+1)
		case *ssa.Phi:
			for _, e := range x.Edges {
				walk(e, d+1)
			}
		case *ssa.UnOp:
			if x.Op == token.MUL {
				walk(x.X, d+1)
				return
			}
			out = append(out, v)
		default:
			out = append(out, v)
		}
	}
	walk(root, 0)
	return out
}

func calleeName(v ssa.Value) string {
	call, ok := v.(*ssa.Call)
	if !ok {
		return ""
	}
	if call.Call.IsInvoke() {
		return call.Call.Method.Name()
	}
	if f := call.Call.StaticCallee(); f != nil {
		return f.Name()
	}
	return ""
}

func ruleHolder(c *Ctx) []Ob {
	s := newSink(c, "F.holder-discovery")
	sites := 0
	for _, fn := range c.ModuleFuncs(pkgReflect) {
		var offStores, flagStores []*ssa.Store
		for _, b := range fn.Blocks {
			for _, ins := range b.Instrs {
				st, ok := ins.(*ssa.Store)
				if !ok {
					continue
				}
				if _, typ, f, ok := fieldOf(st.Addr); ok && strings.HasSuffix(typ, "structDesc") {
					switch f {
					case "unknownFieldsOffset":
						offStores = append(offStores, st)
					case "hasUnknownFields":
						if cst, isC := st.Val.(*ssa.Const); !isC || cst.Value == nil || constant.BoolVal(cst.Value) {
							flagStores = append(flagStores, st)
						}
					}
				}
			}
		}
		for _, st := range offStores {
			for _, src := range valueSources(st.Val, 0) {
				if z, isC := constInt(stripConv(src.v)); isC && z == 0 {
					continue // the "no holder" value of a merged result
				}
				sites++
				key := fn.Name() + ":holder"
				root, fld := structFieldRoot(src.v)
				if root == nil || fld != "Offset" {
					s.undec(key+":own-field", c.InstrPos(st), "the holder offset is not the Offset of a reflect.StructField ("+path(src.v)+"): cannot tell which struct it is relative to")
					continue
				}
				conds := append(append([]Cond{}, src.conds...), domConds(st.Block())...)
				if ins, ok := src.v.(ssa.Instruction); ok && ins.Block() != nil {
					conds = append(conds, domConds(ins.Block())...)
				}
				// (1) own field
				ownGuard := false
				for _, cd := range conds {
					bo, ok := cd.V.(*ssa.BinOp)
					if !ok {
						continue
					}
					for _, pr := range [][2]ssa.Value{{bo.X, bo.Y}, {bo.Y, bo.X}} {
						n, isC := constInt(stripConv(pr[1]))
						call, isCall := stripConv(pr[0]).(*ssa.Call)
						if !isC || !isCall {
							continue
						}
						bi, isB := call.Call.Value.(*ssa.Builtin)
						if !isB || bi.Name() != "len" || len(call.Call.Args) != 1 {
							continue
						}
						r2, f2 := structFieldRoot(call.Call.Args[0])
						if r2 != root || f2 != "Index" {
							continue
						}
						switch {
						case n == 1 && (bo.Op == token.EQL && cd.Truth || bo.Op == token.NEQ && !cd.Truth):
							ownGuard = true
						case n == 1 && (bo.Op == token.GTR && !cd.Truth && pr[0] == bo.X || bo.Op == token.LEQ && cd.Truth && pr[0] == bo.X):
							ownGuard = true // len <= 1; an index path is never empty
						case n == 2 && (bo.Op == token.LSS && cd.Truth && pr[0] == bo.X || bo.Op == token.GEQ && !cd.Truth && pr[0] == bo.X):
							ownGuard = true
						}
					}
				}
				var byName, own, other []string
				for _, src := range structFieldSources(root) {
					switch n := calleeName(src); n {
					case "Field":
						own = append(own, n)
					case "FieldByName", "FieldByNameFunc":
						byName = append(byName, n)
					default:
						other = append(other, path(src))
					}
				}
				switch {
				case len(other) > 0 && !ownGuard:
					s.undec(key+":own-field", c.InstrPos(st), fmt.Sprintf("the holder's StructField comes from %v: cannot tell whether its Offset is relative to the struct being described", other))
				case len(byName) > 0 && !ownGuard:
					s.bad(key+":own-field", c.InstrPos(st), fmt.Sprintf("the holder is found with %s, which also returns a field promoted from an embedded struct, and its Offset (relative to the embedded struct that declares it) is used as an offset into the outer struct without a `len(f.Index) == 1` test: decode writes the []byte header over other fields of the outer struct, encode and size read it from there", byName[0]))
				default:
					s.ok(key+":own-field", c.InstrPos(st), "the offset is that of the struct's own field (Field(i), or a lookup by name used under len(Index) == 1)")
				}
				// (2) the field is a slice of bytes: Kind() == Slice on its type and Elem().Kind() == Uint8
				slice, u8 := false, false
				for _, cd := range conds {
					bo, ok := cd.V.(*ssa.BinOp)
					if !ok || !(bo.Op == token.EQL && cd.Truth || bo.Op == token.NEQ && !cd.Truth) {
						continue
					}
					for _, pr := range [][2]ssa.Value{{bo.X, bo.Y}, {bo.Y, bo.X}} {
						n, isC := constInt(stripConv(pr[1]))
						call, isCall := stripConv(pr[0]).(*ssa.Call)
						if !isC || !isCall || calleeName(call) != "Kind" {
							continue
						}
						var recv ssa.Value
						if call.Call.IsInvoke() {
							recv = call.Call.Value
						} else if len(call.Call.Args) > 0 {
							recv = call.Call.Args[0]
						}
						if recv == nil {
							continue
						}
						if r2, f2 := structFieldRoot(recv); r2 == root && f2 == "Type" && n == int64(reflect.Slice) {
							slice = true
						}
						if ec, ok := stripConv(recv).(*ssa.Call); ok && calleeName(ec) == "Elem" {
							var er ssa.Value
							if ec.Call.IsInvoke() {
								er = ec.Call.Value
							} else if len(ec.Call.Args) > 0 {
								er = ec.Call.Args[0]
							}
							if er != nil {
								if r2, f2 := structFieldRoot(er); r2 == root && f2 == "Type" && n == int64(reflect.Uint8) {
									u8 = true
								}
							}
						}
					}
				}
				s.check(slice && u8, key+":byte-slice", c.InstrPos(st), "the holder's type is tested to be a slice of uint8 before the offset is recorded",
					fmt.Sprintf("the holder offset is recorded without the tests Type.Kind() == Slice (%v) and Type.Elem().Kind() == Uint8 (%v): a three-word []byte header is written over whatever the field is", slice, u8))
				// (3) the name
				named := false
				for _, src := range structFieldSources(root) {
					if call, ok := src.(*ssa.Call); ok {
						for _, a := range call.Call.Args {
							if sv, ok := strConst(a); ok && sv == "_unknownFields" {
								named = true
							}
						}
					}
				}
				for _, cd := range conds {
					if bo, ok := cd.V.(*ssa.BinOp); ok && (bo.Op == token.EQL && cd.Truth || bo.Op == token.NEQ && !cd.Truth) {
						for _, pr := range [][2]ssa.Value{{bo.X, bo.Y}, {bo.Y, bo.X}} {
							if sv, ok := strConst(pr[1]); ok && sv == "_unknownFields" {
								if r2, f2 := structFieldRoot(pr[0]); r2 == root && f2 == "Name" {
									named = true
								}
							}
						}
					}
				}
				s.check(named, key+":name", c.InstrPos(st), "the holder is the field named _unknownFields", "the field taken as the holder is not selected by the name _unknownFields")
				// (4) the flag is set with the offset
				paired := false
				for _, fs := range flagStores {
					if fs.Block() == st.Block() {
						paired = true
					}
				}
				s.check(paired, key+":flag", c.InstrPos(st), "hasUnknownFields is set in the block that records the offset", "the offset is recorded where hasUnknownFields is not set")
			}
		}
		for _, fs := range flagStores {
			paired := false
			for _, st := range offStores {
				if fs.Block() == st.Block() {
					paired = true
				}
			}
			if !paired {
				s.bad(fn.Name()+":holder:flag-without-offset", c.InstrPos(fs), "hasUnknownFields is set where no offset is recorded: the header is written at offset 0 of the struct")
			}
		}
	}
	if sites == 0 {
		s.bad("holder", "-", "no store into structDesc.unknownFieldsOffset found: the unknown-fields holder is never located")
	}
	return s.obs
}

// ---------------------------------------------------------------- type keywords are whole words (finding D15)

func init() {
	register(&Rule{ID: "R.keyword-words", Min: 1,
		Text: "the word of a type annotation is accepted for a Go kind only when it equals one of that kind's keywords: the keyword table is consulted by equality with each of its words, never by containment, prefix or suffix tests (a fragment such as `str`, `8` or `nary` is not a type name and must be refused as mistyped)",
		Run:  ruleKeywordWords})
}

// fromKeywordTab reports whether v is (derived from) an entry of the keyword table: the entry itself, the words it is split
// into, an element of those.
func fromKeywordTab(v ssa.Value, d int) bool {
	if d > 8 || v == nil {
		return false
	}
	switch x := v.(type) {
	case *ssa.UnOp:
		if x.Op == token.MUL {
			if ia, ok := x.X.(*ssa.IndexAddr); ok {
				if g, ok := ia.X.(*ssa.Global); ok && g.Name() == "keywordTab" {
					return true
				}
				return fromKeywordTab(ia.X, d+1)
			}
		}
		return fromKeywordTab(x.X, d+1)
	case *ssa.Index:
		if u, ok := x.X.(*ssa.UnOp); ok {
			if g, ok := u.X.(*ssa.Global); ok && g.Name() == "keywordTab" {
				return true
			}
		}
		return fromKeywordTab(x.X, d+1)
	case *ssa.IndexAddr:
		return fromKeywordTab(x.X, d+1)
	case *ssa.Slice:
		return fromKeywordTab(x.X, d+1)
	case *ssa.Phi:
		for _, e := range x.Edges {
			if fromKeywordTab(e, d+1) {
				return true
			}
		}
	case *ssa.Extract:
		return fromKeywordTab(x.Tuple, d+1)
	case *ssa.Next:
		return fromKeywordTab(x.Iter, d+1)
	case *ssa.Range:
		return fromKeywordTab(x.X, d+1)
	case *ssa.ChangeType:
		return fromKeywordTab(x.X, d+1)
	case *ssa.Convert:
		return fromKeywordTab(x.X, d+1)
	case *ssa.Call:
		if f := x.Call.StaticCallee(); f != nil && fnPkgPath(f) == "strings" {
			for _, a := range x.Call.Args {
				if fromKeywordTab(a, d+1) {
					return true
				}
			}
		}
		if isKeywordSource(x.Call.StaticCallee()) {
			return true
		}
	}
	return false
}

// isKeywordSource: the keyword table written as a function: func(Tag) string whose every return is a string constant.
func isKeywordSource(f *ssa.Function) bool {
	if f == nil || f.Blocks == nil || fnPkgPath(f) != pkgDefs || len(f.Params) != 1 || namedOf(f.Params[0].Type()) != "Tag" ||
		f.Signature.Results().Len() != 1 || !isStringType(f.Signature.Results().At(0).Type().Underlying()) {
		return false
	}
	n := 0
	for _, b := range f.Blocks {
		if ret, ok := b.Instrs[len(b.Instrs)-1].(*ssa.Return); ok && b != f.Recover {
			if len(ret.Results) != 1 {
				return false
			}
			if _, isC := ret.Results[0].(*ssa.Const); !isC {
				return false
			}
			n++
		}
	}
	return n >= 2
}

func ruleKeywordWords(c *Ctx) []Ob {
	s := newSink(c, "R.keyword-words")
	sp := c.SSA[pkgDefs]
	if sp == nil {
		s.bad("keywords", "-", "package defs not found")
		return s.obs
	}
	hasSourceFn := false
	for _, m := range sp.Members {
		if f, ok := m.(*ssa.Function); ok && isKeywordSource(f) {
			hasSourceFn = true
		}
	}
	if _, ok := sp.Members["keywordTab"].(*ssa.Global); !ok && !hasSourceFn {
		s.ok("keywords", "-", "no keyword table in this tree: the keyword dispatch is decided by R.refusals (kind rows); nothing to hold against a table")
		return s.obs
	}
	partial := map[string]bool{"Contains": true, "ContainsAny": true, "ContainsRune": true, "HasPrefix": true, "HasSuffix": true, "Index": true, "LastIndex": true, "IndexAny": true, "IndexByte": true, "EqualFold": true, "Count": true}
	equal, tests := 0, 0
	for _, fn := range c.ModuleFuncs(pkgDefs) {
		for _, b := range fn.Blocks {
			for _, ins := range b.Instrs {
				switch x := ins.(type) {
				case *ssa.Call:
					f := x.Call.StaticCallee()
					if f == nil || fnPkgPath(f) != "strings" || !partial[f.Name()] {
						continue
					}
					// the result must be used as a test (a message builder such as Join is not in the list anyway)
					for _, a := range x.Call.Args {
						if fromKeywordTab(a, 0) {
							tests++
							s.bad(fn.Name()+":keyword-test", c.InstrPos(x), fmt.Sprintf("the keyword table is consulted with strings.%s: any fragment (or, for EqualFold, any other spelling) of a keyword of the kind is accepted as its type name instead of being refused as mistyped", f.Name()))
							break
						}
					}
				case *ssa.BinOp:
					if (x.Op == token.EQL || x.Op == token.NEQ) && isStringType(x.X.Type().Underlying()) {
						if fromKeywordTab(x.X, 0) != fromKeywordTab(x.Y, 0) {
							equal++
							tests++
							s.ok(fn.Name()+":keyword-test", c.InstrPos(x), "a word of the keyword table is compared for equality with the annotation word")
						}
					}
				}
			}
		}
	}
	if tests == 0 {
		s.undec("keywords", "-", "the keyword table exists but no test of the annotation word against it was recognised (neither an equality with its words nor a strings test)")
	}
	_ = equal
	return s.obs
}

// isKeywordPredicate: a module function with a boolean result that tests a word against the keyword table.
func isKeywordPredicate(f *ssa.Function) bool {
	if f == nil || f.Blocks == nil || fnPkgPath(f) != pkgDefs || f.Signature.Results().Len() != 1 || !isBoolType(f.Signature.Results().At(0).Type()) {
		return false
	}
	for _, b := range f.Blocks {
		for _, ins := range b.Instrs {
			switch x := ins.(type) {
			case *ssa.BinOp:
				if (x.Op == token.EQL || x.Op == token.NEQ) && fromKeywordTab(x.X, 0) != fromKeywordTab(x.Y, 0) {
					return true
				}
			case *ssa.Call:
				if g := x.Call.StaticCallee(); g != nil && fnPkgPath(g) == "strings" {
					for _, a := range x.Call.Args {
						if fromKeywordTab(a, 0) {
							return true
						}
					}
				}
			}
		}
	}
	return false
}

// ---------------------------------------------------------------- the entry points answer only through the codec

func init() {
	register(&Rule{ID: "X.api-delegation", Min: 6,
		Text: "every return of an entry point that can report success (a nil error, or a size) is reached only after the call of the codec routine it stands for: frugal.DecodeObject -> reflect.Decode -> (*tDecoder).Decode, frugal.EncodeObject -> reflect.Append -> appendStruct, frugal.EncodedSize -> reflect.EncodedSize -> (*tType).EncodedSize; a shortcut that answers from the first bytes or from the argument alone bypasses the required-field test, the argument checks and the descriptor",
		Run:  ruleAPIDelegation})
}

func ruleAPIDelegation(c *Ctx) []Ob {
	s := newSink(c, "X.api-delegation")
	type ent struct {
		pkg, fn string
		target  func(f *ssa.Function) bool
		tname   string
	}
	named := func(pkg, name string) func(f *ssa.Function) bool {
		return func(f *ssa.Function) bool { return f != nil && fnPkgPath(f) == pkg && shortFn(f) == name }
	}
	ents := []ent{
		{pkgRoot, "DecodeObject", named(pkgReflect, "Decode"), "reflect.Decode"},
		{pkgRoot, "EncodeObject", named(pkgReflect, "Append"), "reflect.Append"},
		{pkgRoot, "EncodedSize", named(pkgReflect, "EncodedSize"), "reflect.EncodedSize"},
		{pkgReflect, "Decode", named(pkgReflect, "tDecoder.Decode"), "(*tDecoder).Decode"},
		{pkgReflect, "Append", named(pkgReflect, "appendStruct"), "appendStruct"},
		{pkgReflect, "EncodedSize", named(pkgReflect, "tType.EncodedSize"), "(*tType).EncodedSize"},
	}
	for _, e := range ents {
		fn := c.Func(e.pkg, e.fn)
		key := shortPkg(e.pkg) + "." + e.fn
		if fn == nil {
			s.bad(key, "-", "entry point not found")
			continue
		}
		var calls []*ssa.BasicBlock
		for _, b := range fn.Blocks {
			for _, ins := range b.Instrs {
				if call, ok := ins.(*ssa.Call); ok && e.target(call.Call.StaticCallee()) {
					calls = append(calls, b)
				}
			}
		}
		nret := 0
		for _, b := range fn.Blocks {
			ret, ok := b.Instrs[len(b.Instrs)-1].(*ssa.Return)
			if !ok || b == fn.Recover {
				continue
			}
			nret++
			if n := len(ret.Results); n > 0 && isErrorType(ret.Results[n-1].Type()) {
				if definitelyNonNilErr(unspill(ret.Results[n-1], b), b) {
					s.ok(key+":return", c.InstrPos(ret), "failure return")
					continue
				}
			}
			after := false
			for _, cb := range calls {
				if cb == b || cb.Dominates(b) {
					after = true
				}
			}
			s.check(after, key+":return", c.InstrPos(ret), "a return that may report success follows the call of "+e.tname,
				"this return of "+key+" may report success without "+e.tname+" having been called: the answer does not come from the codec (required fields, argument checks and the descriptor are bypassed)")
		}
		if nret == 0 {
			s.bad(key, c.Pos(fn.Pos()), "no return found")
		}
	}
	return s.obs
}

func shortPkg(p string) string {
	if i := strings.LastIndex(p, "/"); i >= 0 {
		return p[i+1:]
	}
	return p
}
