#!/bin/bash
# usage: benigntest.sh <patch.diff>...  -- behaviour-preserving patches: every rule must stay silent
cd "$(dirname "$0")/.."
wt=${SEED_WT:-/tmp/scratch/seedwt}
[ -d $wt ] || git -C /repo worktree add -q --detach $wt HEAD
for p in "$@"; do
  p=$(readlink -f "$p")
  git -C $wt checkout -q --detach $(git -C /repo rev-parse HEAD) 2>/dev/null; git -C $wt checkout -q -- . ; git -C $wt clean -fdq
  if ! git -C $wt apply "$p" 2>/dev/null; then echo "$p: PATCH-DOES-NOT-APPLY"; continue; fi
  if [ -n "${BASELINE:-}" ]; then /tmp/scratch/base.sh $wt | grep -v "^ok" | head -3; fi
  out=$(${FRUGALVET:-bin/frugalvet} -repo $wt -prop ALL -replaydir /tmp/scratch/seedreplay 2>&1)
  rules=$(echo "$out" | grep -o "\(VIOLATED\|UNDECIDED\) \[[^]]*\]" | sort | uniq -c | tr '\n' ' ')
  err=$(echo "$out" | grep "ANALYSIS-ERROR" | head -2 | cut -c1-200)
  echo "$p: ${rules:-silent} $err"
  git -C $wt checkout -q -- .
done
