package main

const techLens = "static analysis (go/types + go/ssa): protocol-table lenses over constants, tables, emission chains and fast-path registrations; pointer-level (IsPointer) dominance check"

func propertyTable() []*Property {
	return []*Property{
		{ID: "C02", Technique: techLens,
			Decides:    "every byte-emitting site of the encoder emits the Thrift Binary width of its kind in big-endian order (T3, T4); type bytes in field/list/map headers come from the wire type WT, ids are high byte first, counts are the live length, every success return of the struct writer ends with STOP, a nil struct is a lone STOP, retained unknown bytes go before STOP (T9); the 11 list and 144 map fast-path registrations agree with the routine they select in element layout (size of every Go representation that can reach the kind, runtime hash class of native map casts), emitted widths, key-before-value association and count re-check (T5, T6); constants and tables equal the protocol table (T1, T2); pointer chases are conditioned on the owning descriptor's IsPointer (PTR-CHASE).",
			NotDecided: "that the bytes denote the value (which fields are selected by value, map contents), agreement with an independent implementation on concrete values.",
			RuleIDs:    []string{"T1.wire-codes", "T2.tables", "T3.big-endian", "T4.writer-lens", "T5.list-registrations", "T6.map-registrations", "T9.wire-type-bytes", "PTR-CHASE"}},
		{ID: "C05", Technique: "static analysis (go/ssa): linear-inequality cursor-bounds analysis with callee contracts and loop induction; wire-length taint with sanitiser dominance; loop classification",
			Decides:    "for all byte strings and all descriptors: every read of the input in the decode closure is in bounds on every path (E4: index, slice, BigEndian.UintN, unsafe.Slice/String, recorded unknown-field extents), every function returning (n, err) satisfies err == nil => 0 <= n <= len(b); every wire-derived length is non-negative and bounded by the remaining input (through class-I table entries at schema wire types) before it sizes an allocation, a view, a slice header or a loop (E5), so allocation is O(len(input)) per type; every guard edge that asserts malformed input returns a non-nil error; element type codes are compared with the schema before elements are read; every loop is counted over a sanitised length, a strictly advancing bounded cursor, or a range over a descriptor slice; recursion is bounded (E6); the tables have non-zero divisors (T2).",
			NotDecided: "'success exactly when well-formed' (semantic acceptance), faults caused by a wrong descriptor (C13/C01 layout rules), the dependency's skipper (thrift.Binary.Skip contract trusted: err == nil => 0 <= n <= len(arg)).",
			Assumes:    []string{"thrift.Binary.Skip (gopkg v0.2.0) honours err == nil => 0 <= n <= len(b) and its own recursion bound (read in binary.go: every size is compared with the remaining buffer)"},
			RuleIDs:    []string{"E4.cursor-bounds", "E5.length-sanitised", "E5.guards-error", "E5.loops", "E6.depth", "T2.tables"}},
		{ID: "C15", Technique: "static analysis: termination measure on the recursive SCC of the decode call graph (VTA/CHA) with dominance of the depth guard",
			Decides:    "every input-driven recursive cycle of the decoder carries an int depth that strictly decreases by a constant on every intra-cycle call, is tested on entry of every member (== 0 only with unit decrements) with the exhausted edge returning the depth-limit exception and the test dominating every recursive call; the root starts at the constant maxDepthLimit; 48 x |SCC| x max decrement < maxDepthLimit <= 65536: depth <= maxDepthLimit frames on any input and 48 levels always fit.",
			NotDecided: "the exact accepted/rejected nesting boundary; stack use per frame; the dependency's bound for skipped unknown fields (assumed: gopkg skipType limit 64).",
			Assumes:    []string{"recursion inside thrift.Binary.Skip is bounded by its own depth limit (dependency, outside /repo)"},
			RuleIDs:    []string{"E6.depth"}},
	}
}

// notApplicable lists the properties not claimed, with the reason.
func notApplicable() []map[string]string {
	return []map[string]string{}
}
