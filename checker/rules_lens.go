package main

import (
	"fmt"
	"go/token"
	"go/types"
	"sort"
	"strings"

	"golang.org/x/tools/go/ssa"
)

// caseSet returns the set of constants c such that control reaches block b only when `x == c` held for a value x whose
// path ends in suffix (e.g. ".T"); i.e. b lies inside the body of `switch x { case c1, c2: ... }`. nil when b is not in such a body.
func caseSet(b *ssa.BasicBlock, suffix string) (consts []int64, subject string) {
	for cur := b; cur != nil; cur = cur.Idom() {
		if len(cur.Preds) == 0 {
			continue
		}
		var cs []int64
		subj := ""
		all := true
		for _, p := range cur.Preds {
			iff, ok := p.Instrs[len(p.Instrs)-1].(*ssa.If)
			if !ok || p.Succs[0] != cur || p.Succs[1] == cur {
				all = false
				break
			}
			bo, ok := iff.Cond.(*ssa.BinOp)
			if !ok || bo.Op != token.EQL {
				all = false
				break
			}
			cv, ok := constInt(bo.Y)
			x := bo.X
			if !ok {
				cv, ok = constInt(bo.X)
				x = bo.Y
			}
			px := path(x)
			if !ok || !(strings.HasSuffix(px, suffix) || px == strings.TrimPrefix(suffix, ".")) || (subj != "" && subj != px) {
				all = false
				break
			}
			subj = px
			cs = append(cs, cv)
		}
		if all && len(cs) > 0 {
			sort.Slice(cs, func(i, j int) bool { return cs[i] < cs[j] })
			return cs, subj
		}
	}
	return nil, ""
}

// shiftOf matches byte(x >> k) / byte(x): returns x and k.
func shiftOf(v ssa.Value) (ssa.Value, int64, bool) {
	cv, ok := v.(*ssa.Convert)
	if !ok {
		return nil, 0, false
	}
	if b, ok := cv.Type().Underlying().(*types.Basic); !ok || b.Kind() != types.Uint8 {
		return nil, 0, false
	}
	if bo, ok := cv.X.(*ssa.BinOp); ok && bo.Op == token.SHR {
		if k, ok := constInt(bo.Y); ok {
			return bo.X, k, true
		}
		return nil, 0, false
	}
	return cv.X, 0, true
}

func init() {
	register(&Rule{ID: "T4.writer-lens", Min: 11,
		Text: "in every switch on a descriptor's T in the scalar writers (appendAny and the inlined copy in appendStruct): the case set equals the key set of simpleTypes; per kind the bytes emitted equal the protocol width and the load size equals the Go size of that kind (ENUM: 8-byte load narrowed to 32 bits; STRING: 4-byte length of the loaded string then its bytes); the switch is entered only under SimpleType and the other edge dispatches through t.AppendFunc(t, b, p); both copies agree",
		Run:  ruleT4})
	register(&Rule{ID: "T7.reader-lens", Min: 7,
		Text: "decodeFixedSizeTypes: the case set equals the non-zero keys of typeToSize; per kind the bytes read (BigEndian.UintN / b[0]), the count returned and the store type's size match the kind; ENUM passes through a signed 32-bit conversion before widening to 64 bits; the default case panics",
		Run:  ruleT7})
	register(&Rule{ID: "T9.wire-type-bytes", Min: 6,
		Text: "every ttype->byte conversion that flows into the output originates from a load of field WT (never T) or a constant; field header = [f.Type.WT, ID>>8, ID]; list header = [elem WT, n>>24, n>>16, n>>8, n] with n the live slice length (nil: four zero bytes); map header = [K.WT, V.WT, n>>24..n] with n = maplen of the live map (nil: 0); every success return of the struct writer ends with a STOP byte, nil struct = lone STOP; unknown-field bytes are appended after the field loop and before STOP; callers of appendListHeader pass the element descriptor",
		Run:  ruleT9})
	register(&Rule{ID: "T8.equal-lens", Min: 7,
		Text: "(*tType).Equal: case set equals simpleTypes; per kind both operands are loaded with the kind's Go type class and size (DOUBLE compared as float64 so that -0.0 == 0.0 and NaN != NaN, I64/ENUM as 8-byte integers, STRING as string); unknown kinds return false",
		Run:  ruleEqualLens})
}

// scalarEmitCheck validates the emission(s) found for kind c in a scalar writer switch.
func scalarEmitCheck(c *Ctx, kn string, evs []*Emit, ptrOK func(ssa.Value) bool) []string {
	var probs []string
	bad := func(f string, a ...interface{}) { probs = append(probs, fmt.Sprintf(f, a...)) }
	ks, ok := kindSpecs[kn]
	if !ok || !ks.scalar {
		return []string{"case for non-scalar kind " + kn}
	}
	// a big-endian integer written out byte by byte (byte(v>>24), byte(v>>16), byte(v>>8), byte(v)) is the emission of v
	// with that width: the same thing appendUintN does (rule T3 reads the helpers' own bodies)
	var canon []*Emit
	for _, e := range evs {
		if e.Kind == "bytes" && (e.N == 2 || e.N == 4 || e.N == 8) && len(e.Srcs) == e.N {
			var base ssa.Value
			okShift := true
			for i, sv := range e.Srcs {
				x, kk, ok := shiftOf(sv)
				if !ok || kk != int64(8*(e.N-1-i)) || base != nil && x != base {
					okShift = false
					break
				}
				base = x
			}
			if okShift && base != nil {
				cp := *e
				cp.Kind, cp.Srcs = "uint", []ssa.Value{base}
				canon = append(canon, &cp)
				continue
			}
		}
		canon = append(canon, e)
	}
	evs = canon
	srcLoad := func(v ssa.Value) (*loadDesc, bool, bool) { // load, viaLen, narrowed
		viaLen, c32 := false, false
		for {
			if cv, ok := v.(*ssa.Convert); ok {
				if isInt(cv.Type()) && c.Sizes.Sizeof(cv.Type()) == 4 && isInt(cv.X.Type()) && c.Sizes.Sizeof(cv.X.Type()) == 8 && !viaLen {
					c32 = true
				}
				v = cv.X
				continue
			}
			if call, ok := v.(*ssa.Call); ok && isBuiltin(call, "len") {
				v = call.Call.Args[0]
				viaLen, c32 = true, false
				continue
			}
			break
		}
		return loadOf(v), viaLen, c32
	}
	if ks.wire == -1 {
		if len(evs) != 2 || evs[0].N != 4 || evs[1].Kind != "payload" {
			bad("STRING must be emitted as a 4-byte length followed by the payload")
			return probs
		}
		ld, viaLen, _ := srcLoad(evs[0].Srcs[0])
		ld2 := loadOf(evs[1].Srcs[0])
		if ld == nil || !viaLen || ld2 == nil || ld.Load != ld2.Load {
			bad("length and payload are not taken from the same loaded string")
			return probs
		}
		if b, ok := ld.T.Underlying().(*types.Basic); !ok || b.Kind() != types.String {
			bad("payload is loaded as %s, not string", ld.T)
		}
		if !ptrOK(ld.Ptr) {
			bad("string is not loaded through the value pointer (origins %v)", ptrRoots(ld.Ptr))
		}
		return probs
	}
	if len(evs) != 1 {
		bad("%d emissions for fixed-width kind %s", len(evs), kn)
		return probs
	}
	e := evs[0]
	if e.N != ks.wire {
		bad("kind %s is %d bytes on the wire, %d emitted", kn, ks.wire, e.N)
	}
	if len(e.Srcs) != 1 || e.Srcs[0] == nil {
		bad("unexpected emission shape")
		return probs
	}
	ld, viaLen, c32 := srcLoad(e.Srcs[0])
	if ld == nil || viaLen {
		bad("emitted value is not a load through the value pointer")
		return probs
	}
	if !ptrOK(ld.Ptr) {
		bad("value is not loaded through the value pointer (origins %v)", ptrRoots(ld.Ptr))
	}
	want := c.repSize(ks.reps[0])
	if got := c.Sizes.Sizeof(ld.T); got != want {
		bad("kind %s is %d bytes in memory, %d-byte load (%s)", kn, want, got, ld.T)
	}
	if (kn == "ENUM") != c32 {
		bad("64-to-32-bit narrowing must be present exactly for ENUM")
	}
	return probs
}

func ruleT4(c *Ctx) []Ob {
	s := newSink(c, "T4.writer-lens")
	k, err := c.kinds()
	if err != nil {
		s.undec("kinds", "-", err.Error())
		return s.obs
	}
	simple, _, okT := c.tableOf(pkgReflect, "simpleTypes")
	if !okT {
		s.undec("simpleTypes", "-", "table not evaluable")
		return s.obs
	}
	// (1) scalar switches: functions that emit under a switch on a kind (a descriptor's T, or a ttype parameter)
	type swInfo struct {
		fn      *ssa.Function
		subject string
		byParam *ssa.Parameter
	}
	var switches []swInfo
	for _, fn := range c.ModuleFuncs(pkgReflect) {
		if bufParam(fn) == nil {
			continue
		}
		ei := analyseEmits(fn)
		byKind := map[int64][]*Emit{}
		subject := ""
		var tparam *ssa.Parameter
		for _, prm := range fn.Params {
			if namedOf(prm.Type()) == "ttype" {
				tparam = prm
			}
		}
		for _, e := range ei.events {
			if e.Kind == "dyn" || e.Kind == "call" {
				continue
			}
			cs, subj := caseSet(e.Instr.Block(), ".T")
			if cs == nil && tparam != nil {
				cs, subj = caseSet(e.Instr.Block(), tparam.Name())
				if subj != tparam.Name() {
					cs = nil
				}
			}
			if cs == nil {
				continue
			}
			subject = subj
			for _, cv := range cs {
				byKind[cv] = append(byKind[cv], e)
			}
		}
		if len(byKind) < 3 {
			continue // not a kind switch over scalars (e.g. a header routine)
		}
		fname := shortFn(fn)
		sw := swInfo{fn: fn, subject: subject}
		if tparam != nil && subject == tparam.Name() {
			sw.byParam = tparam
		}
		switches = append(switches, sw)
		ptrOK := func(v ssa.Value) bool {
			rs := ptrRoots(v)
			for _, r := range rs {
				if !(strings.HasPrefix(r, "param:") || strings.HasPrefix(r, "load:") || strings.HasPrefix(r, "unsafe") || strings.HasPrefix(r, "Add(") || r == "call:appendListHeader#2") {
					return false
				}
			}
			return len(rs) > 0
		}
		keys := map[int64]bool{}
		for kk := range simple {
			keys[kk] = true
		}
		for kk := range byKind {
			keys[kk] = true
		}
		var ks []int64
		for kk := range keys {
			ks = append(ks, kk)
		}
		sort.Slice(ks, func(i, j int) bool { return ks[i] < ks[j] })
		for _, kk := range ks {
			kn := k.nameOf(kk)
			key := fname + ":case " + kn
			_, inTable := simple[kk]
			evs := byKind[kk]
			switch {
			case inTable && len(evs) == 0:
				s.bad(key, c.Pos(fn.Pos()), "simpleTypes marks "+kn+" as scalar but the writer switch has no case for it: the value would be silently dropped")
			case !inTable:
				s.bad(key, c.InstrPos(evs[0].Instr), "writer switch has a case for "+kn+" which simpleTypes does not mark: the case is dead and the kind is dispatched elsewhere")
			default:
				ps := scalarEmitCheck(c, kn, evs, ptrOK)
				s.check(len(ps) == 0, key, c.InstrPos(evs[0].Instr), fmt.Sprintf("%s: protocol width and Go load size agree", kn), strings.Join(ps, "; "))
			}
		}
	}
	if len(switches) == 0 {
		s.bad("scalar-switch", "-", "no scalar kind switch found in the encoder")
		return s.obs
	}
	isSwitchFn := func(f *ssa.Function) *swInfo {
		for i := range switches {
			if switches[i].fn == f {
				return &switches[i]
			}
		}
		return nil
	}
	// (2) dispatch sites: every branch on X.SimpleType in a writer: true edge = scalar switch on X.T (inline or through a
	// switch helper given X.T), false edge = X.AppendFunc(X, b, p)
	nSites := 0
	for _, fn := range c.ModuleFuncs(pkgReflect) {
		if bufParam(fn) == nil {
			continue
		}
		ei := analyseEmits(fn)
		for _, b := range fn.Blocks {
			iff, ok := b.Instrs[len(b.Instrs)-1].(*ssa.If)
			if !ok {
				continue
			}
			cond := iff.Cond
			neg := false
			if u, ok := cond.(*ssa.UnOp); ok && u.Op == token.NOT {
				cond, neg = u.X, true
			}
			recv, typ, f, ok := fieldOf(cond)
			if !ok || typ != "tType" || f != "SimpleType" {
				continue
			}
			nSites++
			desc := path(recv)
			tIdx, fIdx := 0, 1
			if neg {
				tIdx, fIdx = 1, 0
			}
			fname := shortFn(fn)
			// simple edge
			okSimple := false
			for _, e := range ei.events {
				eb := e.Instr.Block()
				if !(eb == b.Succs[tIdx] || b.Succs[tIdx].Dominates(eb)) || !edgeDominates(b, tIdx, eb) {
					continue
				}
				if cs, subj := caseSet(eb, ".T"); cs != nil && subj == desc+".T" {
					okSimple = true
				}
				if e.Kind == "call" {
					if sw := isSwitchFn(e.Callee); sw != nil && sw.byParam != nil {
						for i, prm := range e.Callee.Params {
							if prm == sw.byParam && i < len(e.Call.Call.Args) && path(e.Call.Call.Args[i]) == desc+".T" {
								okSimple = true
							}
						}
					}
				}
			}
			s.check(okSimple, fname+":simple-edge", c.InstrPos(iff), "scalars of "+desc+" go through the kind switch on "+desc+".T", "the SimpleType edge does not reach a scalar switch on "+desc+".T")
			// dispatch edge
			okDyn := false
			for _, e := range ei.events {
				eb := e.Instr.Block()
				if e.Kind != "dyn" || !edgeDominates(b, fIdx, eb) {
					continue
				}
				args := e.Call.Call.Args
				if path(e.Call.Call.Value) == desc+".AppendFunc" && len(args) == 3 && path(args[0]) == desc {
					okDyn = true
				}
			}
			s.check(okDyn, fname+":dispatch", c.InstrPos(iff), "non-scalar kinds go through "+desc+".AppendFunc("+desc+", b, p)", "the !SimpleType edge does not dispatch through "+desc+".AppendFunc("+desc+", ...)")
		}
	}
	if nSites < 2 {
		s.bad("dispatch-sites", "-", fmt.Sprintf("expected the scalar/non-scalar dispatch in the struct writer and in the element writer, found %d", nSites))
	}
	// a switch keyed by a ttype parameter is only correct when called with a descriptor's T and that descriptor's value pointer
	for _, sw := range switches {
		if sw.byParam == nil {
			// inline switch on X.T: must be under X.SimpleType
			desc := strings.TrimSuffix(sw.subject, ".T")
			okGuard := false
			for _, b := range sw.fn.Blocks {
				if cs, subj := caseSet(b, ".T"); cs != nil && subj == sw.subject {
					for _, cd := range domConds(b) {
						cv, truth := cd.V, cd.Truth
						if u, ok := cv.(*ssa.UnOp); ok && u.Op == token.NOT {
							cv, truth = u.X, !truth
						}
						if recv, _, f, ok := fieldOf(cv); ok && f == "SimpleType" && truth && path(recv) == desc {
							okGuard = true
						}
					}
				}
			}
			s.check(okGuard, shortFn(sw.fn)+":simple-guard", c.Pos(sw.fn.Pos()), "scalar switch is under "+desc+".SimpleType", "scalar switch is not under "+desc+".SimpleType")
		}
	}
	return s.obs
}

func ruleT7(c *Ctx) []Ob {
	s := newSink(c, "T7.reader-lens")
	k, err := c.kinds()
	if err != nil {
		s.undec("kinds", "-", err.Error())
		return s.obs
	}
	fn := c.SSA[pkgReflect].Func("decodeFixedSizeTypes")
	if fn == nil {
		s.bad("decodeFixedSizeTypes", "-", "function not found")
		return s.obs
	}
	sizes, _, okT := c.tableOf(pkgReflect, "typeToSize")
	if !okT {
		s.undec("typeToSize", "-", "table not evaluable")
		return s.obs
	}
	var tparam, bparam, pparam ssa.Value
	for _, p := range fn.Params {
		switch {
		case namedOf(p.Type()) == "ttype":
			tparam = p
		case isByteSlice(p.Type()):
			bparam = p
		case isUnsafePointer(p.Type()):
			pparam = p
		}
	}
	if tparam == nil || bparam == nil || pparam == nil {
		s.undec("decodeFixedSizeTypes", c.Pos(fn.Pos()), "unexpected signature")
		return s.obs
	}
	type caseInfo struct {
		store *ssa.Store
		ret   *ssa.Return
	}
	cases := map[int64]*caseInfo{}
	for _, b := range fn.Blocks {
		cs, subj := caseSet(b, tparam.Name())
		if cs == nil || subj != tparam.Name() {
			continue
		}
		for _, in := range b.Instrs {
			for _, cv := range cs {
				ci := cases[cv]
				if ci == nil {
					ci = &caseInfo{}
					cases[cv] = ci
				}
				switch x := in.(type) {
				case *ssa.Store:
					if cvt, ok := x.Addr.(*ssa.Convert); ok && cvt.X == pparam {
						ci.store = x
					}
				case *ssa.Return:
					ci.ret = x
				}
			}
		}
		// a case body that falls out of the switch: the return shared by the cases
		for _, cv := range cs {
			if ci := cases[cv]; ci != nil && ci.ret == nil {
				cur := b
				for steps := 0; steps < 4 && ci.ret == nil; steps++ {
					switch x := cur.Instrs[len(cur.Instrs)-1].(type) {
					case *ssa.Return:
						ci.ret = x
					case *ssa.Jump:
						cur = cur.Succs[0]
					default:
						steps = 4
					}
				}
			}
		}
	}
	keys := map[int64]bool{}
	for kk, v := range sizes {
		if n, _ := constIntVal(v); n != 0 {
			keys[kk] = true
		}
	}
	for kk := range cases {
		keys[kk] = true
	}
	var ks []int64
	for kk := range keys {
		ks = append(ks, kk)
	}
	sort.Slice(ks, func(i, j int) bool { return ks[i] < ks[j] })
	for _, kk := range ks {
		kn := k.nameOf(kk)
		key := "case " + kn
		ci := cases[kk]
		w, inTable := sizes[kk]
		wv, _ := constIntVal(w)
		if ci == nil {
			s.bad(key, c.Pos(fn.Pos()), "typeToSize gives "+kn+" a fixed size but the reader switch has no case for it (falls into the panic)")
			continue
		}
		if !inTable || wv == 0 {
			s.bad(key, c.Pos(fn.Pos()), "reader case for "+kn+" which typeToSize does not list as fixed-size")
			continue
		}
		ksp, okk := kindSpecs[kn]
		if !okk || ksp.wire <= 0 {
			s.bad(key, c.Pos(fn.Pos()), "reader case for a kind without fixed wire width")
			continue
		}
		var ps []string
		if ci.store == nil || ci.ret == nil {
			s.undec(key, c.Pos(fn.Pos()), "case body is not `*(*T)(p) = ...; return n, nil`")
			continue
		}
		// store type size
		st := ci.store.Addr.Type().Underlying().(*types.Pointer).Elem()
		if got, want := c.Sizes.Sizeof(st), c.repSize(ksp.reps[0]); got != want {
			ps = append(ps, fmt.Sprintf("kind %s is %d bytes in memory, store writes %d (%s)", kn, want, got, st))
		}
		// value: conversions over BigEndian.UintN(b) or b[0]
		v := ci.store.Val
		var convs []types.Type
		for {
			if cv, ok := v.(*ssa.Convert); ok {
				convs = append(convs, cv.Type())
				v = cv.X
				continue
			}
			break
		}
		read := int64(0)
		switch x := v.(type) {
		case *ssa.Call:
			if f := x.Call.StaticCallee(); f != nil && fnPkgPath(f) == "encoding/binary" && strings.HasPrefix(f.Name(), "Uint") &&
				strings.Contains(f.String(), "bigEndian") && x.Call.Args[len(x.Call.Args)-1] == bparam {
				read = map[string]int64{"Uint16": 2, "Uint32": 4, "Uint64": 8}[f.Name()]
			}
		case *ssa.UnOp:
			if ia, ok := x.X.(*ssa.IndexAddr); ok && x.Op == token.MUL && ia.X == bparam {
				if i, ok := constInt(ia.Index); ok && i == 0 {
					read = 1
				}
			}
		}
		if read == 0 {
			ps = append(ps, "value is not read big-endian from the start of b")
		} else if read != int64(ksp.wire) {
			ps = append(ps, fmt.Sprintf("kind %s is %d bytes on the wire, %d read", kn, ksp.wire, read))
		}
		if kn == "ENUM" {
			// innermost conversion must be to a signed 32-bit type, then widening to signed 64
			okSign := false
			if len(convs) >= 2 {
				inner := convs[len(convs)-1]
				if isInt(inner) && !isUnsigned(inner) && c.Sizes.Sizeof(inner) == 4 {
					okSign = true
				}
			}
			if !okSign {
				ps = append(ps, "ENUM must be sign-extended: int64(int32(Uint32(b)))")
			}
		} else {
			for _, t := range convs {
				if isInt(t) && c.Sizes.Sizeof(t) != int64(ksp.wire) {
					ps = append(ps, fmt.Sprintf("value passes through a %d-byte conversion", c.Sizes.Sizeof(t)))
				}
			}
		}
		// return count
		retN, retOK := constInt(ci.ret.Results[0])
		if !retOK {
			// the count read from the size table for this very kind
			if u, ok := stripConv(ci.ret.Results[0]).(*ssa.UnOp); ok && u.Op == token.MUL {
				if ia, ok := u.X.(*ssa.IndexAddr); ok && strings.HasSuffix(path(ia.X), "typeToSize") && ia.Index == ssa.Value(tparam) {
					retN, retOK = wv, true
				}
			}
		}
		if n, ok := retN, retOK; !ok || n != int64(ksp.wire) {
			ps = append(ps, fmt.Sprintf("returns %v consumed bytes, wire width is %d", ci.ret.Results[0], ksp.wire))
		}
		if len(ci.ret.Results) > 1 && !isNilConst(ci.ret.Results[1]) {
			ps = append(ps, "case returns a non-nil error")
		}
		s.check(len(ps) == 0, key, c.InstrPos(ci.store), fmt.Sprintf("%s: %d wire bytes read big-endian into a %d-byte store", kn, ksp.wire, c.Sizes.Sizeof(st)), strings.Join(ps, "; "))
	}
	// default panics
	hasPanic := false
	for _, b := range fn.Blocks {
		if _, ok := b.Instrs[len(b.Instrs)-1].(*ssa.Panic); ok {
			hasPanic = true
		}
	}
	s.check(hasPanic, "default", c.Pos(fn.Pos()), "unknown kind panics (unreachable: callers test FixedSize > 0, rule panic inventory)", "no panic for unknown kinds: a wrong descriptor would be silently mis-decoded")
	return s.obs
}

func constIntVal(v interface{ ExactString() string }) (int64, bool) {
	var n int64
	_, err := fmt.Sscan(v.ExactString(), &n)
	if err != nil {
		if v.ExactString() == "true" {
			return 1, true
		}
		if v.ExactString() == "false" {
			return 0, true
		}
		return 0, false
	}
	return n, true
}

func ruleT9(c *Ctx) []Ob {
	s := newSink(c, "T9.wire-type-bytes")
	sp := c.SSA[pkgReflect]
	// (1) every ttype->byte conversion flowing into an emission is WT or constant
	for _, fn := range c.ModuleFuncs(pkgReflect) {
		if bufParam(fn) == nil {
			continue
		}
		ei := analyseEmits(fn)
		for _, e := range ei.events {
			if e.Kind != "bytes" {
				continue
			}
			for i, src := range e.Srcs {
				tx, ok := typeByteSrc(src)
				if !ok {
					continue
				}
				key := fmt.Sprintf("%s:type-byte[%d]", shortFn(fn), i)
				if _, isC := tx.(*ssa.Const); isC {
					s.ok(key, c.InstrPos(e.Instr), "constant type code")
					continue
				}
				_, _, f, isField := fieldOf(tx)
				if !isField && wtParam(c, tx) {
					s.ok(key, c.InstrPos(e.Instr), "type byte is a parameter that every caller fills with a WT field")
					continue
				}
				s.check(isField && f == "WT", key, c.InstrPos(e.Instr), "type byte is "+path(tx), "type byte is taken from "+path(tx)+": the wire type WT must be used (ENUM travels as I32, binary as STRING)")
			}
		}
	}
	// (2) field header in appendStruct
	if fn := sp.Func("appendStruct"); fn != nil {
		ei := analyseEmits(fn)
		var hdr *Emit
		var stops []*Emit
		var unk *Emit
		for _, e := range ei.events {
			switch {
			case e.Kind == "bytes" && e.N == 3:
				if hdr != nil {
					s.bad("appendStruct:field-header", c.InstrPos(e.Instr), "more than one 3-byte emission")
				}
				hdr = e
			case e.Kind == "bytes" && e.N == 1:
				if cs, _ := caseSet(e.Instr.Block(), ".T"); cs == nil {
					stops = append(stops, e)
				}
			case e.Kind == "payload":
				if cs, _ := caseSet(e.Instr.Block(), ".T"); cs == nil {
					unk = e
				}
			}
		}
		if hdr == nil {
			s.bad("appendStruct:field-header", c.Pos(fn.Pos()), "no 3-byte field header emission")
		} else {
			x1, k1, ok1 := shiftOf(hdr.Srcs[1])
			x2, k2, ok2 := shiftOf(hdr.Srcs[2])
			tb, isConv := typeByteSrc(hdr.Srcs[0])
			good := ok1 && ok2 && isConv && k1 == 8 && k2 == 0 && path(x1) == path(x2) && strings.HasSuffix(path(x1), ".ID") &&
				strings.HasSuffix(path(tb), ".Type.WT") && strings.TrimSuffix(path(tb), ".Type.WT") == strings.TrimSuffix(path(x1), ".ID")
			why := ""
			if !good {
				why = fmt.Sprintf("field header is [%s, %s, %s], expected [f.Type.WT, f.ID>>8, f.ID] of the same field", path(hdr.Srcs[0]), path(hdr.Srcs[1]), path(hdr.Srcs[2]))
			}
			s.check(good, "appendStruct:field-header", c.InstrPos(hdr.Instr), "[f.Type.WT, f.ID>>8, f.ID]", why)
		}
		// STOP at every success return
		for _, b := range fn.Blocks {
			ret, ok := b.Instrs[len(b.Instrs)-1].(*ssa.Return)
			if !ok {
				continue
			}
			if len(ret.Results) == 2 && !isNilConst(ret.Results[1]) {
				continue // error return
			}
			e := ei.byOut[ret.Results[0]]
			isStop := false
			if e != nil && e.Kind == "bytes" && e.N == 1 {
				if cv, ok := e.Srcs[0].(*ssa.Const); ok {
					if n, ok := constInt(cv); ok && n == thriftCode["STOP"] {
						isStop = true
					}
				}
			}
			s.check(isStop, "appendStruct:stop", c.InstrPos(ret), "success return ends with STOP", "success return whose last emission is not the STOP byte")
		}
		// unknown fields: payload from base+sd.unknownFieldsOffset under hasUnknownFields, after the loop, before STOP
		if unk == nil {
			s.bad("appendStruct:unknown-fields", c.Pos(fn.Pos()), "retained unknown-field bytes are not appended")
		} else {
			ld := loadOf(unk.Srcs[0])
			good := ld != nil && isByteSlice(ld.T)
			if good {
				offs := ptrAddOffsetsField(ld.Ptr, "unknownFieldsOffset")
				good = len(offs) == 1
			}
			under := false
			for _, cd := range domConds(unk.Instr.Block()) {
				if _, _, f, ok := fieldOf(cd.V); ok && f == "hasUnknownFields" && cd.Truth {
					under = true
				}
			}
			before := hdr != nil && !blockReaches(unk.Instr.Block(), hdr.Instr.Block())
			s.check(good && under && before, "appendStruct:unknown-fields", c.InstrPos(unk.Instr), "holder bytes appended after the field loop, before STOP, under hasUnknownFields",
				fmt.Sprintf("unknown-field append: from holder=%v underFlag=%v afterLoop=%v", good, under, before))
		}
		_ = stops
	} else {
		s.bad("appendStruct", "-", "not found")
	}
	// (3) list header: every 5-byte emission is [t.WT, count big-endian]; the count is 0 exactly where the slice's first word
	// is nil and uint32(len) elsewhere (two returns, or one return with the count merged by a phi)
	if fn := sp.Func("appendListHeader"); fn != nil {
		ei := analyseEmits(fn)
		n, sawLive := 0, false
		for _, e := range ei.events {
			if e.Kind != "bytes" || e.N != 5 {
				continue
			}
			n++
			good, why, live, _ := listHeaderEvent(e, fn.Params[0].Name(), fn.Params[2])
			sawLive = sawLive || live
			s.check(good, "appendListHeader:header", c.InstrPos(e.Instr), "[t.WT, count big-endian]; count = 0 for nil, uint32(len) otherwise", "list header: "+why)
		}
		if n == 0 || !sawLive {
			s.bad("appendListHeader", c.Pos(fn.Pos()), "no five-byte list header carrying the live length")
		}
	} else {
		s.bad("appendListHeader", "-", "not found")
	}
	// (4) map header
	if fn := sp.Func("appendMapHeader"); fn != nil {
		ei := analyseEmits(fn)
		n := 0
		for _, e := range ei.events {
			if e.Kind != "bytes" || e.N != 6 {
				continue
			}
			n++
			good, _ := mapHeaderEvent(e, fn.Params[0].Name())
			s.check(good, "appendMapHeader", c.InstrPos(e.Instr), "[t.K.WT, t.V.WT, n>>24, n>>16, n>>8, n], n = maplen or 0 for nil", "map header is not [K.WT, V.WT, big-endian live count]")
		}
		if n != 1 {
			s.bad("appendMapHeader", c.Pos(fn.Pos()), fmt.Sprintf("expected one six-byte header emission, found %d", n))
		}
	} else {
		s.bad("appendMapHeader", "-", "not found")
	}
	// (5) the same headers written out in a list / map routine instead of through the helpers
	regs, _ := c.registrations()
	routines := map[*ssa.Function]bool{}
	for _, r := range regs {
		routines[r.fn] = true
	}
	for _, g := range []string{"appendMapAnyAny", "appendListAny"} {
		if f := sp.Func(g); f != nil {
			routines[f] = true
		}
	}
	var rfns []*ssa.Function
	for f := range routines {
		rfns = append(rfns, f)
	}
	sort.Slice(rfns, func(i, j int) bool { return rfns[i].Name() < rfns[j].Name() })
	for _, f := range rfns {
		if len(f.Params) != 3 || f.Blocks == nil {
			continue
		}
		ei := analyseEmits(f)
		for _, e := range ei.events {
			if e.Kind != "bytes" || len(e.Srcs) == 0 {
				continue
			}
			if _, isType := typeByteSrc(e.Srcs[0]); !isType {
				continue
			}
			switch e.N {
			case 5:
				good, why, _, _ := listHeaderEvent(e, f.Params[0].Name()+".V", f.Params[2])
				s.check(good, f.Name()+":inline-list-header", c.InstrPos(e.Instr), "[t.V.WT, count big-endian]; count = 0 for nil, uint32(len) otherwise", "list header written out in the routine: "+why)
			case 6:
				good, _ := mapHeaderEvent(e, f.Params[0].Name())
				s.check(good, f.Name()+":inline-map-header", c.InstrPos(e.Instr), "[t.K.WT, t.V.WT, n>>24, n>>16, n>>8, n], n = maplen or 0 for nil", "map header written out in the routine is not [K.WT, V.WT, big-endian live count]")
			}
		}
	}
	return s.obs
}

// wtParam: v is a parameter of type ttype of a module function all of whose callers pass the WT field of a descriptor (the
// helper was given the wire type instead of the descriptor).
func wtParam(c *Ctx, v ssa.Value) bool {
	prm, ok := v.(*ssa.Parameter)
	if !ok || c == nil || namedOf(prm.Type()) != "ttype" {
		return false
	}
	fn := prm.Parent()
	idx := -1
	for i, q := range fn.Params {
		if q == prm {
			idx = i
		}
	}
	if idx < 0 {
		return false
	}
	if c.addrTaken()[fn] {
		return false
	}
	n := 0
	for _, g := range c.ModuleFuncs(fnPkgPath(fn)) {
		for _, b := range g.Blocks {
			for _, ins := range b.Instrs {
				ci, ok := ins.(ssa.CallInstruction)
				if !ok || ci.Common().StaticCallee() != fn || idx >= len(ci.Common().Args) {
					continue
				}
				n++
				if _, _, f, isField := fieldOf(ci.Common().Args[idx]); !isField || f != "WT" {
					return false
				}
			}
		}
	}
	return n > 0
}

// listHeaderEvent checks one five-byte emission as a list header: [desc.WT, count big-endian] where the count is 0 exactly
// where the slice's first word is nil and uint32(len) elsewhere. It returns the count value of a live header.
func listHeaderEvent(e *Emit, descPath string, pparam ssa.Value) (good bool, why string, live bool, count ssa.Value) {
	firstWordNil := func(b *ssa.BasicBlock, wantNil bool) bool { // dominated by (first word of *p) ==/!= nil
		for _, cd := range domConds(b) {
			bo, ok := cd.V.(*ssa.BinOp)
			if !ok || !(isNilConst(bo.X) || isNilConst(bo.Y)) {
				continue
			}
			x := bo.X
			if isNilConst(bo.X) {
				x = bo.Y
			}
			ld := loadOf(x)
			isFirst := false
			if ld != nil && isUnsafePointer(ld.T) && ld.Ptr == pparam {
				isFirst = true // *(*unsafe.Pointer)(p)
			}
			if _, typ, f, ok := fieldOf(x); ok && typ == "sliceHeader" && f == "Data" {
				isFirst = true // (*sliceHeader)(p).Data
			}
			if !isFirst {
				continue
			}
			isNil := bo.Op == token.EQL && cd.Truth || bo.Op == token.NEQ && !cd.Truth
			if isNil == wantNil {
				return true
			}
		}
		return false
	}
	isLen := func(v ssa.Value) bool {
		cv, ok := v.(*ssa.Convert)
		return ok && strings.HasSuffix(path(cv.X), ".Len") && namedOf(fieldRecvType(cv.X)) == "sliceHeader"
	}
	tb, isConv := typeByteSrc(e.Srcs[0])
	good = isConv && (path(tb) == descPath+".WT" || wtParam(tableCtx, tb))
	why = "type byte is not " + descPath + ".WT"
	allZero := true
	for _, sv := range e.Srcs[1:] {
		if z, ok := constInt(sv); !ok || z != 0 {
			allZero = false
		}
	}
	if allZero {
		if !firstWordNil(e.Instr.Block(), true) {
			good, why = false, "a zero count is written where the slice is not known to be nil"
		}
		return
	}
	var base ssa.Value
	for i, sv := range e.Srcs[1:] {
		x, kk, ok := shiftOf(sv)
		if !ok || kk != int64(8*(3-i)) || (base != nil && x != base) {
			good, why = false, "count bytes are not n>>24, n>>16, n>>8, n of one value"
			return
		}
		base = x
	}
	count = base
	if !good {
		return
	}
	switch b0 := base.(type) {
	case *ssa.Phi:
		for k, ed := range b0.Edges {
			pred := b0.Block().Preds[k]
			if z, ok := constInt(ed); ok && z == 0 {
				// zero only on the nil path
				if !firstWordNil(pred, true) && !predOnNilEdge(pred, b0.Block(), firstWordNil) {
					good, why = false, "count 0 reaches the header on a path where the slice is not nil"
				}
			} else if isLen(ed) {
				live = true
				if in, ok := ed.(ssa.Instruction); ok && !firstWordNil(in.Block(), false) {
					good, why = false, "length is read without testing the slice for nil"
				}
			} else {
				good, why = false, "count is neither 0 nor uint32(len)"
			}
		}
	default:
		if isLen(base) {
			live = true
		} else {
			good, why = false, "count is not uint32(len) of the slice"
		}
	}
	return
}

// mapHeaderEvent checks one six-byte emission as a map header: [t.K.WT, t.V.WT, n big-endian] with n = phi(0, uint32(maplen)).
func mapHeaderEvent(e *Emit, t string) (good bool, count ssa.Value) {
	k0, ok0 := typeByteSrc(e.Srcs[0])
	v0, ok1 := typeByteSrc(e.Srcs[1])
	good = ok0 && ok1 && path(k0) == t+".K.WT" && path(v0) == t+".V.WT"
	var base ssa.Value
	for i, sv := range e.Srcs[2:] {
		x, kk, ok := shiftOf(sv)
		if !ok || kk != int64(8*(3-i)) || (base != nil && x != base) {
			return false, nil
		}
		base = x
	}
	count = base
	if !good {
		return
	}
	okN := false
	if ph, ok := base.(*ssa.Phi); ok {
		z, m := false, false
		for _, ed := range ph.Edges {
			if v, ok := constInt(ed); ok && v == 0 {
				z = true
			}
			if cv, ok := ed.(*ssa.Convert); ok {
				if call, ok := cv.X.(*ssa.Call); ok {
					if f := call.Call.StaticCallee(); f != nil && f.Name() == "maplen" {
						m = true
					}
				}
			}
		}
		okN = z && m
	}
	return okN, count
}

// typeByteSrc matches byte(x) where x has the named type ttype and returns x.
func typeByteSrc(v ssa.Value) (ssa.Value, bool) {
	switch x := v.(type) {
	case *ssa.ChangeType:
		if namedOf(x.X.Type()) == "ttype" {
			return x.X, true
		}
	case *ssa.Convert:
		if namedOf(x.X.Type()) == "ttype" {
			return x.X, true
		}
	case *ssa.Const:
		if namedOf(x.Type()) == "ttype" {
			return x, true
		}
	}
	return nil, false
}

func fieldRecvType(v ssa.Value) types.Type {
	recv, _, _, ok := fieldOf(v)
	if !ok {
		return types.Typ[types.Invalid]
	}
	return recv.Type()
}

// ptrAddOffsetsField returns receivers Y such that v derives from unsafe.Add(_, Y.<field>).
func ptrAddOffsetsField(v ssa.Value, field string) []string {
	var out []string
	seen := map[ssa.Value]bool{}
	var walk func(v ssa.Value)
	walk = func(v ssa.Value) {
		if seen[v] {
			return
		}
		seen[v] = true
		switch x := v.(type) {
		case *ssa.Phi:
			for _, e := range x.Edges {
				walk(e)
			}
		case *ssa.Convert:
			walk(x.X)
		case *ssa.Call:
			if isBuiltin(x, "Add") {
				off := x.Call.Args[1]
				for {
					if cv, ok := off.(*ssa.Convert); ok {
						off = cv.X
						continue
					}
					break
				}
				if recv, _, f, ok := fieldOf(off); ok && f == field {
					out = append(out, path(recv))
				}
			}
		}
	}
	walk(v)
	return out
}

func ruleEqualLens(c *Ctx) []Ob {
	s := newSink(c, "T8.equal-lens")
	k, err := c.kinds()
	if err != nil {
		s.undec("kinds", "-", err.Error())
		return s.obs
	}
	fn := c.Func(pkgReflect, "(*tType).Equal")
	if fn == nil {
		s.bad("Equal", "-", "(*tType).Equal not found")
		return s.obs
	}
	simple, _, okT := c.tableOf(pkgReflect, "simpleTypes")
	if !okT {
		s.undec("simpleTypes", "-", "table not evaluable")
		return s.obs
	}
	p0, p1 := fn.Params[1], fn.Params[2]
	type cmp struct {
		bo *ssa.BinOp
	}
	cases := map[int64]*ssa.BinOp{}
	for _, b := range fn.Blocks {
		cs, subj := caseSet(b, ".T")
		if cs == nil || subj != fn.Params[0].Name()+".T" {
			continue
		}
		for _, in := range b.Instrs {
			if bo, ok := in.(*ssa.BinOp); ok && bo.Op == token.EQL {
				for _, cv := range cs {
					cases[cv] = bo
				}
			}
		}
	}
	keys := map[int64]bool{}
	for kk := range simple {
		keys[kk] = true
	}
	for kk := range cases {
		keys[kk] = true
	}
	var ks []int64
	for kk := range keys {
		ks = append(ks, kk)
	}
	sort.Slice(ks, func(i, j int) bool { return ks[i] < ks[j] })
	for _, kk := range ks {
		kn := k.nameOf(kk)
		key := "case " + kn
		bo := cases[kk]
		_, inTable := simple[kk]
		if bo == nil {
			s.bad(key, c.Pos(fn.Pos()), "no comparison for scalar kind "+kn+": an optional field of this kind equal to its default would never be omitted, or (falling to `return false`) always written")
			continue
		}
		if !inTable {
			s.bad(key, c.InstrPos(bo), "comparison for non-scalar kind "+kn)
			continue
		}
		l0, l1 := loadOf(bo.X), loadOf(bo.Y)
		var ps []string
		if l0 == nil || l1 == nil || len(l0.Convs) > 0 || len(l1.Convs) > 0 || !((l0.Ptr == p0 && l1.Ptr == p1) || (l0.Ptr == p1 && l1.Ptr == p0)) {
			ps = append(ps, "operands are not plain loads of the two argument pointers")
		} else {
			ksp := kindSpecs[kn]
			if !types.Identical(l0.T, l1.T) {
				ps = append(ps, "operands loaded with different types")
			}
			want := c.repSize(ksp.reps[0])
			if got := c.Sizes.Sizeof(l0.T); got != want {
				ps = append(ps, fmt.Sprintf("kind %s is %d bytes in memory, compared through a %d-byte load (%s)", kn, want, got, l0.T))
			}
			b, _ := l0.T.Underlying().(*types.Basic)
			switch {
			case b == nil:
				ps = append(ps, "compared through a non-basic type")
			case kn == "DOUBLE" && b.Info()&types.IsFloat == 0:
				ps = append(ps, "DOUBLE must be compared as float64 (IEEE equality: -0.0 == 0.0, NaN != NaN), not as a bit pattern")
			case kn == "STRING" && b.Kind() != types.String:
				ps = append(ps, "STRING must be compared as string")
			case kn != "DOUBLE" && kn != "STRING" && b.Info()&(types.IsInteger|types.IsBoolean) == 0:
				ps = append(ps, "integer kind compared through "+l0.T.String())
			}
		}
		s.check(len(ps) == 0, key, c.InstrPos(bo), kn+" compared with its own Go type", strings.Join(ps, "; "))
	}
	// fallthrough returns false
	okFalse := false
	for _, b := range fn.Blocks {
		if ret, ok := b.Instrs[len(b.Instrs)-1].(*ssa.Return); ok {
			if cv, ok := ret.Results[0].(*ssa.Const); ok && cv.Value != nil && cv.Value.ExactString() == "false" {
				okFalse = true
			}
		}
	}
	s.check(okFalse, "default", c.Pos(fn.Pos()), "other kinds compare unequal (field is written)", "no `return false` for other kinds")
	// the answer is the comparison itself: no path answers "equal" without having compared the two values with the kind's type
	for _, b := range fn.Blocks {
		ret, ok := b.Instrs[len(b.Instrs)-1].(*ssa.Return)
		if !ok || len(ret.Results) != 1 {
			continue
		}
		okRet := false
		switch x := ret.Results[0].(type) {
		case *ssa.Const:
			okRet = x.Value != nil && x.Value.ExactString() == "false"
		case *ssa.BinOp:
			for _, cb := range cases {
				if cb == x {
					okRet = true
				}
			}
		}
		s.check(okRet, "answer", c.InstrPos(ret), "returns the typed comparison (or false)", "Equal returns "+path(ret.Results[0])+" here, which is not the kind's typed comparison of the two values: a short cut (same data pointer, same first word, ...) can call two different values equal, and a field that differs from its default would then be omitted")
	}
	return s.obs
}

// predOnNilEdge: the edge pred->blk is itself the nil edge of a first-word test at the end of pred.
func predOnNilEdge(pred, blk *ssa.BasicBlock, firstWordNil func(*ssa.BasicBlock, bool) bool) bool {
	iff, ok := pred.Instrs[len(pred.Instrs)-1].(*ssa.If)
	if !ok {
		return false
	}
	bo, ok := iff.Cond.(*ssa.BinOp)
	if !ok || !(isNilConst(bo.X) || isNilConst(bo.Y)) {
		return false
	}
	// which successor index is blk
	for k, sc := range pred.Succs {
		if sc != blk {
			continue
		}
		isNil := bo.Op == token.EQL && k == 0 || bo.Op == token.NEQ && k == 1
		if isNil {
			x := bo.X
			if isNilConst(bo.X) {
				x = bo.Y
			}
			if ld := loadOf(x); ld != nil && isUnsafePointer(ld.T) {
				return true
			}
			if _, typ, f, ok := fieldOf(x); ok && typ == "sliceHeader" && f == "Data" {
				return true
			}
		}
	}
	return false
}
