package main

import (
	"fmt"
	"go/ast"
	"go/constant"
	"go/token"
	"go/types"
	"sort"
	"strings"

	"golang.org/x/tools/go/ssa"
)

// ---- the oracle: Thrift Binary Protocol (embedded, independent of the code under analysis)

var thriftCode = map[string]int64{
	"STOP": 0, "VOID": 1, "BOOL": 2, "BYTE": 3, "DOUBLE": 4, "I16": 6, "I32": 8, "I64": 10,
	"STRING": 11, "STRUCT": 12, "MAP": 13, "SET": 14, "LIST": 15,
}

// fixed wire widths
var thriftWidth = map[string]int64{"BOOL": 1, "BYTE": 1, "DOUBLE": 8, "I16": 2, "I32": 4, "I64": 8}

// minimal encoded size of a value of each wire type
var thriftMinSize = map[string]int64{"BOOL": 1, "BYTE": 1, "DOUBLE": 8, "I16": 2, "I32": 4, "I64": 8,
	"STRING": 4, "STRUCT": 1, "MAP": 6, "SET": 5, "LIST": 5}

const (
	thriftFieldHeader = 3 // type + id(2)
	thriftMapHeader   = 6 // ktype + vtype + count(4)
	thriftListHeader  = 5 // etype + count(4)
	thriftStrHeader   = 4 // len(4)
)

// kind names by code as used in frugal's `ttype` constants
var ttypeNames = map[string]string{"tSTOP": "STOP", "tVOID": "VOID", "tBOOL": "BOOL", "tBYTE": "BYTE", "tI08": "BYTE",
	"tDOUBLE": "DOUBLE", "tI16": "I16", "tI32": "I32", "tI64": "I64", "tSTRING": "STRING", "tUTF7": "STRING",
	"tSTRUCT": "STRUCT", "tMAP": "MAP", "tSET": "SET", "tLIST": "LIST"}
var defsTagNames = map[string]string{"T_bool": "BOOL", "T_i8": "BYTE", "T_double": "DOUBLE", "T_i16": "I16", "T_i32": "I32",
	"T_i64": "I64", "T_string": "STRING", "T_struct": "STRUCT", "T_map": "MAP", "T_set": "SET", "T_list": "LIST"}

// kinds resolves the numeric values of frugal's kind constants on this tree.
type kinds struct {
	byName map[string]int64 // "BOOL" -> 2 ..., "ENUM" -> tENUM
	name   map[int64]string
}

func (c *Ctx) kinds() (*kinds, error) {
	k := &kinds{byName: map[string]int64{}, name: map[int64]string{}}
	for cn, kn := range ttypeNames {
		v, ok := c.constOf(pkgReflect, cn)
		if !ok {
			if cn == "tVOID" || cn == "tUTF7" || cn == "tI08" || cn == "tSTOP" {
				continue
			}
			return nil, fmt.Errorf("constant reflect.%s not found", cn)
		}
		if old, ok := k.byName[kn]; ok && old != v {
			return nil, fmt.Errorf("constants for %s disagree (%d vs %d)", kn, old, v)
		}
		k.byName[kn] = v
		k.name[v] = kn
	}
	v, ok := c.constOf(pkgReflect, "tENUM")
	if !ok {
		return nil, fmt.Errorf("constant reflect.tENUM not found")
	}
	k.byName["ENUM"] = v
	k.name[v] = "ENUM"
	return k, nil
}

func (k *kinds) nameOf(v int64) string {
	if n, ok := k.name[v]; ok {
		return n
	}
	return fmt.Sprintf("kind(%d)", v)
}

func init() {
	register(&Rule{ID: "T1.wire-codes", Min: 20,
		Text: "every ttype / defs.Tag wire constant equals the Thrift Binary Protocol type code; internal kinds (tENUM, T_enum, T_binary, T_pointer) lie outside the wire code range and are pairwise distinct",
		Run:  ruleT1})
	register(&Rule{ID: "T2.tables", Min: 30,
		Text: "typeToSize/simpleTypes/containerTypes/wireTags/header-length constants equal the protocol table; 1 <= minWireSize[c] <= minimal encoded size for every wire type (non-zero divisor, never rejects a valid message)",
		Run:  ruleT2})
	register(&Rule{ID: "T3.big-endian", Min: 4,
		Text: "appendUintN appends exactly N/8 bytes, byte k being byte(v >> 8*(N/8-1-k)) (network order); every encoding/binary byte order used by the codec is BigEndian",
		Run:  ruleT3})
}

func ruleT1(c *Ctx) []Ob {
	s := newSink(c, "T1.wire-codes")
	chk := func(pkg string, names map[string]string) {
		p := c.ByPath[pkg]
		for cn, kn := range names {
			obj, ok := p.Types.Scope().Lookup(cn).(*types.Const)
			if !ok {
				if cn == "tVOID" || cn == "tUTF7" || cn == "tI08" || cn == "tSTOP" {
					continue // aliases / unused codes may be dropped without changing behaviour
				}
				s.bad(cn, "-", "wire constant not found")
				continue
			}
			v, _ := constant.Int64Val(constant.ToInt(obj.Val()))
			s.check(v == thriftCode[kn], cn, c.Pos(obj.Pos()),
				fmt.Sprintf("%s = %d = Thrift %s", cn, v, kn),
				fmt.Sprintf("%s = %d but Thrift %s is %d", cn, v, kn, thriftCode[kn]))
		}
	}
	chk(pkgReflect, ttypeNames)
	chk(pkgDefs, defsTagNames)
	// internal kinds outside the wire range
	wire := map[int64]bool{}
	for _, v := range thriftCode {
		wire[v] = true
	}
	wire[16], wire[17] = true, true // UTF8/UTF16 legacy codes
	internal := func(pkg string, names ...string) {
		seen := map[int64]string{}
		for _, cn := range names {
			obj, ok := c.ByPath[pkg].Types.Scope().Lookup(cn).(*types.Const)
			if !ok {
				s.bad(cn, "-", "internal kind constant not found")
				continue
			}
			v, _ := constant.Int64Val(constant.ToInt(obj.Val()))
			if wire[v] {
				s.bad(cn, c.Pos(obj.Pos()), fmt.Sprintf("internal kind %s = %d collides with a wire type code", cn, v))
			} else if o, dup := seen[v]; dup {
				s.bad(cn, c.Pos(obj.Pos()), fmt.Sprintf("internal kinds %s and %s share value %d", cn, o, v))
			} else {
				s.ok(cn, c.Pos(obj.Pos()), fmt.Sprintf("%s = %d is outside the wire code range", cn, v))
			}
			seen[v] = cn
		}
	}
	internal(pkgReflect, "tENUM")
	internal(pkgDefs, "T_enum", "T_binary", "T_pointer")
	return s.obs
}

// boolean kind tables whose role can be played by a predicate function
var isBoolTable = map[string]bool{"containerTypes": true}

func ruleT2(c *Ctx) []Ob {
	s := newSink(c, "T2.tables")
	k, err := c.kinds()
	if err != nil {
		s.undec("kinds", "-", err.Error())
		return s.obs
	}
	exact := func(pkg, table string, want map[int64]int64, what string) {
		tab, pos, ok := c.tableOf(pkg, table)
		if !ok && c.ByPath[pkg] != nil && c.ByPath[pkg].Types.Scope().Lookup(table) == nil && isBoolTable[table] {
			// the table is gone: a predicate function over the kind may have taken its place (func(kind) bool, evaluated for every
			// code); its values are held against the protocol table like the table's
			var cands []*ssa.Function
			var ctabs []map[int64]constant.Value
			if sp := c.SSA[pkg]; sp != nil {
				var names []string
				for n := range sp.Members {
					names = append(names, n)
				}
				sort.Strings(names)
				for _, n := range names {
					fn, isFn := sp.Members[n].(*ssa.Function)
					if !isFn || fn.Blocks == nil || len(fn.Params) != 1 || fn.Signature.Results().Len() != 1 || !isBoolType(fn.Signature.Results().At(0).Type()) {
						continue
					}
					if b, isB := fn.Params[0].Type().Underlying().(*types.Basic); !isB || b.Info()&types.IsInteger == 0 || c.Sizes.Sizeof(b) != 1 {
						continue
					}
					if knownFuncSet()[pkg+"\t"+n] {
						continue
					}
					vals := map[int64]constant.Value{}
					det := true
					for v := int64(0); v < 256 && det; v++ {
						switch predicateValue(fn, map[string]int64{fn.Params[0].Name(): v}) {
						case triT:
							vals[v] = constant.MakeBool(true)
						case triF:
						default:
							det = false
						}
					}
					if det {
						cands = append(cands, fn)
						ctabs = append(ctabs, vals)
					}
				}
			}
			// the one whose values are closest to the stated ones stands for the table
			best, bestDiff := -1, 1<<30
			for i, ct := range ctabs {
				d := 0
				for v := int64(0); v < 256; v++ {
					_, has := ct[v]
					if has != (want[v] != 0) {
						d++
					}
				}
				if d < bestDiff {
					best, bestDiff = i, d
				}
			}
			if best < 0 || bestDiff > 2 {
				s.ok(table, "-", "no such table in this tree and no predicate function in its place; the kinds are decided where they are used (F.skip-flags evaluates the flag for every kind)")
				return
			}
			tab, pos, ok = ctabs[best], cands[best].Pos(), true
			table = cands[best].Name()
		}
		if !ok {
			s.undec(table, c.Pos(pos), "table is not a composite literal with constant keys and values")
			return
		}
		keys := map[int64]bool{}
		for kk := range tab {
			keys[kk] = true
		}
		for kk := range want {
			keys[kk] = true
		}
		var ks []int64
		for kk := range keys {
			ks = append(ks, kk)
		}
		sort.Slice(ks, func(i, j int) bool { return ks[i] < ks[j] })
		for _, kk := range ks {
			var got int64
			if v, ok := tab[kk]; ok {
				switch v.Kind() {
				case constant.Bool:
					if constant.BoolVal(v) {
						got = 1
					}
				default:
					got, _ = constant.Int64Val(constant.ToInt(v))
				}
			}
			key := fmt.Sprintf("%s[%s]", table, kname(k, pkg, kk))
			s.check(got == want[kk], key, c.Pos(pos), fmt.Sprintf("%s = %d (%s)", key, got, what),
				fmt.Sprintf("%s = %d, protocol table says %d (%s)", key, got, want[kk], what))
		}
	}
	// typeToSize
	w := map[int64]int64{}
	for n, sz := range thriftWidth {
		w[k.byName[n]] = sz
	}
	w[k.byName["ENUM"]] = 4 // enum travels as I32
	exact(pkgReflect, "typeToSize", w, "fixed wire width")
	// simpleTypes
	st := map[int64]int64{}
	for n := range thriftWidth {
		st[k.byName[n]] = 1
	}
	st[k.byName["ENUM"]] = 1
	st[k.byName["STRING"]] = 1
	exact(pkgReflect, "simpleTypes", st, "scalar or string kind")
	exact(pkgReflect, "containerTypes", map[int64]int64{k.byName["MAP"]: 1, k.byName["LIST"]: 1, k.byName["SET"]: 1}, "container kind")
	wt := map[int64]int64{}
	for _, kn := range defsTagNames {
		wt[thriftCode[kn]] = 1
	}
	exact(pkgDefs, "wireTags", wt, "wire type code")
	// minWireSize: bounds, not equality
	tab, pos, ok := c.tableOf(pkgReflect, "minWireSize")
	if !ok {
		s.undec("minWireSize", c.Pos(pos), "table is not a composite literal with constant keys and values")
	} else {
		var names []string
		for n := range thriftMinSize {
			names = append(names, n)
		}
		sort.Strings(names)
		for _, n := range names {
			var got int64
			if v, ok := tab[k.byName[n]]; ok {
				got, _ = constant.Int64Val(constant.ToInt(v))
			}
			key := "minWireSize[" + n + "]"
			s.check(got >= 1 && got <= thriftMinSize[n], key, c.Pos(pos),
				fmt.Sprintf("%s = %d within [1, %d]", key, got, thriftMinSize[n]),
				fmt.Sprintf("%s = %d outside [1, %d]: zero divides by zero in the count check, a larger value rejects valid messages", key, got, thriftMinSize[n]))
		}
		for kk, v := range tab {
			if _, isWire := thriftMinSize[k.nameOf(kk)]; !isWire {
				got, _ := constant.Int64Val(constant.ToInt(v))
				s.check(got >= 0, "minWireSize["+k.nameOf(kk)+"]", c.Pos(pos), "entry for a non-wire kind is never consulted with schema wire types", "negative entry")
			}
		}
	}
	// the count plausibility tests divide the remaining input by a per-element minimum: that minimum must be the table's entry
	// for the element's wire type (bounded above by the smallest encoding, see above) - a larger "tighter" bound computed from
	// the descriptor (always-written fields, say) refuses well-formed containers: a nil struct element is a lone STOP, an
	// older writer sends fewer fields
	fromLen := func(v ssa.Value) bool {
		for d := 0; d < 8; d++ {
			switch x := v.(type) {
			case *ssa.Convert:
				v = x.X
			case *ssa.BinOp:
				if x.Op != token.SUB {
					return false
				}
				v = x.X
			case *ssa.Call:
				return isBuiltin(x, "len")
			default:
				return false
			}
		}
		return false
	}
	var divisorOK func(v ssa.Value, d int) (bool, string)
	divisorOK = func(v ssa.Value, d int) (bool, string) {
		if d > 8 {
			return false, "expression too deep"
		}
		switch x := v.(type) {
		case *ssa.Const:
			if n, ok := constInt(x); ok && n == 1 {
				return true, ""
			}
			return false, "the constant " + path(x)
		case *ssa.Convert:
			return divisorOK(x.X, d+1)
		case *ssa.ChangeType:
			return divisorOK(x.X, d+1)
		case *ssa.BinOp:
			if x.Op == token.ADD {
				if ok, why := divisorOK(x.X, d+1); !ok {
					return false, why
				}
				return divisorOK(x.Y, d+1)
			}
			return false, "operator " + x.Op.String()
		case *ssa.UnOp:
			if x.Op == token.MUL {
				if ia, ok := x.X.(*ssa.IndexAddr); ok {
					if g, ok := ia.X.(*ssa.Global); ok && g.Name() == "minWireSize" {
						if strings.HasSuffix(path(ia.Index), ".WT") {
							return true, ""
						}
						return false, "minWireSize indexed with " + path(ia.Index) + " (not a wire type of the schema)"
					}
				}
			}
		case *ssa.Call:
			// the table written as a function of the kind (held against the protocol table above, under the table's name)
			if f := x.Call.StaticCallee(); f != nil && f.Name() == "minWireSize" && len(x.Call.Args) == 1 {
				if _, ok := constIntFuncTable(f); ok {
					if strings.HasSuffix(path(x.Call.Args[0]), ".WT") {
						return true, ""
					}
					return false, "minWireSize called with " + path(x.Call.Args[0]) + " (not a wire type of the schema)"
				}
			}
		case *ssa.Phi:
			for _, e := range x.Edges {
				if ok, why := divisorOK(e, d+1); !ok {
					return false, why
				}
			}
			return len(x.Edges) > 0, ""
		}
		return false, path(v)
	}
	for _, fn := range c.ModuleFuncs(pkgReflect) {
		if !c.decodeClosure()[fn] {
			continue
		}
		for _, b := range fn.Blocks {
			for _, ins := range b.Instrs {
				bo, ok := ins.(*ssa.BinOp)
				if !ok || bo.Op != token.QUO || !fromLen(bo.X) {
					continue
				}
				ok2, why := divisorOK(bo.Y, 0)
				s.check(ok2, fn.Name()+":count-divisor", c.InstrPos(bo), "remaining input divided by the minimal wire size of the element's wire type (table entries, bounded above)",
					"the remaining input is divided by "+why+", not by the minWireSize entries of the element wire types: nothing bounds it by the smallest encoding of an element (a nil struct is a lone STOP, an older writer sends fewer fields), so a well-formed container can be refused")
			}
		}
	}
	for name, want := range map[string]int64{"fieldHeaderLen": thriftFieldHeader, "mapHeaderLen": thriftMapHeader, "listHeaderLen": thriftListHeader, "strHeaderLen": thriftStrHeader} {
		got, ok := c.constOf(pkgReflect, name)
		if !ok {
			s.bad(name, "-", "header-length constant not found")
			continue
		}
		s.check(got == want, name, "-", fmt.Sprintf("%s = %d", name, got), fmt.Sprintf("%s = %d, protocol says %d", name, got, want))
	}
	return s.obs
}

func kname(k *kinds, pkg string, v int64) string {
	if pkg == pkgDefs {
		for n, c := range thriftCode {
			if c == v && n != "STOP" && n != "VOID" {
				return n
			}
		}
		return fmt.Sprint(v)
	}
	return k.nameOf(v)
}

func ruleT3(c *Ctx) []Ob {
	s := newSink(c, "T3.big-endian")
	for _, n := range []int{16, 32, 64} {
		name := fmt.Sprintf("appendUint%d", n)
		fd, p := c.funcDecl(pkgReflect, name)
		if fd == nil || fd.Body == nil {
			s.bad(name, "-", "function not found")
			continue
		}
		pos := c.Pos(fd.Pos())
		if len(fd.Body.List) != 1 {
			s.undec(name, pos, "body is not a single return statement")
			continue
		}
		rs, ok := fd.Body.List[0].(*ast.ReturnStmt)
		if !ok || len(rs.Results) != 1 {
			s.undec(name, pos, "body is not a single return statement")
			continue
		}
		call, ok := rs.Results[0].(*ast.CallExpr)
		if !ok {
			s.undec(name, pos, "return value is not a call")
			continue
		}
		params := fd.Type.Params.List
		if len(params) != 2 || len(params[0].Names) != 1 || len(params[1].Names) != 1 {
			s.undec(name, pos, "unexpected signature")
			continue
		}
		bName, vName := params[0].Names[0].Name, params[1].Names[0].Name
		// accepted alternative: binary.BigEndian.AppendUintN(b, v)
		if sel, ok := call.Fun.(*ast.SelectorExpr); ok {
			if fn, ok := p.TypesInfo.Uses[sel.Sel].(*types.Func); ok && fn.Pkg() != nil && fn.Pkg().Path() == "encoding/binary" &&
				fn.Name() == fmt.Sprintf("AppendUint%d", n) && strings.Contains(types.ExprString(sel.X), "BigEndian") {
				s.ok(name, pos, "delegates to binary.BigEndian."+fn.Name())
				continue
			}
		}
		id, ok := call.Fun.(*ast.Ident)
		if !ok || id.Name != "append" || call.Ellipsis.IsValid() {
			s.undec(name, pos, "return value is not append(b, bytes...)")
			continue
		}
		if a0, ok := call.Args[0].(*ast.Ident); !ok || a0.Name != bName {
			s.bad(name, pos, "append base is not the buffer parameter")
			continue
		}
		nb := n / 8
		if len(call.Args)-1 != nb {
			s.bad(name, pos, fmt.Sprintf("appends %d bytes, expected %d", len(call.Args)-1, nb))
			continue
		}
		good := true
		why := ""
		for i, a := range call.Args[1:] {
			wantShift := int64(8 * (nb - 1 - i))
			sh, ok := byteOfShift(p.TypesInfo, a, vName)
			if !ok {
				good, why = false, fmt.Sprintf("argument %d is not byte(%s >> k)", i, vName)
				break
			}
			if sh != wantShift {
				good, why = false, fmt.Sprintf("byte %d is %s>>%d, big-endian order needs >>%d", i, vName, sh, wantShift)
				break
			}
		}
		s.check(good, name, pos, fmt.Sprintf("%d bytes, most significant first", nb), why)
	}
	// every encoding/binary byte order referenced by the codec packages is BigEndian
	for _, pp := range []string{pkgReflect, pkgDefs, pkgRoot} {
		p := c.ByPath[pp]
		if p == nil {
			continue
		}
		for id, obj := range p.TypesInfo.Uses {
			v, ok := obj.(*types.Var)
			if !ok || v.Pkg() == nil || v.Pkg().Path() != "encoding/binary" {
				continue
			}
			key := "byteorder:" + pp[strings.LastIndex(pp, "/")+1:] + ":" + v.Name()
			s.check(v.Name() == "BigEndian", key, c.Pos(id.Pos()), "binary.BigEndian", "codec uses binary."+v.Name()+"; Thrift is big-endian")
		}
	}
	return s.obs
}

// byteOfShift matches byte(v >> k) / byte(v) and returns k.
func byteOfShift(info *types.Info, e ast.Expr, v string) (int64, bool) {
	call, ok := ast.Unparen(e).(*ast.CallExpr)
	if !ok || len(call.Args) != 1 {
		return 0, false
	}
	tv, ok := info.Types[call.Fun]
	if !ok || !tv.IsType() {
		return 0, false
	}
	if b, ok := tv.Type.Underlying().(*types.Basic); !ok || b.Kind() != types.Uint8 {
		return 0, false
	}
	a := ast.Unparen(call.Args[0])
	if id, ok := a.(*ast.Ident); ok && id.Name == v {
		return 0, true
	}
	be, ok := a.(*ast.BinaryExpr)
	if !ok || be.Op != token.SHR {
		return 0, false
	}
	if id, ok := ast.Unparen(be.X).(*ast.Ident); !ok || id.Name != v {
		return 0, false
	}
	kv := info.Types[be.Y].Value
	if kv == nil {
		return 0, false
	}
	k, ok := constant.Int64Val(constant.ToInt(kv))
	return k, ok
}
