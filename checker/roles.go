package main

import (
	"sort"
	"strings"

	"golang.org/x/tools/go/ssa"
)

// Roles are found by the construct they contain, not by name, so that renaming, splitting or moving a function
// does not hide it from a rule.

// closureFns returns the module functions of pkgReflect in the decode closure, sorted by position.
func (c *Ctx) decodeClosureFns() []*ssa.Function {
	var out []*ssa.Function
	for f := range c.decodeClosure() {
		if fnPkgPath(f) == pkgReflect && f.Blocks != nil {
			out = append(out, f)
		}
	}
	sort.Slice(out, func(i, j int) bool { return out[i].Pos() < out[j].Pos() })
	return out
}

func fnHasCall(fn *ssa.Function, pred func(call ssa.CallInstruction) bool) bool {
	for _, b := range fn.Blocks {
		for _, ins := range b.Instrs {
			if ci, ok := ins.(ssa.CallInstruction); ok && pred(ci) {
				return true
			}
		}
	}
	return false
}

// decodeLoopFn: the struct decoder = the function of the decode closure that looks fields up with GetField inside a loop.
func (c *Ctx) decodeLoopFn() *ssa.Function {
	for _, fn := range c.decodeClosureFns() {
		for _, b := range fn.Blocks {
			for _, ins := range b.Instrs {
				if call, ok := ins.(*ssa.Call); ok && call.Call.StaticCallee() != nil && shortFn(call.Call.StaticCallee()) == "structDesc.GetField" && isLoopBlock(b) {
					return fn
				}
			}
		}
	}
	return nil
}

// initDefaultFn: the function of the decode closure that invokes InitDefault.
func (c *Ctx) initDefaultFn() *ssa.Function {
	for _, fn := range c.decodeClosureFns() {
		if fnHasCall(fn, func(ci ssa.CallInstruction) bool {
			return ci.Common().IsInvoke() && ci.Common().Method.Name() == "InitDefault"
		}) {
			return fn
		}
	}
	return nil
}

// mapDecodeFn: the function of the decode closure that inserts map entries.
func (c *Ctx) mapDecodeFn() *ssa.Function {
	for _, fn := range c.decodeClosureFns() {
		if fnHasCall(fn, func(ci ssa.CallInstruction) bool {
			f := ci.Common().StaticCallee()
			return f != nil && f.Name() == "SetMapIndex" && fnPkgPath(f) == "reflect"
		}) {
			return fn
		}
	}
	return nil
}

// valueDecoders: functions of the decode closure that decode one value into a destination: (.., b []byte, p unsafe.Pointer, ..) (int, error),
// excluding the struct decoder.
func (c *Ctx) valueDecoders() []*ssa.Function {
	loop := c.decodeLoopFn()
	var out []*ssa.Function
	for _, fn := range c.decodeClosureFns() {
		if fn == loop || !hasContract(fn) || inputParam(fn) == nil {
			continue
		}
		hasPtr := false
		for _, p := range fn.Params {
			if isUnsafePointer(p.Type()) {
				hasPtr = true
			}
		}
		if hasPtr {
			out = append(out, fn)
		}
	}
	return out
}

// descParam returns the *tType parameter of fn (nil if none).
func descParam(fn *ssa.Function) *ssa.Parameter {
	for _, p := range fn.Params {
		if namedOf(p.Type()) == "tType" {
			return p
		}
	}
	return nil
}

var _ = strings.Contains
