package main

import (
	"fmt"
	"go/constant"
	"go/token"
	"go/types"
	"sort"
	"strings"

	"golang.org/x/tools/go/ssa"
)

func init() {
	register(&Rule{ID: "E11.legacy-inert", Min: 10,
		Text: "non-interference of the JIT-era controls: (1) every exported function of the root package other than the three codec entry points, and debug.GetStats, has a body with no call, no store, no global access; Pretouch returns nil, the setters return their parameter, the option constructors return closures with empty bodies; (2) internal/reflect and internal/defs import neither internal/opts nor the root or debug packages, and no function reachable from the codec entry points touches a variable of internal/opts; (3) the process environment is read only by internal/opts, whose only effects are the initialisation of its own variables and the panics on invalid values, and which parses with strconv.ParseUint(env, 0, 64) (all documented spellings accepted)",
		Run:  ruleLegacy})
}

func ruleLegacy(c *Ctx) []Ob {
	s := newSink(c, "E11.legacy-inert")
	codec := map[string]bool{"EncodedSize": true, "EncodeObject": true, "DecodeObject": true}
	// (1) legacy bodies
	check := func(pkg string) {
		sp := c.SSA[pkg]
		if sp == nil {
			return
		}
		var names []string
		for n, m := range sp.Members {
			if f, ok := m.(*ssa.Function); ok && f.Object() != nil && f.Object().Exported() && !(pkg == pkgRoot && codec[n]) {
				names = append(names, n)
			}
		}
		sort.Strings(names)
		for _, n := range names {
			fn := sp.Members[n].(*ssa.Function)
			key := sp.Pkg.Name() + "." + n
			var probs []string
			inert := func(f *ssa.Function, allowClosure bool) {
				for _, b := range f.Blocks {
					for _, ins := range b.Instrs {
						switch x := ins.(type) {
						case *ssa.Return, *ssa.DebugRef, *ssa.Jump:
						case *ssa.MakeClosure:
							if !allowClosure || len(x.Bindings) > 0 {
								probs = append(probs, "creates a closure capturing state")
							}
						case *ssa.ChangeType, *ssa.MakeInterface:
						case *ssa.Alloc:
							// zero-valued result such as Stats{}
						case *ssa.UnOp:
							if _, ok := x.X.(*ssa.Global); ok {
								probs = append(probs, "reads global "+path(x.X))
							}
						case *ssa.Store:
							if k, w := storeRoot(x.Addr); k != "local" {
								probs = append(probs, "stores to "+k+" "+w+" at "+c.InstrPos(x))
							}
						case *ssa.Call:
							probs = append(probs, "calls "+calleeShort(x)+" at "+c.InstrPos(x))
						case *ssa.If, *ssa.BinOp, *ssa.Phi:
							probs = append(probs, fmt.Sprintf("has control flow / computation (%T) at %s", ins, c.InstrPos(ins)))
						default:
							probs = append(probs, fmt.Sprintf("unexpected instruction %T at %s", ins, c.InstrPos(ins)))
						}
					}
				}
			}
			inert(fn, true)
			for _, af := range fn.AnonFuncs {
				inert(af, false)
				// option closures must have empty bodies
				n := 0
				for _, b := range af.Blocks {
					n += len(b.Instrs)
				}
				if n > 1 {
					probs = append(probs, "the returned option closure has a non-empty body")
				}
			}
			// result shape
			res := fn.Signature.Results()
			for _, b := range fn.Blocks {
				ret, ok := b.Instrs[len(b.Instrs)-1].(*ssa.Return)
				if !ok {
					continue
				}
				switch {
				case res.Len() == 1 && isErrorType(res.At(0).Type()):
					if !isNilConst(ret.Results[0]) {
						probs = append(probs, "can return a non-nil error")
					}
				case res.Len() == 1 && isInt(res.At(0).Type()) && len(fn.Params) == 1:
					if ret.Results[0] != ssa.Value(fn.Params[0]) {
						probs = append(probs, "does not return its argument")
					}
				}
			}
			s.check(len(probs) == 0, key, c.Pos(fn.Pos()), "empty effects", "legacy control is not inert: "+strings.Join(dedup(probs), "; "))
		}
	}
	check(pkgRoot)
	check(pkgDebug)
	// (2) import graph
	for _, pp := range []string{pkgReflect, pkgDefs} {
		p := c.ByPath[pp]
		if p == nil {
			continue
		}
		var bad []string
		for ip := range p.Imports {
			if ip == pkgOpts || ip == pkgRoot || ip == pkgDebug {
				bad = append(bad, ip)
			}
		}
		sort.Strings(bad)
		s.check(len(bad) == 0, "imports:"+p.Name, "-", "the codec package does not import the legacy packages", "codec package imports "+strings.Join(bad, ", ")+": legacy settings can influence results")
	}
	roots := c.apiRoots()
	reach := c.reachableFrom(roots, nil)
	var touch []string
	for f := range reach {
		if !c.InModule(f) || f.Blocks == nil || fnPkgPath(f) == pkgOpts {
			continue
		}
		for _, b := range f.Blocks {
			for _, ins := range b.Instrs {
				for _, op := range ins.Operands(nil) {
					if g, ok := (*op).(*ssa.Global); ok && g.Pkg.Pkg.Path() == pkgOpts {
						touch = append(touch, shortFn(f)+" uses opts."+g.Name()+" at "+c.InstrPos(ins))
					}
				}
				if call, ok := ins.(*ssa.Call); ok {
					if cf := call.Call.StaticCallee(); cf != nil && fnPkgPath(cf) == pkgOpts {
						touch = append(touch, shortFn(f)+" calls opts."+cf.Name()+" at "+c.InstrPos(ins))
					}
				}
			}
		}
	}
	sort.Strings(touch)
	s.check(len(touch) == 0, "codec-reads-opts", "-", fmt.Sprintf("none of the %d functions reachable from the entry points touches internal/opts", len(reach)), "functions reachable from the codec entry points depend on the legacy options: "+strings.Join(touch, "; "))
	// (3) environment
	envFns := map[string]bool{"os.Getenv": true, "os.LookupEnv": true, "os.Environ": true, "syscall.Getenv": true, "os.ExpandEnv": true, "os.Setenv": true, "os.Unsetenv": true, "os.Clearenv": true}
	var envUse []string
	nEnvOpts := 0
	for _, fn := range c.ModuleFuncs() {
		for _, b := range fn.Blocks {
			for _, ins := range b.Instrs {
				call, ok := ins.(*ssa.Call)
				if !ok || call.Call.StaticCallee() == nil {
					continue
				}
				cf := call.Call.StaticCallee()
				if envFns[fnPkgPath(cf)+"."+cf.Name()] {
					if fnPkgPath(fn) == pkgOpts {
						nEnvOpts++
					} else {
						envUse = append(envUse, shortFn(fn)+" at "+c.InstrPos(call))
					}
				}
			}
		}
	}
	s.check(len(envUse) == 0, "env-readers", "-", fmt.Sprintf("environment read only in internal/opts (%d sites)", nEnvOpts), "the process environment is accessed outside internal/opts: "+strings.Join(envUse, "; "))
	// opts: effects and parse form
	if sp := c.SSA[pkgOpts]; sp != nil {
		var probs []string
		parseOK := false
		for _, fn := range c.ModuleFuncs(pkgOpts) {
			for _, b := range fn.Blocks {
				for _, ins := range b.Instrs {
					switch x := ins.(type) {
					case *ssa.Store:
						if g := rootGlobal(x.Addr); g != nil {
							if g.Pkg.Pkg.Path() != pkgOpts || !isInitFn(fn) {
								probs = append(probs, "writes "+globalKey(g)+" in "+shortFn(fn))
							}
						} else if k, w := storeRoot(x.Addr); k != "local" {
							probs = append(probs, "stores to "+k+" "+w+" in "+shortFn(fn))
						}
					case *ssa.Call:
						cf := x.Call.StaticCallee()
						if cf == nil {
							continue
						}
						full := fnPkgPath(cf) + "." + cf.Name()
						if cf.Name() == "init" && isInitFn(fn) {
							continue // package initialisation order
						}
						switch {
						case fnPkgPath(cf) == pkgOpts, envFns[full] && strings.HasPrefix(cf.Name(), "Getenv"):
						case full == "strconv.ParseUint":
							base, ok1 := constInt(x.Call.Args[1])
							bits, ok2 := constInt(x.Call.Args[2])
							parseOK = ok1 && ok2 && base == 0 && bits == 64
							if !parseOK {
								probs = append(probs, fmt.Sprintf("parses with ParseUint(_, %d, %d) instead of (_, 0, 64)", base, bits))
							}
						case fnPkgPath(cf) == "strconv":
							probs = append(probs, "parses the environment value with strconv."+cf.Name()+" (valid spellings such as 0x10 would be rejected or read differently)")
						default:
							probs = append(probs, "calls "+full)
						}
					}
				}
			}
		}
		if !parseOK {
			probs = append(probs, "no strconv.ParseUint(env, 0, 64)")
		}
		s.check(len(dedup(probs)) == 0, "opts:effects", "-", "internal/opts only initialises its own variables, parsing with ParseUint(env, 0, 64)", "internal/opts: "+strings.Join(dedup(probs), "; "))
		// the built-in default is itself a valid setting: a deployment that exports the default explicitly behaves as one that
		// sets nothing. The parser refuses a value by comparing it with a bound parameter on the way to a panic; every call
		// site's default constant, put in the place of the parsed value, must not take that edge.
		for _, pf := range c.ModuleFuncs(pkgOpts) {
			type bound struct {
				op    token.Token
				param int
				swap  bool
			}
			var bounds []bound
			for _, b := range pf.Blocks {
				iff, ok := b.Instrs[len(b.Instrs)-1].(*ssa.If)
				if !ok {
					continue
				}
				bo, ok := iff.Cond.(*ssa.BinOp)
				if !ok {
					continue
				}
				switch bo.Op {
				case token.LSS, token.LEQ, token.GTR, token.GEQ:
				default:
					continue
				}
				for k, pr := range [][2]ssa.Value{{bo.X, bo.Y}, {bo.Y, bo.X}} {
					prm, ok := pr[1].(*ssa.Parameter)
					if !ok {
						continue
					}
					if _, isParam := pr[0].(*ssa.Parameter); isParam {
						continue
					}
					if _, isConst := pr[0].(*ssa.Const); isConst {
						continue
					}
					pi := -1
					for i, q := range pf.Params {
						if q == prm {
							pi = i
						}
					}
					// the true edge ends in a panic
					if pi >= 0 && edgeErrors(b.Succs[0]) {
						if _, isPanic := lastInstrOfChain(b.Succs[0]).(*ssa.Panic); isPanic {
							bounds = append(bounds, bound{bo.Op, pi, k == 1})
						}
					}
				}
			}
			if len(bounds) == 0 {
				continue
			}
			// the default: the parameter returned when the variable is unset (a parameter that is returned as it is)
			defIdx := -1
			for _, b := range pf.Blocks {
				if ret, ok := b.Instrs[len(b.Instrs)-1].(*ssa.Return); ok && len(ret.Results) == 1 {
					if prm, ok := ret.Results[0].(*ssa.Parameter); ok {
						for i, q := range pf.Params {
							if q == prm {
								defIdx = i
							}
						}
					}
				}
			}
			if defIdx < 0 {
				continue
			}
			for _, cf := range c.ModuleFuncs(pkgOpts) {
				for _, b := range cf.Blocks {
					for _, ins := range b.Instrs {
						call, ok := ins.(*ssa.Call)
						if !ok || call.Call.StaticCallee() != pf {
							continue
						}
						key := "opts:default-valid"
						if k, ok := call.Call.Args[0].(*ssa.Const); ok && k.Value != nil && k.Value.Kind() == constant.String {
							key += ":" + constant.StringVal(k.Value)
						}
						def, ok1 := constInt(call.Call.Args[defIdx])
						good, why := ok1, "the default is not a constant"
						for _, bd := range bounds {
							lim, ok2 := constInt(call.Call.Args[bd.param])
							if !ok1 || !ok2 {
								good, why = false, "default or bound is not a constant"
								continue
							}
							x, y := def, lim
							if bd.swap {
								x, y = lim, def
							}
							refused := false
							switch bd.op {
							case token.LSS:
								refused = x < y
							case token.LEQ:
								refused = x <= y
							case token.GTR:
								refused = x > y
							case token.GEQ:
								refused = x >= y
							}
							if refused {
								good, why = false, fmt.Sprintf("the default %d is refused by the parser's own bound %d (value %s bound panics): exporting the default value explicitly makes every program importing the package panic at start-up", def, lim, bd.op)
							}
						}
						s.check(good, key, c.InstrPos(call), "the built-in default passes the parser's bound", why)
					}
				}
			}
		}
	}
	return s.obs
}

var _ = types.Typ

func lastInstrOfChain(b *ssa.BasicBlock) ssa.Instruction {
	seen := map[*ssa.BasicBlock]bool{}
	for cur := b; cur != nil && !seen[cur]; {
		seen[cur] = true
		last := cur.Instrs[len(cur.Instrs)-1]
		if _, ok := last.(*ssa.Jump); ok {
			cur = cur.Succs[0]
			continue
		}
		return last
	}
	return nil
}
