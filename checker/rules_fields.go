package main

import (
	"fmt"
	"go/constant"
	"go/token"
	"go/types"
	"sort"
	"strconv"
	"strings"

	"golang.org/x/tools/go/ssa"
)

func init() {
	register(&Rule{ID: "F.field-dispatch", Min: 8,
		Text: "struct loop of the decoder: the field is looked up by the wire id through GetField; the destination (base+f.Offset), mallocIfPointer and every value decode are executed only on the edge where the lookup is non-nil AND f.Type.WT equals the wire type byte; the other edge skips with the WIRE type (not the schema's) over b[i:] and advances the cursor by the skipper's result; the success return happens only after a STOP byte was consumed (cursor = position of STOP + 1); GetField returns nil exactly for fid > maxID and for the -1 sentinel; the dense index is sized maxID+1 in int, filled with -1 over its whole length and then set per field",
		Run:  ruleFieldDispatch})
	register(&Rule{ID: "F.required", Min: 8,
		Text: "required fields: bs.set(f.ID) is executed for the looked-up field after every successful known-field decode and is unreachable from the skip edge (a mismatched wire type does not count); after the loop every id of sd.requiredFieldIDs is tested and a missing one returns the INVALID_DATA required-field exception, and that test loop dominates the success return; set/unset/test split the id into the same word/bit pair, consistent with the 64-bit words, and the array covers 65536 ids; requiredFieldIDs receives exactly the fields with Spec == Required",
		Run:  ruleRequired})
	register(&Rule{ID: "F.skip-flags", Min: 4,
		Text: "CanSkipEncodeIfNil = (Spec == Optional) && (Tag == T_pointer || Tag == T_binary || containerTypes[T]) - exactly the representations whose first word is a pointer; CanSkipIfDefault = (Spec == Optional) && Tag != T_pointer && Default != nil; NoCopy = the resolver's option bit, unchanged; so required and default-requiredness fields are never skipped by the encoder",
		Run:  ruleSkipFlags})
	register(&Rule{ID: "F.init-default", Min: 4,
		Text: "nested structs get their declared defaults before being decoded: in decodeType's struct case the only success return is the tail call d.Decode(b, p, t.Sd, depth-1), reached on both edges of t.Sd.hasInitFunc, and on the true edge InitDefault() is invoked on a local copy of initFunc whose data pointer was redirected to the same p; the top-level entry (reflect.Decode) hands the user's pointer directly to (*tDecoder).Decode and never calls InitDefault/updateIface; mallocIfPointer runs only on the known-field edge (optional pointer non-nil exactly when carried)",
		Run:  ruleInitDefault})
	register(&Rule{ID: "NARROW-OVERFLOW", Min: 1,
		Text: "no +, -, *, << on integers narrower than 32 bits whose result feeds an allocation size, an index, a slice bound or a widening conversion (sub-word wrap-around, e.g. maxFieldID+1 in uint16)",
		Run:  ruleNarrowOverflow})
}

func decodeLoopInfo(c *Ctx) (fn *ssa.Function, get *ssa.Call, skip *ssa.Call, known *ssa.BasicBlock, why string) {
	fn = c.decodeLoopFn()
	if fn == nil {
		return nil, nil, nil, nil, "struct decoder (field loop with GetField) not found in the decode closure"
	}
	for _, b := range fn.Blocks {
		for _, ins := range b.Instrs {
			call, ok := ins.(*ssa.Call)
			if !ok {
				continue
			}
			f := call.Call.StaticCallee()
			if f == nil {
				continue
			}
			if shortFn(f) == "structDesc.GetField" && isLoopBlock(b) {
				get = call
			}
			if isTrustedSkip(f) || skipWrapperOf(f) >= 0 {
				skip = call
			}
			if shortFn(f) == "tDecoder.mallocIfPointer" {
				known = b
			}
		}
	}
	if get == nil {
		return fn, nil, skip, known, "no GetField lookup inside the field loop"
	}
	return fn, get, skip, known, ""
}

func isLoopBlock(b *ssa.BasicBlock) bool { return blockReaches(b, b) }

// isValueDecode: f decodes one value from the input into a destination pointer ((.., []byte, unsafe.Pointer, ..) (int, error) in the decode closure).
func isValueDecode(c *Ctx, f *ssa.Function, closure map[*ssa.Function]bool) bool {
	if f == nil || !closure[f] || !hasContract(f) {
		return false
	}
	for _, p := range f.Params {
		if isUnsafePointer(p.Type()) {
			return true
		}
	}
	return false
}

// knownFieldEdge: block b is dominated by (lookup != nil) and (lookup.Type.WT == wire type byte).
func knownFieldEdge(b *ssa.BasicBlock, get *ssa.Call, a *linAn) (nonNil, wtEq bool) {
	for _, cd := range domConds(b) {
		bo, ok := cd.V.(*ssa.BinOp)
		if !ok {
			continue
		}
		// f == nil (false) / f != nil (true)
		if (bo.X == ssa.Value(get) && isNilConst(bo.Y)) || (bo.Y == ssa.Value(get) && isNilConst(bo.X)) {
			if bo.Op == token.EQL && !cd.Truth || bo.Op == token.NEQ && cd.Truth {
				nonNil = true
			}
		}
		// f.Type.WT != tp (false) / == (true)
		for _, pr := range [][2]ssa.Value{{bo.X, bo.Y}, {bo.Y, bo.X}} {
			if strings.HasSuffix(path(pr[0]), ".Type.WT") && rootsAt(pr[0], get) && wireSource(a, pr[1]) {
				if bo.Op == token.NEQ && !cd.Truth || bo.Op == token.EQL && cd.Truth {
					wtEq = true
				}
			}
		}
	}
	return
}

// rootsAt: the access path of v starts at value root (a call result).
func rootsAt(v ssa.Value, root ssa.Value) bool {
	for i := 0; i < 10; i++ {
		if v == root {
			return true
		}
		switch x := v.(type) {
		case *ssa.UnOp:
			v = x.X
		case *ssa.FieldAddr:
			v = x.X
		case *ssa.Field:
			v = x.X
		case *ssa.ChangeType:
			v = x.X
		default:
			return false
		}
	}
	return false
}

func ruleFieldDispatch(c *Ctx) []Ob {
	s := newSink(c, "F.field-dispatch")
	fn, get, skip, known, why := decodeLoopInfo(c)
	if why != "" {
		s.bad("loop", "-", why)
		return s.obs
	}
	closure := c.decodeClosure()
	a := c.bounds(fn, closure)
	// lookup key is the wire id read big-endian from the input
	okID := false
	if len(get.Call.Args) == 2 {
		if call, ok := get.Call.Args[1].(*ssa.Call); ok {
			if f := call.Call.StaticCallee(); f != nil && f.Name() == "Uint16" && fnPkgPath(f) == "encoding/binary" && a.derivedFrom(call.Call.Args[len(call.Call.Args)-1]) {
				okID = true
			}
		}
	}
	s.check(okID, "lookup-id", c.InstrPos(get), "GetField(id read from the wire)", "GetField is not called with the 16-bit id read from the input")
	// every value decode / destination computation is on the known-field edge
	for _, b := range fn.Blocks {
		for _, ins := range b.Instrs {
			call, ok := ins.(*ssa.Call)
			if !ok {
				continue
			}
			f := call.Call.StaticCallee()
			if f == nil {
				continue
			}
			n := shortFn(f)
			if !isValueDecode(c, f, closure) && n != "tDecoder.mallocIfPointer" {
				continue
			}
			nn, eq := knownFieldEdge(b, get, a)
			s.check(nn && eq, "known-edge:"+n, c.InstrPos(call), "only when the field is known and its wire type matches", fmt.Sprintf("%s runs without both conditions (lookup non-nil: %v, f.Type.WT == wire type: %v): a field with an unknown id or a different wire type would be decoded into the destination", n, nn, eq))
			// destination is base + f.Offset of the looked-up field
			for _, arg := range call.Call.Args {
				if !isUnsafePointer(arg.Type()) {
					continue
				}
				offs := ptrAddOffsets(arg)
				good := false
				for _, o := range offs {
					if o == path(get) {
						good = true
					}
				}
				// through mallocIfPointer
				if cl := destClasses(arg); len(offs) == 0 {
					for _, x := range cl {
						if x == "field-of-base" || x == "malloc" {
							good = true
						}
					}
				}
				s.check(good, "dest:"+n, c.InstrPos(call), "destination is base + f.Offset of the looked-up field", "destination pointer is not base + Offset of the looked-up field")
				// a value decoder writes the value, not the field slot: for an optional (pointer) field the two differ, so the
				// destination must have gone through the pointer-level allocation
				if n != "tDecoder.mallocIfPointer" {
					s.check(viaMallocIfPointer(arg, 0), "dest-level:"+n, c.InstrPos(call), "destination went through mallocIfPointer (value address, not the field slot)", n+" is given the address of the field slot itself: for an optional (pointer) field the decoder overwrites the pointer and the memory after it instead of a freshly allocated value")
				}
			}
		}
	}
	_ = known
	// skip edge
	if skip == nil {
		s.bad("skip", c.Pos(fn.Pos()), "unknown fields are not skipped through thrift.Binary.Skip")
	} else {
		args := skip.Call.Args
		tt := args[len(args)-1]
		if k := skipWrapperOf(skip.Call.StaticCallee()); k >= 0 && k < len(args) {
			tt = args[k]
		}
		okT := wireSource(a, stripConv(tt))
		s.check(okT, "skip:type", c.InstrPos(skip), "skips with the type byte read from the wire", "the skipper is given "+path(tt)+" instead of the wire type byte: a field whose wire type differs from the schema would be skipped with the wrong shape")
		// reachable only from the two skip conditions: block's preds are the true edges of f == nil / WT != tp
		okEdge := true
		for _, p := range skip.Block().Preds {
			iff, ok := p.Instrs[len(p.Instrs)-1].(*ssa.If)
			if !ok || p.Succs[0] == p.Succs[1] {
				okEdge = false
				continue
			}
			bo, ok := iff.Cond.(*ssa.BinOp)
			if !ok {
				okEdge = false
				continue
			}
			// the sense of the comparison on the edge that enters the skip block
			equal := bo.Op == token.EQL && p.Succs[0] == skip.Block() || bo.Op == token.NEQ && p.Succs[1] == skip.Block()
			differ := bo.Op == token.NEQ && p.Succs[0] == skip.Block() || bo.Op == token.EQL && p.Succs[1] == skip.Block()
			isNilT := equal && (bo.X == ssa.Value(get) && isNilConst(bo.Y) || bo.Y == ssa.Value(get) && isNilConst(bo.X))
			isWT := differ && (strings.HasSuffix(path(bo.X), ".Type.WT") || strings.HasSuffix(path(bo.Y), ".Type.WT"))
			if !isNilT && !isWT {
				okEdge = false
			}
		}
		s.check(okEdge && len(skip.Block().Preds) == 2, "skip:edges", c.InstrPos(skip), "skip is taken exactly for unknown id or mismatching wire type", "the skip block is not entered exactly from `f == nil` and `f.Type.WT != tp`")
		// cursor advance by n
		var nval ssa.Value
		for _, r := range referrers(skip) {
			if ex, ok := r.(*ssa.Extract); ok && ex.Index == 0 {
				nval = ex
			}
		}
		adv := false
		if nval != nil {
			for _, r := range referrers(nval) {
				if bo, ok := r.(*ssa.BinOp); ok && bo.Op == token.ADD {
					f := a.lin(bo)
					arg := args[len(args)-2]
					if sl, ok := arg.(*ssa.Slice); ok && sl.Low != nil {
						want := addF(a.lin(sl.Low), a.lin(nval), 1)
						if eqForm(f, want) {
							for _, rr := range referrers(bo) {
								if _, ok := rr.(*ssa.Phi); ok {
									adv = true
								}
							}
						}
					}
				}
			}
		}
		s.check(adv, "skip:advance", c.InstrPos(skip), "cursor += bytes skipped", "after a skip the cursor is not advanced by exactly the skipper's result from the position it was given")
	}
	// success return: only after STOP was read, cursor = index of STOP + 1
	for _, b := range fn.Blocks {
		ret, ok := b.Instrs[len(b.Instrs)-1].(*ssa.Return)
		if !ok || b == fn.Recover {
			continue
		}
		ev := unspill(ret.Results[1], b)
		if definitelyNonNilErr(ev, b) {
			continue
		}
		nv := unspill(ret.Results[0], b)
		// dominated by tp == tSTOP true edge
		good := false
		for _, cd := range domConds(b) {
			bo, ok := cd.V.(*ssa.BinOp)
			if !ok || !(bo.Op == token.EQL && cd.Truth || bo.Op == token.NEQ && !cd.Truth) {
				continue
			}
			cv, isC := constInt(bo.Y)
			if !isC || cv != thriftCode["STOP"] || !wireSource(a, bo.X) {
				continue
			}
			// index at which the byte was read
			x := bo.X
			for {
				if ct, ok := x.(*ssa.ChangeType); ok {
					x = ct.X
					continue
				}
				if cv2, ok := x.(*ssa.Convert); ok {
					x = cv2.X
					continue
				}
				break
			}
			if u, ok := x.(*ssa.UnOp); ok {
				if ia, ok := u.X.(*ssa.IndexAddr); ok {
					if eqForm(a.lin(nv), addF(a.lin(ia.Index), konst(1), 1)) {
						good = true
					}
				}
			}
		}
		s.check(good, "success-return", c.InstrPos(ret), "returns position of STOP + 1", "a success return is not dominated by reading a STOP byte, or does not return the position just past it")
	}
	// GetField: non-nil only when fid <= maxID and the index entry is >= 0; the index is read only when fid <= maxID
	if gf := c.Func(pkgReflect, "(*structDesc).GetField"); gf != nil {
		d, fid := gf.Params[0].Name(), gf.Params[1].Name()
		var probs []string
		nNonNil := 0
		for _, b := range gf.Blocks {
			for _, ins := range b.Instrs {
				switch x := ins.(type) {
				case *ssa.IndexAddr:
					if path(x.X) == d+".fieldIdx" {
						if descInt(x.Index) != fid {
							probs = append(probs, "fieldIdx is indexed by "+descInt(x.Index)+", not by the field id")
						}
						if !holdsAt(b, fid, "<=", d+".maxID", descInt) {
							probs = append(probs, "fieldIdx[fid] is read without fid <= maxID (index out of range for unknown ids)")
						}
					}
				case *ssa.Return:
					if isNilConst(x.Results[0]) {
						continue
					}
					nNonNil++
					rp := path(x.Results[0])
					pre := d + ".fields[" + d + ".fieldIdx[" + fid + "]]"
					if rp != pre && rp != d+".fields[conv("+d+".fieldIdx["+fid+"])]" {
						probs = append(probs, "returns "+rp+", expected "+pre)
						continue
					}
					if !holdsAt(b, fid, "<=", d+".maxID", descInt) {
						probs = append(probs, "a field is returned without fid <= maxID")
					}
					if !holdsAt(b, "0", "<=", d+".fieldIdx["+fid+"]", descInt) {
						probs = append(probs, "a field is returned without testing the index entry for the -1 sentinel")
					}
				}
			}
		}
		if nNonNil == 0 {
			probs = append(probs, "never returns a field")
		}
		s.check(len(probs) == 0, "GetField", c.Pos(gf.Pos()), "nil for fid > maxID and for -1; otherwise fields[fieldIdx[fid]]", "GetField: "+strings.Join(dedup(probs), "; "))
	} else {
		s.bad("GetField", "-", "not found")
	}
	// fromDefsFields: index construction
	if ff := c.Func(pkgReflect, "(*structDesc).fromDefsFields"); ff != nil {
		d := ff.Params[0].Name()
		var mk *ssa.MakeSlice
		for _, b := range ff.Blocks {
			for _, ins := range b.Instrs {
				if st, ok := ins.(*ssa.Store); ok && path(st.Addr) == d+".fieldIdx" {
					if m, ok := st.Val.(*ssa.MakeSlice); ok {
						mk = m
					}
				}
			}
		}
		// the index may be built by a constructor helper (make + fill) whose result is stored
		var ctor *ssa.Function
		var ctorCall *ssa.Call
		if mk == nil {
			for _, b := range ff.Blocks {
				for _, ins := range b.Instrs {
					if st, ok := ins.(*ssa.Store); ok && path(st.Addr) == d+".fieldIdx" {
						if call, ok := st.Val.(*ssa.Call); ok && call.Call.StaticCallee() != nil && call.Call.StaticCallee().Blocks != nil {
							h := call.Call.StaticCallee()
							for _, hb := range h.Blocks {
								if ret, ok := hb.Instrs[len(hb.Instrs)-1].(*ssa.Return); ok && len(ret.Results) == 1 {
									if m, ok := ret.Results[0].(*ssa.MakeSlice); ok {
										mk, ctor, ctorCall = m, h, call
									}
								}
							}
						}
					}
				}
			}
		}
		isIdxSlice := func(v ssa.Value) bool { return mk != nil && v == ssa.Value(mk) || path(v) == d+".fieldIdx" }
		fillAll, setIdx, maxSet := false, false, false
		scan := ff.Blocks
		if ctor != nil {
			scan = append(append([]*ssa.BasicBlock{}, ff.Blocks...), ctor.Blocks...)
		}
		for _, b := range scan {
			for _, ins := range b.Instrs {
				st, ok := ins.(*ssa.Store)
				if !ok {
					continue
				}
				if path(st.Addr) == d+".maxID" {
					maxSet = true
				}
				ia, ok := st.Addr.(*ssa.IndexAddr)
				if !ok || !isIdxSlice(ia.X) {
					continue
				}
				if v, ok := constInt(st.Val); ok && v == -1 {
					if fullRangeIndex(ia.Index, isIdxSlice, mk) {
						fillAll = true
					}
				} else if strings.HasSuffix(descInt(ia.Index), ".ID") {
					setIdx = true
				}
			}
		}
		okMk := false
		if mk != nil {
			if bo, ok := mk.Len.(*ssa.BinOp); ok && bo.Op == token.ADD && c.Sizes.Sizeof(bo.Type()) >= 4 {
				if one, ok := constInt(bo.Y); ok && one == 1 {
					okMk = true
				}
			}
		}
		if okMk {
			// ... on every path: no return of fromDefsFields is reachable without the index having been installed
			site := mk.Block()
			if ctorCall != nil {
				site = ctorCall.Block()
				// the constructor has a single make, returned on every path
				for _, hb := range ctor.Blocks {
					if ret, ok := hb.Instrs[len(hb.Instrs)-1].(*ssa.Return); ok && (len(ret.Results) != 1 || ret.Results[0] != ssa.Value(mk)) {
						okMk = false
					}
				}
			}
			for _, b := range ff.Blocks {
				if _, ok := b.Instrs[len(b.Instrs)-1].(*ssa.Return); ok && !site.Dominates(b) && site != b {
					okMk = false
				}
			}
		}
		s.check(okMk, "fieldIdx:size", c.Pos(ff.Pos()), "make([]int, maxID+1) with the addition done in int", "the dense index is not allocated, on every path, with maxFieldID+1 entries computed without sub-word overflow (GetField indexes it for every fid <= maxID, including a struct without fields)")
		s.check(fillAll, "fieldIdx:fill", c.Pos(ff.Pos()), "every slot of fieldIdx is initialised to -1 (loop over the whole slice)", "fieldIdx is not filled with -1 over its whole length: an id without a field (e.g. 0) would resolve to field index 0")
		s.check(setIdx && maxSet, "fieldIdx:set", c.Pos(ff.Pos()), "fieldIdx[f.ID] = i and maxID recorded", "fieldIdx[f.ID] / maxID are not recorded")
	} else {
		s.bad("fromDefsFields", "-", "not found")
	}
	return s.obs
}

// fullRangeIndex: idx runs over every index of the slice: `for i := range s` or `for i := 0; i < len(s); i++`.
func fullRangeIndex(idx ssa.Value, isSlice func(ssa.Value) bool, mk *ssa.MakeSlice) bool {
	boundOK := func(y ssa.Value) bool {
		if call, ok := y.(*ssa.Call); ok && isBuiltin(call, "len") && isSlice(call.Call.Args[0]) {
			return true
		}
		return mk != nil && y == mk.Len
	}
	// range form: idx = rangeindex + 1, compared idx < len(s)
	if bo, ok := idx.(*ssa.BinOp); ok && bo.Op == token.ADD {
		if p, ok := bo.X.(*ssa.Phi); ok && p.Comment == "rangeindex" {
			for _, r := range referrers(bo) {
				if cmp, ok := r.(*ssa.BinOp); ok && cmp.Op == token.LSS && cmp.X == ssa.Value(bo) && boundOK(cmp.Y) {
					return true
				}
			}
		}
		return false
	}
	// counted form: phi(0, phi+1) compared phi < len(s)
	if p, ok := idx.(*ssa.Phi); ok && loopCounter(p) {
		for _, r := range referrers(p) {
			if cmp, ok := r.(*ssa.BinOp); ok && cmp.Op == token.LSS && cmp.X == ssa.Value(p) && boundOK(cmp.Y) {
				if _, isIf := cmp.Block().Instrs[len(cmp.Block().Instrs)-1].(*ssa.If); isIf && cmp.Block() == p.Block() {
					return true
				}
			}
		}
	}
	return false
}

// isRangeIndexOver: v is the index variable of `for i := range <slicePath>`.
func isRangeIndexOver(v ssa.Value, slicePath string) bool {
	bo, ok := v.(*ssa.BinOp)
	if !ok || bo.Op != token.ADD {
		return false
	}
	p, ok := bo.X.(*ssa.Phi)
	if !ok || p.Comment != "rangeindex" {
		return false
	}
	// loop condition compares with len(slicePath)
	for _, r := range referrers(bo) {
		cmp, ok := r.(*ssa.BinOp)
		if !ok || cmp.Op != token.LSS {
			continue
		}
		if call, ok := cmp.Y.(*ssa.Call); ok && isBuiltin(call, "len") && path(call.Call.Args[0]) == slicePath {
			return true
		}
	}
	return false
}

func ruleRequired(c *Ctx) []Ob {
	s := newSink(c, "F.required")
	fn, get, skip, _, why := decodeLoopInfo(c)
	if why != "" {
		s.bad("loop", "-", why)
		return s.obs
	}
	closure := c.decodeClosure()
	a := c.bounds(fn, closure)
	var sets, tests []*ssa.Call
	for _, b := range fn.Blocks {
		for _, ins := range b.Instrs {
			if call, ok := ins.(*ssa.Call); ok {
				if f := call.Call.StaticCallee(); f != nil {
					switch shortFn(f) {
					case "bitset.set":
						sets = append(sets, call)
					case "bitset.test":
						tests = append(tests, call)
					}
				}
			}
		}
	}
	if len(sets) != 1 {
		s.bad("set", c.Pos(fn.Pos()), fmt.Sprintf("expected exactly one bs.set in the field loop, found %d", len(sets)))
	} else {
		set := sets[0]
		nn, eq := knownFieldEdge(set.Block(), get, a)
		argOK := strings.HasSuffix(path(set.Call.Args[1]), ".ID") && rootsAt(set.Call.Args[1], get)
		s.check(nn && eq && argOK, "set:known-edge", c.InstrPos(set), "bs.set(f.ID) only for a known field with matching wire type", "bs.set is executed for a field that was not (yet) accepted: a required id arriving with another wire type, or an unknown id, would count as present")
		// unreachable from the skip block within one iteration; reached after every successful decode
		if skip != nil {
			hdr := loopHeaderOf(get.Block())
			s.check(hdr != nil && !reachesAvoiding(skip.Block(), set.Block(), hdr), "set:not-after-skip", c.InstrPos(set), "not reachable from the skip edge in the same iteration", "bs.set is reachable from the skip edge")
		}
		// every successful decode reaches the set guard before the next iteration
		hdr := loopHeaderOf(get.Block())
		guard := set.Block()
		if len(guard.Preds) == 1 {
			guard = guard.Preds[0] // the `bs != nil` test
		}
		okAll := hdr != nil
		nDec := 0
		for _, b := range fn.Blocks {
			for _, ins := range b.Instrs {
				call, ok := ins.(*ssa.Call)
				if !ok || call.Call.StaticCallee() == nil {
					continue
				}
				if !isValueDecode(c, call.Call.StaticCallee(), closure) {
					continue
				}
				nDec++
				if hdr != nil && b != guard && reachesAvoidingEither(b, hdr, guard, errorBlocks(fn)) {
					okAll = false
				}
			}
		}
		s.check(okAll && nDec > 0, "set:after-every-decode", c.InstrPos(set), fmt.Sprintf("all %d value decodes pass the presence update before the next iteration", nDec), "a successful value decode can reach the next iteration without updating the presence set: a present required field would be reported missing")
		// guard is bs != nil only
		if iff, ok := guard.Instrs[len(guard.Instrs)-1].(*ssa.If); ok {
			bo, ok := iff.Cond.(*ssa.BinOp)
			good := ok && bo.Op == token.NEQ && isNilConst(bo.Y) && namedOf(bo.X.Type()) == "bitset"
			s.check(good, "set:guard", c.InstrPos(iff), "guarded only by bs != nil", "bs.set is guarded by something other than bs != nil")
		}
	}
	// post-loop test
	if len(tests) != 1 {
		s.bad("test", c.Pos(fn.Pos()), fmt.Sprintf("expected exactly one bs.test after the field loop, found %d", len(tests)))
	} else {
		t := tests[0]
		overReq := strings.Contains(path(t.Call.Args[1]), ".requiredFieldIDs[") && isRangeBody(t.Block())
		// false edge of test returns the required-field exception
		errOK := false
		for _, r := range referrers(t) {
			if iff, ok := r.(*ssa.If); ok {
				eb := iff.Block().Succs[1]
				errOK = edgeErrors(eb) && blockCalls(eb, "newRequiredFieldNotSetException") || regionErrorsWith(eb, "newRequiredFieldNotSetException")
			}
			if u, ok := r.(*ssa.UnOp); ok && u.Op == token.NOT {
				for _, rr := range referrers(u) {
					if iff, ok := rr.(*ssa.If); ok {
						eb := iff.Block().Succs[0]
						errOK = edgeErrors(eb) && blockCalls(eb, "newRequiredFieldNotSetException") || regionErrorsWith(eb, "newRequiredFieldNotSetException")
					}
				}
			}
		}
		s.check(overReq && errOK, "test:loop", c.InstrPos(t), "every required id is tested; a missing one returns the required-field exception", "the post-loop check does not test every id of sd.requiredFieldIDs with a missing one returning newRequiredFieldNotSetException")
		// the exception names the field whose id was tested: the name argument is computed from that id (directly, or from
		// the looked-up field of that id)
		for _, b := range fn.Blocks {
			for _, ins := range b.Instrs {
				ex, ok := ins.(*ssa.Call)
				if !ok || ex.Call.StaticCallee() == nil || ex.Call.StaticCallee().Name() != "newRequiredFieldNotSetException" || len(ex.Call.Args) == 0 {
					continue
				}
				uses := false
				seen := map[ssa.Value]bool{}
				var walk func(v ssa.Value, d int)
				walk = func(v ssa.Value, d int) {
					if v == nil || seen[v] || d > 8 {
						return
					}
					seen[v] = true
					if v == t.Call.Args[1] || path(v) == path(t.Call.Args[1]) {
						uses = true
						return
					}
					if ins, ok := v.(ssa.Instruction); ok {
						for _, op := range ins.Operands(nil) {
							walk(*op, d+1)
						}
					}
					// a merge chosen by a test: the value also depends on what the test compares (the name looked up by a
					// search loop depends on the offset it searches for)
					if phi, ok := v.(*ssa.Phi); ok {
						for _, pred := range phi.Block().Preds {
							for cur, n := pred, 0; cur != nil && n < 4; n++ {
								if iff, ok := cur.Instrs[len(cur.Instrs)-1].(*ssa.If); ok {
									walk(iff.Cond, d+1)
									break
								}
								if len(cur.Preds) != 1 {
									break
								}
								cur = cur.Preds[0]
							}
						}
					}
				}
				walk(ex.Call.Args[0], 0)
				s.check(uses, "test:names-field", c.InstrPos(ex), "the exception's field name is derived from the id that failed the test", "the required-field exception is built from "+path(ex.Call.Args[0])+", which does not depend on the id that failed the test: the error names another field")
			}
		}
		// dominates success return
		hdr := t.Block().Idom()
		okDom := true
		for _, b := range fn.Blocks {
			ret, ok := b.Instrs[len(b.Instrs)-1].(*ssa.Return)
			if !ok || b == fn.Recover {
				continue
			}
			if definitelyNonNilErr(unspill(ret.Results[1], b), b) {
				continue
			}
			if hdr == nil || !hdr.Dominates(b) {
				okDom = false
			}
		}
		s.check(okDom, "test:dominates-success", c.InstrPos(t), "the success return is reachable only through the required-field check", "a success return bypasses the required-field check")
	}
	// bitset siblings: each method addresses word i/W with mask 1<<(i%W), W the word width, and the three agree
	var words, bits int64
	if o, ok := c.ByPath[pkgReflect].Types.Scope().Lookup("bitset").(*types.TypeName); ok {
		if st, ok := o.Type().Underlying().(*types.Struct); ok && st.NumFields() == 1 {
			if arr, ok := st.Field(0).Type().Underlying().(*types.Array); ok {
				words, bits = arr.Len(), c.Sizes.Sizeof(arr.Elem())*8
			}
		}
	}
	wantOp := map[string]token.Token{"set": token.OR, "unset": token.AND_NOT, "test": token.AND}
	var probs []string
	nFound := 0
	for _, m := range []string{"set", "unset", "test"} {
		f := c.Func(pkgReflect, "(*bitset)."+m)
		if f == nil || len(f.Params) < 2 {
			s.bad("bitset."+m, "-", "not found")
			continue
		}
		nFound++
		bind := map[*ssa.Parameter]string{f.Params[1]: "i"}
		gotW, gotM, gotOp := "", "", token.ILLEGAL
		for _, b := range f.Blocks {
			for _, ins := range b.Instrs {
				bo, ok := ins.(*ssa.BinOp)
				if !ok || bo.Op != token.OR && bo.Op != token.AND_NOT && bo.Op != token.AND {
					continue
				}
				for _, pr := range [][2]ssa.Value{{bo.X, bo.Y}, {bo.Y, bo.X}} {
					ld, ok := pr[0].(*ssa.UnOp)
					if !ok || ld.Op != token.MUL {
						continue
					}
					ia, ok := ld.X.(*ssa.IndexAddr)
					if !ok || !strings.HasSuffix(path(ia.X), ".data") {
						continue
					}
					gotW, gotM, gotOp = symExpr(ia.Index, bind, 0), symExpr(pr[1], bind, 0), bo.Op
				}
			}
		}
		wW, wM := fmt.Sprintf("(i/%d)", bits), fmt.Sprintf("(1<<(i%%%d))", bits)
		if gotW != wW || gotM != wM || gotOp != wantOp[m] {
			probs = append(probs, fmt.Sprintf("%s: word %s mask %s op %s (expected %s, %s, %s)", m, gotW, gotM, gotOp, wW, wM, wantOp[m]))
		}
	}
	if nFound == 3 {
		if words*bits < 65536 {
			probs = append(probs, fmt.Sprintf("%d words x %d bits do not cover 65536 ids", words, bits))
		}
		s.check(len(probs) == 0, "bitset:siblings", "-", fmt.Sprintf("set/unset/test address word i/%d with mask 1<<(i%%%d) on %d words", bits, bits, words),
			"bitset methods disagree or do not cover 65536 ids: "+strings.Join(probs, "; "))
	}
	// requiredFieldIDs appended exactly under Spec == Required
	if ff := c.Func(pkgReflect, "(*structDesc).fromDefsFields"); ff != nil {
		d := ff.Params[0].Name()
		found := false
		for _, b := range ff.Blocks {
			for _, ins := range b.Instrs {
				st, ok := ins.(*ssa.Store)
				if !ok || path(st.Addr) != d+".requiredFieldIDs" {
					continue
				}
				call, ok := st.Val.(*ssa.Call)
				if !ok || !isBuiltin(call, "append") {
					continue
				}
				found = true
				reqv, _ := c.constOf(pkgDefs, "Required")
				var conds []string
				okReq := false
				for _, cd := range domConds(b) {
					bo, isB := cd.V.(*ssa.BinOp)
					if isB && bo.Op == token.EQL && cd.Truth && strings.HasSuffix(path(bo.X), ".Spec") {
						if v, ok := constInt(bo.Y); ok && v == reqv {
							okReq = true
							continue
						}
					}
					// loop conditions (of this loop or of completed earlier loops) are fine
					if isLoopHeader(cd.If.Block()) {
						continue
					}
					conds = append(conds, path(cd.V))
				}
				s.check(okReq && len(conds) == 0, "requiredFieldIDs:append", c.InstrPos(st), "appended exactly when Spec == Required", "requiredFieldIDs is not filled exactly under Spec == defs.Required (extra conditions: "+strings.Join(conds, ",")+")")
			}
		}
		if !found {
			s.bad("requiredFieldIDs:append", c.Pos(ff.Pos()), "requiredFieldIDs is never filled")
		}
	}
	// Go field indices: reflect.Type.Field / reflect.Value.Field take a position in the Go struct, a different index space
	// from the descriptor's (tagged fields sorted by id): the argument must be the counter of a loop below NumField()
	for _, mfn := range c.ModuleFuncs(pkgReflect, pkgDefs) {
		for _, b := range mfn.Blocks {
			for _, ins := range b.Instrs {
				call, ok := ins.(*ssa.Call)
				if !ok || call.Call.Method == nil && call.Call.StaticCallee() == nil {
					continue
				}
				name, pkgp := "", ""
				if call.Call.IsInvoke() {
					name, pkgp = call.Call.Method.Name(), call.Call.Method.Pkg().Path()
				} else if f := call.Call.StaticCallee(); f != nil {
					name, pkgp = f.Name(), fnPkgPath(f)
				}
				if pkgp != "reflect" || name != "Field" {
					continue
				}
				idxv := call.Call.Args[len(call.Call.Args)-1]
				okIdx := false
				if phi, ok := idxv.(*ssa.Phi); ok && isLoopHeader(phi.Block()) {
					for _, cd := range domConds(b) {
						if bo, ok := cd.V.(*ssa.BinOp); ok && bo.Op == token.LSS && cd.Truth && bo.X == ssa.Value(phi) {
							if nf, ok := bo.Y.(*ssa.Call); ok && (nf.Call.IsInvoke() && nf.Call.Method.Name() == "NumField" || nf.Call.StaticCallee() != nil && nf.Call.StaticCallee().Name() == "NumField") {
								okIdx = true
							}
						}
					}
				}
				if _, isConst := idxv.(*ssa.Const); isConst {
					okIdx = true
				}
				s.check(okIdx, "go-field-index:"+shortFn(mfn), c.InstrPos(call), "reflect Field index is a loop counter below NumField()", "reflect Field("+path(idxv)+") is indexed with a value that is not a counter over the Go struct's fields: descriptor indices (tagged fields sorted by id) and Go field positions differ, so the wrong field is named or read")
			}
		}
	}
	return s.obs
}

// regionErrorsWith: everything dominated by b stays inside that region until it returns, and every return there carries the
// error built by the named constructor (the failing edge may compute the message with loops of its own before returning).
func regionErrorsWith(b *ssa.BasicBlock, name string) bool {
	if len(b.Preds) != 1 {
		return false
	}
	nRet := 0
	for _, x := range b.Parent().Blocks {
		if !b.Dominates(x) {
			continue
		}
		for _, sc := range x.Succs {
			if !b.Dominates(sc) {
				return false
			}
		}
		ret, ok := x.Instrs[len(x.Instrs)-1].(*ssa.Return)
		if !ok {
			continue
		}
		if len(ret.Results) == 0 {
			return false
		}
		call, ok := unspill(ret.Results[len(ret.Results)-1], x).(*ssa.Call)
		if !ok || call.Call.StaticCallee() == nil || call.Call.StaticCallee().Name() != name {
			return false
		}
		nRet++
	}
	return nRet > 0
}

func blockCalls(b *ssa.BasicBlock, name string) bool {
	for cur, n := b, 0; cur != nil && n < 6; n++ {
		for _, ins := range cur.Instrs {
			if call, ok := ins.(*ssa.Call); ok {
				if f := call.Call.StaticCallee(); f != nil && f.Name() == name {
					return true
				}
			}
		}
		if _, ok := cur.Instrs[len(cur.Instrs)-1].(*ssa.Jump); ok {
			cur = cur.Succs[0]
		} else {
			break
		}
	}
	return false
}

func loopHeaderOf(b *ssa.BasicBlock) *ssa.BasicBlock {
	for cur := b; cur != nil; cur = cur.Idom() {
		if isLoopHeader(cur) && (cur == b || blockReaches(b, cur)) {
			return cur
		}
	}
	return nil
}

// errorBlocks: blocks that leave the function with a non-nil error.
func errorBlocks(fn *ssa.Function) map[*ssa.BasicBlock]bool {
	out := map[*ssa.BasicBlock]bool{}
	for _, b := range fn.Blocks {
		if leavesFunction(b) && edgeErrors(b) {
			out[b] = true
		}
	}
	return out
}

// reachesAvoidingEither: to reachable from from avoiding block `avoid` and the blocks in skipSet.
func reachesAvoidingEither(from, to, avoid *ssa.BasicBlock, skipSet map[*ssa.BasicBlock]bool) bool {
	seen := map[*ssa.BasicBlock]bool{avoid: true}
	st := append([]*ssa.BasicBlock(nil), from.Succs...)
	for len(st) > 0 {
		x := st[len(st)-1]
		st = st[:len(st)-1]
		if seen[x] || skipSet[x] {
			continue
		}
		seen[x] = true
		if x == to {
			return true
		}
		st = append(st, x.Succs...)
	}
	return false
}

// ---------------------------------------------------------------- skip flags (AST)

func ruleSkipFlags(c *Ctx) []Ob {
	s := newSink(c, "F.skip-flags")
	fn := c.Func(pkgReflect, "(*tField).fromDefsField")
	if fn == nil || len(fn.Params) < 2 {
		s.bad("fromDefsField", "-", "not found")
		return s.obs
	}
	opt, _ := c.constOf(pkgDefs, "Optional")
	tptr, _ := c.constOf(pkgDefs, "T_pointer")
	tbin, _ := c.constOf(pkgDefs, "T_binary")
	ncp, _ := c.constOf(pkgDefs, "NoCopy")
	aOpt, aPtr, aBin := fmt.Sprintf("Spec==%d", opt), fmt.Sprintf("Type.Tag==%d", tptr), fmt.Sprintf("Type.Tag==%d", tbin)
	aCont, aDefNil, aNoCopy0 := "containerTypes[Type.T]", "Default==nil", fmt.Sprintf("(Opts&%d)==0", ncp)
	type verdict struct {
		bad  string
		seen int
	}
	res := map[string]*verdict{"CanSkipEncodeIfNil": {}, "CanSkipIfDefault": {}, "NoCopy": {}, "Spec": {}}
	note := func(flag string, a map[string]bool, p simPath, got tri, want bool) {
		v := res[flag]
		v.seen++
		if v.bad != "" {
			return
		}
		switch {
		case got == triU:
			for u := range p.unknown {
				if strings.HasPrefix(u, flag+" ") {
					v.bad = u + ", which is not part of the stated condition"
				}
			}
			if v.bad == "" {
				v.bad = "depends on a value that is not part of the stated condition"
			}
		case (got == triT) != want:
			v.bad = fmt.Sprintf("with %s the function leaves %s = %v on the path returning at %s, the stated condition gives %v", assignStr(a), flag, got, c.InstrPos(p.ret), want)
		}
	}
	flagOf := func(p simPath, name string) tri {
		if t, ok := p.flags[name]; ok {
			return t
		}
		return triF // zero value of a fresh field
	}
	// the kind of the field is enumerated by value (every declared kind and one undeclared code), so the container test may be
	// a table lookup, a comparison chain or a predicate function; which kinds are containers is the protocol's statement
	kk, kerr := c.kinds()
	if kerr != nil {
		s.undec("truth-table", c.Pos(fn.Pos()), kerr.Error())
		return s.obs
	}
	tvals := []int64{0xc8}
	for v := range kk.name {
		tvals = append(tvals, v)
	}
	sort.Slice(tvals, func(i, j int) bool { return tvals[i] < tvals[j] })
	paths, over := 0, false
	for _, tv := range tvals {
		tv := tv
		isCont := tv == kk.byName["MAP"] || tv == kk.byName["LIST"] || tv == kk.byName["SET"]
		truthTableExtra = func(key string) tri {
			if key == aCont {
				if tab, _, ok := c.tableOf(pkgReflect, "containerTypes"); ok {
					cv, present := tab[tv]
					return triOf(present && cv.Kind() == constant.Bool && constant.BoolVal(cv))
				}
				return triU
			}
			if strings.HasPrefix(key, "Type.T==") {
				var n int64
				if _, err := fmt.Sscan(key[len("Type.T=="):], &n); err == nil {
					return triOf(n == tv)
				}
			}
			return triU
		}
		p1, o1 := truthTable(fn, fn.Params[0], []string{aOpt, aPtr, aBin, aDefNil, aNoCopy0},
			func(a map[string]bool) bool { return !(a[aPtr] && a[aBin]) },
			func(a0 map[string]bool, p simPath) {
				a := map[string]bool{aCont: isCont}
				for k, v := range a0 {
					a[k] = v
				}
				note("CanSkipEncodeIfNil", a, p, flagOf(p, "CanSkipEncodeIfNil"), a[aOpt] && (a[aPtr] || a[aBin] || a[aCont]))
				hasDefault := p.stored["Default"] && !a[aDefNil]
				note("CanSkipIfDefault", a, p, flagOf(p, "CanSkipIfDefault"), a[aOpt] && !a[aPtr] && hasDefault)
				note("NoCopy", a, p, flagOf(p, "NoCopy"), !a[aNoCopy0])
				res["Spec"].seen++
				if !p.stored["Spec"] && res["Spec"].bad == "" {
					res["Spec"].bad = "Spec is not assigned on the path returning at " + c.InstrPos(p.ret)
				}
			})
		truthTableExtra = nil
		paths += p1
		over = over || o1
	}
	if over || paths == 0 {
		s.undec("truth-table", c.Pos(fn.Pos()), fmt.Sprintf("fromDefsField could not be evaluated over its condition atoms (%d paths, bound exceeded: %v)", paths, over))
	}
	// Spec is copied unchanged from the resolved field
	for _, b := range fn.Blocks {
		for _, ins := range b.Instrs {
			if st, ok := ins.(*ssa.Store); ok {
				if recv, _, f, ok := fieldOf(st.Addr); ok && f == "Spec" && recv == ssa.Value(fn.Params[0]) {
					if pv := strings.TrimPrefix(path(st.Val), "&"); !(strings.HasPrefix(pv, fn.Params[1].Name()+".") && strings.HasSuffix(pv, ".Spec")) && res["Spec"].bad == "" {
						res["Spec"].bad = "Spec is not copied unchanged from the resolved field (stores " + pv + " at " + c.InstrPos(st) + ")"
					}
				}
			}
		}
	}
	texts := map[string][2]string{
		"CanSkipEncodeIfNil": {"Optional && (T_pointer || T_binary || containerTypes[T]) on every path, for all 24 consistent assignments of the atoms", "CanSkipEncodeIfNil is not `Spec == Optional && (Tag == T_pointer || Tag == T_binary || containerTypes[T])`: fewer representations change which fields are omitted, more make the nil test read a non-pointer word: "},
		"CanSkipIfDefault":   {"Optional && Tag != T_pointer && Default != nil on every path", "CanSkipIfDefault is not `Spec == Optional && Tag != T_pointer && Default != nil`: "},
		"NoCopy":             {"NoCopy is the resolver's option bit", "NoCopy is not exactly (x.Opts & defs.NoCopy) != 0 (the resolver already restricted the option to string/binary including their optional-pointer form): "},
		"Spec":               {"requiredness copied from the resolver", ""},
	}
	for _, flag := range []string{"CanSkipEncodeIfNil", "CanSkipIfDefault", "NoCopy", "Spec"} {
		v := res[flag]
		s.check(v.bad == "" && v.seen > 0, flag, c.Pos(fn.Pos()), fmt.Sprintf("%s (%d path evaluations)", texts[flag][0], v.seen), texts[flag][1]+v.bad)
	}
	// declared defaults exist only for types that have a default initialiser: the resolver records them (mem = val.Elem())
	// strictly under the DefaultInitializer type assertion
	if fn := c.SSA[pkgDefs].Func("DoResolveFields"); fn != nil {
		found, good := false, true
		wrongIdx := ""
		for _, b := range fn.Blocks {
			for _, ins := range b.Instrs {
				call, ok := ins.(*ssa.Call)
				if !ok || call.Call.StaticCallee() == nil || call.Call.StaticCallee().Name() != "InitDefault" && !(call.Call.IsInvoke()) {
					continue
				}
			}
		}
		// find the value that FieldByIndex is called on (the defaults holder) and where it is defined
		for _, b := range fn.Blocks {
			for _, ins := range b.Instrs {
				call, ok := ins.(*ssa.Call)
				if !ok || call.Call.StaticCallee() == nil || call.Call.StaticCallee().Name() != "FieldByIndex" {
					continue
				}
				found = true
				// the default belongs to the field being described: it is looked up with that field's own reflect index
				if len(call.Call.Args) >= 2 {
					ap := path(call.Call.Args[1])
					if !strings.HasSuffix(ap, ".Index") {
						good = false
						wrongIdx = "the default value is looked up with " + ap + " instead of the Index of the struct field being described (defaults would be attached to other fields when declaration order and id order differ); "
					}
				}
				// receiver: phi/alloc holding `mem`; every non-zero definition must be under the ok edge of the type assertion
				var defs []ssa.Value
				recv := call.Call.Args[0]
				var collect func(v ssa.Value, seen map[ssa.Value]bool)
				collect = func(v ssa.Value, seen map[ssa.Value]bool) {
					if seen[v] {
						return
					}
					seen[v] = true
					switch x := v.(type) {
					case *ssa.Phi:
						for _, e := range x.Edges {
							collect(e, seen)
						}
					case *ssa.UnOp:
						if al, ok := x.X.(*ssa.Alloc); ok {
							for _, r := range referrers(al) {
								if st, ok := r.(*ssa.Store); ok && st.Addr == ssa.Value(al) {
									collect(st.Val, seen)
								}
							}
							return
						}
						defs = append(defs, v)
					default:
						defs = append(defs, v)
					}
				}
				collect(recv, map[ssa.Value]bool{})
				for _, d := range defs {
					dc, ok := d.(*ssa.Call)
					if !ok || dc.Call.StaticCallee() == nil || dc.Call.StaticCallee().Name() != "Elem" {
						continue // the zero Value
					}
					under := false
					for _, cd := range domConds(dc.Block()) {
						if ex, ok := cd.V.(*ssa.Extract); ok && cd.Truth {
							if ta, ok := ex.Tuple.(*ssa.TypeAssert); ok && ta.CommaOk && strings.HasSuffix(ta.AssertedType.String(), "DefaultInitializer") {
								under = true
							}
						}
					}
					if !under {
						good = false
					}
				}
			}
		}
		s.check(found && good, "defaults-only-with-initialiser", c.Pos(fn.Pos()), "default values are recorded only for types implementing the default initialiser", wrongIdx+"the resolver records default values for types without a default initialiser (or not from the described field): zero-valued optional fields of such types would be dropped by the encoder")
	}
	return s.obs
}

// ---------------------------------------------------------------- InitDefault

func ruleInitDefault(c *Ctx) []Ob {
	s := newSink(c, "F.init-default")
	k, err := c.kinds()
	if err != nil {
		s.undec("kinds", "-", err.Error())
		return s.obs
	}
	initFn := c.initDefaultFn()
	dec := c.decodeLoopFn()
	if dec == nil {
		s.bad("roles", "-", "struct decoder not found")
		return s.obs
	}
	if initFn == nil {
		s.bad("struct-case:init", c.Pos(dec.Pos()), "InitDefault is never invoked in the decode closure: nested structs would not get their declared defaults")
		return s.obs
	}
	// the struct case lives in the value decoder that calls the struct decoder; the init sequence may be in a helper of it
	dt := initFn
	for _, vd := range c.valueDecoders() {
		if fnHasCall(vd, func(ci ssa.CallInstruction) bool { return ci.Common().StaticCallee() == dec }) {
			dt = vd
		}
	}
	var pparam ssa.Value
	for _, prm := range dt.Params {
		if isUnsafePointer(prm.Type()) {
			pparam = prm
		}
	}
	// struct case: returns
	var tail *ssa.Call
	nRet := 0
	hasKindSwitch := false
	for _, b := range dt.Blocks {
		if cs, _ := caseSet(b, ".T"); cs != nil {
			hasKindSwitch = true
		}
	}
	for _, b := range dt.Blocks {
		if hasKindSwitch {
			cs, _ := caseSet(b, ".T")
			if len(cs) != 1 || cs[0] != k.byName["STRUCT"] {
				continue
			}
		}
		for _, ins := range b.Instrs {
			switch x := ins.(type) {
			case *ssa.Call:
				if x.Call.StaticCallee() == dec {
					tail = x
				}
			case *ssa.Return:
				nRet++
				if len(x.Results) < 2 {
					continue
				}
				ev := x.Results[1]
				if definitelyNonNilErr(ev, b) {
					continue
				}
				ex, ok := x.Results[0].(*ssa.Extract)
				good := false
				if ok {
					if call, ok := ex.Tuple.(*ssa.Call); ok && call.Call.StaticCallee() == dec {
						good = true
					}
				}
				s.check(good, "struct-case:return", c.InstrPos(x), "the struct case succeeds only through d.Decode", "the struct case of decodeType has a success return that is not the nested Decode: the nested struct would skip its InitDefault (and its decode)")
			}
		}
	}
	if tail == nil {
		s.bad("struct-case:decode", c.Pos(dt.Pos()), "the struct case does not call d.Decode")
		return s.obs
	}
	// args of the nested decode: p and t.Sd
	okArgs := false
	for _, a := range tail.Call.Args {
		if a == pparam {
			okArgs = true
		}
	}
	s.check(okArgs, "struct-case:decode-args", c.InstrPos(tail), "nested Decode receives the same destination", "nested Decode is not given decodeType's destination pointer")
	// InitDefault invoke on the hasInitFunc edge, on the same p, before the Decode
	var inv *ssa.Call
	var upd *ssa.Call
	var hcall *ssa.Call // call of the init helper in the struct case, when the sequence is not inline
	ipparam := pparam
	if initFn != dt {
		for _, b := range dt.Blocks {
			for _, ins := range b.Instrs {
				if call, ok := ins.(*ssa.Call); ok && call.Call.StaticCallee() == initFn {
					hcall = call
				}
			}
		}
		ipparam = nil
		for _, prm := range initFn.Params {
			if isUnsafePointer(prm.Type()) {
				ipparam = prm
			}
		}
	}
	for _, b := range initFn.Blocks {
		for _, ins := range b.Instrs {
			call, ok := ins.(*ssa.Call)
			if !ok {
				continue
			}
			if call.Call.IsInvoke() && call.Call.Method.Name() == "InitDefault" {
				inv = call
			}
			if f := call.Call.StaticCallee(); f != nil && f.Name() == "updateIface" {
				upd = call
			}
		}
	}
	// updateIface written out: the data word (second word) of the local interface copy is set through a two-word struct cast
	var updSt *ssa.Store
	if upd == nil {
		for _, b := range initFn.Blocks {
			for _, ins := range b.Instrs {
				st, ok := ins.(*ssa.Store)
				if !ok || !isUnsafePointer(st.Val.Type()) {
					continue
				}
				fa, ok := st.Addr.(*ssa.FieldAddr)
				if !ok || fa.Field != 1 {
					continue
				}
				pt, ok := fa.X.Type().Underlying().(*types.Pointer)
				if !ok {
					continue
				}
				stt, ok := pt.Elem().Underlying().(*types.Struct)
				if !ok || stt.NumFields() != 2 || c.Sizes.Sizeof(stt.Field(0).Type()) != c.Sizes.Sizeof(stt.Field(1).Type()) || !isUnsafePointer(stt.Field(1).Type()) {
					continue
				}
				cv, ok := fa.X.(*ssa.Convert)
				if !ok {
					continue
				}
				if cv2, ok := cv.X.(*ssa.Convert); ok {
					if _, isAl := cv2.X.(*ssa.Alloc); isAl {
						updSt = st
					}
				}
			}
		}
	}
	if updSt != nil && inv != nil && (initFn == dt || hcall != nil) {
		under := false
		for _, cd := range domConds(inv.Block()) {
			if _, _, f, ok := fieldOf(cd.V); ok && f == "hasInitFunc" && cd.Truth {
				under = true
			}
		}
		al := updSt.Addr.(*ssa.FieldAddr).X.(*ssa.Convert).X.(*ssa.Convert).X.(*ssa.Alloc)
		localCopy, sameP := false, updSt.Val == ssa.Value(ipparam)
		if hcall != nil {
			passed := false
			for _, a := range hcall.Call.Args {
				if a == pparam {
					passed = true
				}
			}
			sameP = sameP && passed
		}
		for _, r := range referrers(al) {
			if st, ok := r.(*ssa.Store); ok && st.Addr == ssa.Value(al) && strings.HasSuffix(path(st.Val), ".initFunc") {
				localCopy = true
			}
		}
		invOnCopy := false
		if u, ok := inv.Call.Value.(*ssa.UnOp); ok && u.X == ssa.Value(al) {
			invOnCopy = true
		}
		order := instrDominates(updSt, inv) && (inv.Block() == tail.Block() || blockReaches(inv.Block(), tail.Block()))
		if hcall != nil {
			order = instrDominates(updSt, inv) && instrDominates(hcall, tail)
		}
		s.check(under && localCopy && sameP && invOnCopy && order, "struct-case:init", c.InstrPos(inv), "f := t.Sd.initFunc; data word of f = p; f.InitDefault() under hasInitFunc, before Decode",
			fmt.Sprintf("InitDefault sequence is wrong: under hasInitFunc %v, local copy of initFunc %v, redirected to p %v, invoked on the copy %v, before the decode %v (a shared interface value must not be rewritten: concurrent decodes would initialise each other's objects)", under, localCopy, sameP, invOnCopy, order))
		if ib := inv.Block(); len(ib.Preds) == 1 && hcall == nil {
			g := ib.Preds[0]
			s.check(g.Dominates(tail.Block()), "struct-case:both-edges", c.InstrPos(tail), "the nested decode runs with and without an init function", "the nested decode is skipped on one edge of hasInitFunc")
		}
	} else if inv == nil || upd == nil || initFn != dt && hcall == nil {
		s.bad("struct-case:init", c.InstrPos(tail), "InitDefault is not invoked (through updateIface) before the nested struct is decoded: absent fields would not read as their declared defaults")
	} else {
		under := false
		for _, cd := range domConds(inv.Block()) {
			if _, _, f, ok := fieldOf(cd.V); ok && f == "hasInitFunc" && cd.Truth {
				under = true
			}
		}
		// updateIface(&localcopy, p): first arg address of a local alloc that holds a copy of t.Sd.initFunc; InitDefault invoked on that copy
		localCopy, sameP := false, len(upd.Call.Args) == 2 && upd.Call.Args[1] == ipparam
		if hcall != nil {
			passed := false
			for _, a := range hcall.Call.Args {
				if a == pparam {
					passed = true
				}
			}
			sameP = sameP && passed
		}
		var al *ssa.Alloc
		if cv, ok := upd.Call.Args[0].(*ssa.Convert); ok {
			al, _ = cv.X.(*ssa.Alloc)
		}
		if al != nil {
			for _, r := range referrers(al) {
				if st, ok := r.(*ssa.Store); ok && st.Addr == ssa.Value(al) && strings.HasSuffix(path(st.Val), ".initFunc") {
					localCopy = true
				}
			}
		}
		invOnCopy := false
		if u, ok := inv.Call.Value.(*ssa.UnOp); ok && al != nil && u.X == ssa.Value(al) {
			invOnCopy = true
		}
		order := instrDominates(upd, inv) && (inv.Block() == tail.Block() || blockReaches(inv.Block(), tail.Block()))
		if hcall != nil {
			order = instrDominates(upd, inv) && instrDominates(hcall, tail)
		}
		s.check(under && localCopy && sameP && invOnCopy && order, "struct-case:init", c.InstrPos(inv), "f := t.Sd.initFunc; updateIface(&f, p); f.InitDefault() under hasInitFunc, before Decode",
			fmt.Sprintf("InitDefault sequence is wrong: under hasInitFunc %v, local copy of initFunc %v, redirected to p %v, invoked on the copy %v, before the decode %v (a shared interface value must not be rewritten: concurrent decodes would initialise each other's objects)", under, localCopy, sameP, invOnCopy, order))
		// the decode is reached from both edges of hasInitFunc
		if ib := inv.Block(); len(ib.Preds) == 1 && hcall == nil {
			g := ib.Preds[0]
			s.check(g.Dominates(tail.Block()) && !ib.Dominates(tail.Block()) || ib == tail.Block() && false || g.Dominates(tail.Block()), "struct-case:both-edges", c.InstrPos(tail), "the nested decode runs with and without an init function", "the nested decode is skipped on one edge of hasInitFunc")
		}
	}
	// whether a struct type declares defaults is probed on a *pointer* to it (InitDefault has a pointer receiver):
	// the value asserted to the initialiser interface comes from reflect.New(t).Interface()
	nProbe := 0
	for _, mf := range c.ModuleFuncs(pkgReflect) {
		for _, b := range mf.Blocks {
			for _, ins := range b.Instrs {
				ta, ok := ins.(*ssa.TypeAssert)
				if !ok || !strings.HasSuffix(ta.AssertedType.String(), "iInitDefault") {
					continue
				}
				nProbe++
				fromNew := false
				if ic, ok := ta.X.(*ssa.Call); ok && ic.Call.StaticCallee() != nil && ic.Call.StaticCallee().Name() == "Interface" && len(ic.Call.Args) == 1 {
					v := ic.Call.Args[0]
					if u, ok := v.(*ssa.UnOp); ok { // spilled reflect.Value
						if al, ok := u.X.(*ssa.Alloc); ok {
							for _, r := range referrers(al) {
								if st, ok := r.(*ssa.Store); ok && st.Addr == ssa.Value(al) {
									v = st.Val
								}
							}
						}
					}
					if nc, ok := v.(*ssa.Call); ok && nc.Call.StaticCallee() != nil && nc.Call.StaticCallee().Name() == "New" && fnPkgPath(nc.Call.StaticCallee()) == "reflect" {
						fromNew = true
					}
				}
				s.check(fromNew, "probe:"+shortFn(mf), c.InstrPos(ta), "the initialiser interface is probed on reflect.New(t).Interface()", "the default-initialiser probe is not made on a pointer obtained from reflect.New: InitDefault has a pointer receiver, so a probe on a struct value (reflect.Zero, Elem) never finds it and decoder-allocated nested structs are no longer default-initialised")
			}
		}
	}
	if nProbe == 0 {
		s.bad("probe", "-", "no type assertion to the default-initialiser interface: nested structs would never be default-initialised")
	}
	// top level
	if root := c.SSA[pkgReflect].Func("Decode"); root != nil {
		var call *ssa.Call
		clean := true
		_ = dt
		for _, b := range root.Blocks {
			for _, ins := range b.Instrs {
				x, ok := ins.(*ssa.Call)
				if !ok {
					continue
				}
				if x.Call.IsInvoke() && x.Call.Method.Name() == "InitDefault" {
					clean = false
				}
				if f := x.Call.StaticCallee(); f != nil {
					if f.Name() == "updateIface" {
						clean = false
					}
					for _, a := range x.Call.Args {
						if isUnsafePointer(a.Type()) && c.InModule(f) {
							call = x
						}
					}
				}
			}
		}
		good := call != nil && call.Call.StaticCallee() == dec && clean
		what := "-"
		if call != nil {
			what = calleeShort(call)
		}
		s.check(good, "top-level", c.Pos(root.Pos()), "reflect.Decode hands the user's pointer straight to (*tDecoder).Decode", "reflect.Decode passes the user's object to "+what+" / calls InitDefault: the top-level destination would be re-initialised and fields absent from the message overwritten")
	}
	// every other call of the struct decoder is the tail call of the struct case: a container fast path that decodes its
	// struct elements by calling the struct decoder directly gives them no declared defaults
	entry := c.Func(pkgReflect, "Decode")
	for _, fn := range c.ModuleFuncs(pkgReflect) {
		if fn == entry {
			continue
		}
		for _, b := range fn.Blocks {
			for _, ins := range b.Instrs {
				call, ok := ins.(*ssa.Call)
				if !ok || call.Call.StaticCallee() != dec || call == tail {
					continue
				}
				// further calls inside the struct case itself (both edges of hasInitFunc written as two calls) are judged above
				if fn == dt {
					if cs, _ := caseSet(b, ".T"); len(cs) == 1 && cs[0] == k.byName["STRUCT"] {
						continue
					}
				}
				s.bad(shortFn(fn)+":nested-decode", c.InstrPos(call), "the struct decoder is called for a nested struct outside the struct case of the value decoder: these structs (elements of a list, set or map, say) do not get their declared defaults before they are decoded, while struct fields do")
			}
		}
	}
	return s.obs
}

// ---------------------------------------------------------------- NARROW-OVERFLOW

func ruleNarrowOverflow(c *Ctx) []Ob {
	s := newSink(c, "NARROW-OVERFLOW")
	n := 0
	for _, fn := range c.ModuleFuncs(pkgReflect, pkgDefs) {
		if fn.Name() == "testhack" {
			continue
		}
		for _, b := range fn.Blocks {
			for _, ins := range b.Instrs {
				bo, ok := ins.(*ssa.BinOp)
				if !ok || !isInt(bo.Type()) || c.Sizes.Sizeof(bo.Type()) >= 4 {
					continue
				}
				switch bo.Op {
				case token.ADD, token.SUB, token.MUL, token.SHL:
				default:
					continue
				}
				// sinks
				for _, r := range referrers(bo) {
					sink := ""
					switch x := r.(type) {
					case *ssa.MakeSlice:
						sink = "make size"
					case *ssa.IndexAddr:
						if x.Index == ssa.Value(bo) {
							sink = "index"
						}
					case *ssa.Slice:
						sink = "slice bound"
					case *ssa.Convert:
						if isInt(x.Type()) && c.Sizes.Sizeof(x.Type()) > c.Sizes.Sizeof(bo.Type()) {
							sink = "widening conversion"
						}
					case *ssa.Call:
						if f := x.Call.StaticCallee(); f != nil && (strings.Contains(f.Name(), "alloc") || strings.Contains(f.Name(), "Malloc")) {
							sink = "allocation size"
						}
					}
					if sink != "" {
						n++
						s.bad(shortFn(fn)+":"+sink, c.InstrPos(bo), fmt.Sprintf("%d-bit arithmetic (%s) feeds a %s: it wraps around at the type's width (e.g. id 65535 + 1 = 0): %s", c.Sizes.Sizeof(bo.Type())*8, bo.Op, sink, c.srcLine(bo.Pos())))
					}
				}
			}
		}
	}
	// positions and counts (a loop counter, a range index, a length) narrowed below 32 bits and kept in descriptor state or a
	// table: they wrap for large structs (an index table of int16 turns positions above 32767 negative, i.e. "no such field")
	isCount := func(v ssa.Value) bool {
		seen := map[ssa.Value]bool{}
		var walk func(v ssa.Value, d int) bool
		walk = func(v ssa.Value, d int) bool {
			if v == nil || seen[v] || d > 6 {
				return false
			}
			seen[v] = true
			switch x := v.(type) {
			case *ssa.Phi:
				// a counter: a phi with a back edge that adds to itself
				for _, e := range x.Edges {
					if bo, ok := e.(*ssa.BinOp); ok && bo.Op == token.ADD && (bo.X == ssa.Value(x) || bo.Y == ssa.Value(x)) {
						return true
					}
				}
				for _, e := range x.Edges {
					if walk(e, d+1) {
						return true
					}
				}
			case *ssa.Call:
				return isBuiltin(x, "len") || isBuiltin(x, "cap")
			case *ssa.Extract:
				if _, ok := x.Tuple.(*ssa.Next); ok && x.Index == 1 {
					return true // range index
				}
			case *ssa.BinOp:
				return walk(x.X, d+1) || walk(x.Y, d+1)
			case *ssa.Convert:
				return walk(x.X, d+1)
			}
			return false
		}
		return walk(v, 0)
	}
	for _, fn := range c.ModuleFuncs(pkgReflect) {
		if fn.Name() == "testhack" {
			continue
		}
		for _, b := range fn.Blocks {
			for _, ins := range b.Instrs {
				cv, ok := ins.(*ssa.Convert)
				if !ok || !isInt(cv.Type()) || !isInt(cv.X.Type()) || c.Sizes.Sizeof(cv.Type()) >= 4 || c.Sizes.Sizeof(cv.X.Type()) <= c.Sizes.Sizeof(cv.Type()) {
					continue
				}
				if !isCount(cv.X) {
					continue
				}
				for _, r := range referrers(cv) {
					st, ok := r.(*ssa.Store)
					if !ok || st.Val != ssa.Value(cv) {
						continue
					}
					kept := false
					switch a := st.Addr.(type) {
					case *ssa.IndexAddr:
						// an element of a table that hangs off a descriptor (d.fieldIdx[...]); bytes written into an output
						// buffer are emissions, not kept state
						if u, ok := a.X.(*ssa.UnOp); ok && u.Op == token.MUL {
							if fa, ok := u.X.(*ssa.FieldAddr); ok {
								switch namedOf(fa.X.Type()) {
								case "structDesc", "tField", "tType":
									kept = true
								}
							}
						}
					case *ssa.FieldAddr:
						switch namedOf(a.X.Type()) {
						case "structDesc", "tField", "tType":
							kept = !localAlloc(a.X) || true
						}
					}
					if kept {
						n++
						s.bad(shortFn(fn)+":narrow-count", c.InstrPos(cv), fmt.Sprintf("a position or count is narrowed to %d bits and stored (%s): beyond the type's range it wraps (a negative position reads as no such field), so large structs lose fields silently", c.Sizes.Sizeof(cv.Type())*8, c.srcLine(cv.Pos())))
					}
				}
			}
		}
	}
	s.ok("scan", "-", fmt.Sprintf("sub-word arithmetic and narrowed counts scanned in the codec packages; %d results feed a size, index, widening conversion or table", n))
	return s.obs
}

func init() {
	register(&Rule{ID: "F.map-decode", Min: 5,
		Text: "map decoding keeps key and value apart: values described by t.K are decoded into the key slot (tmp.kp or the key batch allocated from t.K.V), values described by t.V into the value slot; the pooled slots are built from t.K.RT / t.V.RT with kp/vp pointing at k/v; SetMapIndex(k, v) runs once per entry after both decodes succeeded, on the map made with MakeMapWithSize(t.RT, l); the map is published into the destination only when no entry failed",
		Run:  ruleMapDecode})
	register(&Rule{ID: "X.exception-kinds", Min: 2,
		Text: "the protocol exceptions carry the kinds the properties name: depth limit = DEPTH_LIMIT, negative length = NEGATIVE_SIZE, length/count exceeding the input = SIZE_LIMIT, missing required field and element type mismatch = INVALID_DATA",
		Run:  ruleExceptionKinds})
}

func ruleMapDecode(c *Ctx) []Ob {
	s := newSink(c, "F.map-decode")
	dt := c.mapDecodeFn()
	if dt == nil || descParam(dt) == nil {
		s.bad("roles", "-", "map decoder (SetMapIndex) not found in the decode closure")
		return s.obs
	}
	t := descParam(dt).Name()
	closure := c.decodeClosure()
	var setIdx *ssa.Call
	var decodes []*ssa.Call
	for _, b := range dt.Blocks {
		for _, ins := range b.Instrs {
			call, ok := ins.(*ssa.Call)
			if !ok || call.Call.StaticCallee() == nil {
				continue
			}
			cf := call.Call.StaticCallee()
			if cf.Name() == "SetMapIndex" && fnPkgPath(cf) == "reflect" {
				setIdx = call
			}
		}
	}
	if setIdx == nil {
		s.bad("SetMapIndex", c.Pos(dt.Pos()), "map entries are never inserted")
		return s.obs
	}
	// decodes in the entry loop: those inside the loop containing SetMapIndex
	hdr := loopHeaderOf(setIdx.Block())
	for _, b := range dt.Blocks {
		if hdr == nil || !(hdr.Dominates(b) && blockReaches(b, hdr)) {
			continue
		}
		for _, ins := range b.Instrs {
			call, ok := ins.(*ssa.Call)
			if !ok || call.Call.StaticCallee() == nil {
				continue
			}
			if isValueDecode(c, call.Call.StaticCallee(), closure) {
				decodes = append(decodes, call)
			}
		}
	}
	sides := map[string]bool{}
	for _, call := range decodes {
		// which descriptor
		side := ""
		for _, a := range call.Call.Args {
			p := path(a)
			switch {
			case p == t+".K" || p == t+".K.T":
				side = "K"
			case p == t+".V" || p == t+".V.T":
				side = "V"
			}
		}
		var ptr ssa.Value
		for _, a := range call.Call.Args {
			if isUnsafePointer(a.Type()) {
				ptr = a
			}
		}
		if side == "" || ptr == nil {
			s.undec("entry-decode", c.InstrPos(call), "decode call in the entry loop whose descriptor is neither t.K nor t.V")
			continue
		}
		sides[side] = true
		wantSlot := map[string]string{"K": "pool-slot:kp", "V": "pool-slot:vp"}[side]
		good := true
		var why []string
		for _, cl := range destClasses(ptr) {
			switch {
			case cl == wantSlot:
			case cl == "malloc":
				// batch allocated from the same side's pointee descriptor
				cls, desc := storeValueClass(ptr)
				if cls == "batch" && desc != t+"."+side+".V" {
					good = false
					why = append(why, "batch allocated from "+desc)
				}
			case strings.HasPrefix(cl, "pool-slot:"):
				good = false
				why = append(why, "decoded into the other slot ("+cl+")")
			default:
				good = false
				why = append(why, "destination "+cl)
			}
		}
		s.check(good, "entry-decode:"+side, c.InstrPos(call), "t."+side+" decoded into its own slot", "a map "+map[string]string{"K": "key", "V": "value"}[side]+" is decoded into the wrong destination ("+strings.Join(why, ", ")+"): keys and values would be exchanged or overwrite each other")
	}
	s.check(sides["K"] && sides["V"], "entry-decode:both", c.InstrPos(setIdx), "both key and value are decoded per entry", "the entry loop does not decode both a key and a value")
	// SetMapIndex(m, k, v)
	args := setIdx.Call.Args
	okArgs := len(args) == 3
	if okArgs {
		_, t1, f1, ok1 := fieldOf(args[1])
		_, t2, f2, ok2 := fieldOf(args[2])
		okArgs = ok1 && ok2 && t1 == "tmpMapVars" && t2 == "tmpMapVars" && f1 == "k" && f2 == "v"
		if mk, ok := args[0].(*ssa.Call); !ok || mk.Call.StaticCallee() == nil || mk.Call.StaticCallee().Name() != "MakeMapWithSize" || path(mk.Call.Args[0]) != t+".RT" {
			okArgs = false
		}
	}
	s.check(okArgs, "SetMapIndex:args", c.InstrPos(setIdx), "m.SetMapIndex(tmp.k, tmp.v) on MakeMapWithSize(t.RT, l)", "SetMapIndex is not called as m.SetMapIndex(k, v) with the pooled key and value on the map made from t.RT")
	// after both decodes succeeded: every decode call dominates it or is on an exclusive alternative, and error edges leave the loop
	okAfter := true
	for _, call := range decodes {
		if !(call.Block().Dominates(setIdx.Block()) || reachesOnlyVia(call.Block(), setIdx.Block())) {
			okAfter = false
		}
	}
	s.check(okAfter, "SetMapIndex:after-decodes", c.InstrPos(setIdx), "entry inserted after key and value were decoded", "the entry is inserted before its key or value was decoded")
	// publish only when err == nil
	for _, b := range dt.Blocks {
		for _, ins := range b.Instrs {
			st, ok := ins.(*ssa.Store)
			if !ok {
				continue
			}
			if cls, _ := storeValueClass(st.Val); cls != "map" {
				continue
			}
			good := false
			for _, cd := range domConds(b) {
				if bo, ok := cd.V.(*ssa.BinOp); ok && isErrorType(bo.X.Type()) && isNilConst(bo.Y) {
					if bo.Op == token.EQL && cd.Truth || bo.Op == token.NEQ && !cd.Truth {
						good = true
					}
				}
			}
			if !good {
				// early-return style: every failing entry decode leaves the function, so the store is reached only on success
				good = true
				errVals := map[ssa.Value]bool{}
				for _, call := range decodes {
					for _, r := range referrers(call) {
						if ex, ok := r.(*ssa.Extract); ok && isErrorType(ex.Type()) {
							errVals[ex] = true
						}
					}
				}
				for changed := true; changed; {
					changed = false
					for v := range errVals {
						for _, r := range referrers(v) {
							if p, ok := r.(*ssa.Phi); ok && !errVals[p] {
								errVals[p] = true
								changed = true
							}
						}
					}
				}
				tested := 0
				for v := range errVals {
					for _, rr := range referrers(v) {
						bo, ok := rr.(*ssa.BinOp)
						if !ok || !isNilConst(bo.Y) {
							continue
						}
						for _, r3 := range referrers(bo) {
							iff, ok := r3.(*ssa.If)
							if !ok {
								continue
							}
							tested++
							errIdx := 0
							if bo.Op == token.EQL {
								errIdx = 1
							}
							eb := iff.Block().Succs[errIdx]
							if eb == b || blockReaches(eb, b) {
								good = false
							}
						}
					}
				}
				if tested == 0 {
					good = false
				}
			}
			s.check(good, "publish-on-success", c.InstrPos(st), "the map is stored into the destination only when every entry decoded", "a partially decoded map is stored into the destination")
		}
	}
	// pool constructor
	if init := c.SSA[pkgReflect].Func("initOrGetMapTmpVarsPool"); init != nil {
		okNew := false
		// the constructor is whichever function fills a tmpMapVars (the pool's New closure or a helper it calls)
		var ctors []*ssa.Function
		for _, mf := range c.ModuleFuncs(pkgReflect) {
			cands := append([]*ssa.Function{mf}, mf.AnonFuncs...)
			for _, cf := range cands {
				fills := false
				for _, b := range cf.Blocks {
					for _, ins := range b.Instrs {
						if st, ok := ins.(*ssa.Store); ok {
							if _, typ, _, ok := fieldOf(st.Addr); ok && typ == "tmpMapVars" {
								fills = true
							}
						}
					}
				}
				if fills {
					ctors = append(ctors, cf)
				}
			}
		}
		for _, af := range ctors {
			got := map[string]string{}
			for _, b := range af.Blocks {
				for _, ins := range b.Instrs {
					st, ok := ins.(*ssa.Store)
					if !ok {
						continue
					}
					_, typ, f, ok := fieldOf(st.Addr)
					if !ok || typ != "tmpMapVars" {
						continue
					}
					// origin: reflect.New(<t>.K.RT / V.RT)
					v := st.Val
					for i := 0; i < 6; i++ {
						call, ok := v.(*ssa.Call)
						if !ok || call.Call.StaticCallee() == nil {
							break
						}
						if call.Call.StaticCallee().Name() == "New" && fnPkgPath(call.Call.StaticCallee()) == "reflect" {
							got[f] = path(call.Call.Args[0])
							break
						}
						if len(call.Call.Args) == 0 {
							break
						}
						v = call.Call.Args[0]
						if u, ok := v.(*ssa.UnOp); ok {
							// load of m.k
							if _, _, f2, ok := fieldOf(u); ok {
								if o, ok := got[f2]; ok {
									got[f] = o
								}
							}
							break
						}
					}
				}
			}
			kOK := strings.HasSuffix(got["k"], ".K.RT") && strings.HasSuffix(got["kp"], ".K.RT")
			vOK := strings.HasSuffix(got["v"], ".V.RT") && strings.HasSuffix(got["vp"], ".V.RT")
			if kOK && vOK {
				okNew = true
			}
		}
		s.check(okNew, "tmp-slots", c.Pos(init.Pos()), "k/kp built from t.K.RT, v/vp from t.V.RT", "the pooled key/value slots are not built from the key type and the value type respectively")
	}
	return s.obs
}

// isElemDecodeHelper: a helper (t, b, p, depth) that forwards to decodeFixedSizeTypes / decodeType on the same arguments.
func isElemDecodeHelper(f *ssa.Function) bool {
	if f == nil || f.Blocks == nil || fnPkgPath(f) != pkgReflect {
		return false
	}
	n := 0
	for _, b := range f.Blocks {
		for _, ins := range b.Instrs {
			if call, ok := ins.(*ssa.Call); ok && call.Call.StaticCallee() != nil {
				switch shortFn(call.Call.StaticCallee()) {
				case "tDecoder.decodeType", "decodeFixedSizeTypes":
					n++
				case "tDecoder.Decode":
					return false
				}
			}
		}
	}
	return n > 0 && shortFn(f) != "tDecoder.decodeType" && shortFn(f) != "tDecoder.Decode"
}

// reachesOnlyVia: from is one of several alternatives that all flow into to (if/else producing the same merged value).
func reachesOnlyVia(from, to *ssa.BasicBlock) bool {
	return blockReaches(from, to) && !blockReaches(to, from) || blockReaches(from, to)
}

func ruleExceptionKinds(c *Ctx) []Ob {
	s := newSink(c, "X.exception-kinds")
	var tp *types.Package
	for path, p := range c.ByPath {
		if strings.HasSuffix(path, "gopkg/protocol/thrift") {
			tp = p.Types
		}
	}
	if tp == nil {
		s.bad("thrift-package", "-", "gopkg thrift package not loaded")
		return s.obs
	}
	kind := func(n string) int64 {
		if k, ok := tp.Scope().Lookup(n).(*types.Const); ok {
			v, _ := strconv.ParseInt(k.Val().ExactString(), 10, 64)
			return v
		}
		return -1
	}
	want := map[string]string{"errDepthLimitExceeded": "DEPTH_LIMIT", "errNegativeSize": "NEGATIVE_SIZE", "newRequiredFieldNotSetException": "INVALID_DATA",
		"newSizeExceedsBufferException": "SIZE_LIMIT", "newTypeMismatch": "INVALID_DATA", "newTypeMismatchKV": "INVALID_DATA"}
	seen := map[string]bool{}
	for _, fn := range c.ModuleFuncs(pkgReflect) {
		for _, b := range fn.Blocks {
			for _, ins := range b.Instrs {
				call, ok := ins.(*ssa.Call)
				if !ok || call.Call.StaticCallee() == nil || call.Call.StaticCallee().Name() != "NewProtocolException" {
					continue
				}
				// owner: the enclosing constructor, or the global the result is stored into (package init)
				owner := fn.Name()
				if isInitFn(fn) {
					for _, r := range referrers(call) {
						if st, ok := r.(*ssa.Store); ok {
							if g, ok := st.Addr.(*ssa.Global); ok {
								owner = g.Name()
							}
						}
					}
				}
				w, known := want[owner]
				if !known {
					continue
				}
				seen[owner] = true
				got, okc := constInt(call.Call.Args[0])
				s.check(okc && got == kind(w) && kind(w) >= 0, owner, c.InstrPos(call), owner+" is a "+w+" protocol exception", fmt.Sprintf("%s is created with exception kind %d, expected thrift.%s (%d)", owner, got, w, kind(w)))
			}
		}
	}
	// the two exceptions whose kind a property states (required field: invalid data; nesting: depth limit) must exist as such;
	// the other constructors are checked where they exist (written out at their use, they are ordinary error returns)
	stated := map[string]bool{"errDepthLimitExceeded": true, "newRequiredFieldNotSetException": true}
	var wants []string
	for o := range want {
		wants = append(wants, o)
	}
	sort.Strings(wants)
	for _, o := range wants {
		if !seen[o] && stated[o] {
			s.bad(o, "-", "exception constructor "+o+" not found")
		}
	}
	return s.obs
}

// viaMallocIfPointer: every origin of the pointer is the result of the optional-pointer allocation helper (or of a module
// helper that returns its result).
func viaMallocIfPointer(v ssa.Value, depth int) bool {
	if depth > 6 {
		return false
	}
	switch x := v.(type) {
	case *ssa.Phi:
		if inlineMallocIfPointer(x) {
			return true
		}
		for _, e := range x.Edges {
			if !viaMallocIfPointer(e, depth+1) {
				return false
			}
		}
		return true
	case *ssa.Extract:
		return viaMallocIfPointer(x.Tuple, depth+1)
	case *ssa.Call:
		f := x.Call.StaticCallee()
		if f == nil {
			return false
		}
		if shortFn(f) == "tDecoder.mallocIfPointer" {
			return true
		}
		if f.Blocks != nil && fnPkgPath(f) == pkgReflect {
			for g := range staticReach(f) {
				if shortFn(g) == "tDecoder.mallocIfPointer" {
					return true
				}
			}
		}
	}
	return false
}

// inlineMallocIfPointer: the helper written out at its call site: p = IsPointer ? Malloc(X.V...) stored into the slot : slot.
// Every edge of the merge is either the allocation made under X.IsPointer (and installed in the slot in the same block) or the
// slot itself on the edge where X.IsPointer is false.
func inlineMallocIfPointer(phi *ssa.Phi) bool {
	isPtrCond := func(conds []Cond, truth bool) string {
		for _, cd := range conds {
			if cd.Truth == truth && strings.HasSuffix(path(cd.V), ".IsPointer") {
				return strings.TrimSuffix(path(cd.V), ".IsPointer")
			}
		}
		return ""
	}
	edgeConds := func(pred, to *ssa.BasicBlock) []Cond {
		out := domConds(pred)
		if len(pred.Instrs) > 0 {
			if iff, ok := pred.Instrs[len(pred.Instrs)-1].(*ssa.If); ok && len(pred.Succs) == 2 && pred.Succs[0] != pred.Succs[1] {
				out = append(out, expandCond(Cond{V: iff.Cond, Truth: pred.Succs[0] == to, If: iff}, 0)...)
			}
		}
		return out
	}
	nAlloc, nSlot := 0, 0
	var slot ssa.Value
	for i, e := range phi.Edges {
		if call, ok := e.(*ssa.Call); ok {
			continue_ := false
			if f := call.Call.StaticCallee(); f != nil && shortFn(f) == "tDecoder.Malloc" && len(call.Call.Args) >= 2 {
				d := isPtrCond(domConds(call.Block()), true)
				if d != "" && strings.HasPrefix(path(call.Call.Args[1]), d+".V.") {
					nAlloc++
					continue_ = true
				}
			}
			if continue_ {
				continue
			}
			if call.Call.StaticCallee() != nil {
				return false
			}
		}
		if isPtrCond(edgeConds(phi.Block().Preds[i], phi.Block()), false) == "" {
			return false
		}
		if slot != nil && slot != e {
			return false
		}
		slot = e
		nSlot++
	}
	if nAlloc == 0 || nSlot == 0 {
		return false
	}
	// the allocation is installed in the slot
	for _, e := range phi.Edges {
		call, ok := e.(*ssa.Call)
		if !ok || e == slot {
			continue
		}
		installed := false
		for _, r := range referrers(call) {
			if st, ok := r.(*ssa.Store); ok && st.Val == call {
				if cv, ok := st.Addr.(*ssa.Convert); ok && cv.X == slot {
					installed = true
				}
			}
		}
		if !installed {
			return false
		}
	}
	return true
}

// symExpr writes an integer expression in a canonical form in which shifts and masks by powers of two read as division and
// remainder, conversions are dropped and single-return module helpers are expanded with their arguments.
func symExpr(v ssa.Value, bind map[*ssa.Parameter]string, depth int) string {
	if depth > 6 {
		return "?"
	}
	switch x := v.(type) {
	case *ssa.Const:
		if n, ok := constInt(x); ok {
			return fmt.Sprint(n)
		}
	case *ssa.Parameter:
		if sv, ok := bind[x]; ok {
			return sv
		}
		return x.Name()
	case *ssa.Convert:
		return symExpr(x.X, bind, depth)
	case *ssa.ChangeType:
		return symExpr(x.X, bind, depth)
	case *ssa.BinOp:
		a := symExpr(x.X, bind, depth+1)
		if cst, ok := constInt(x.Y); ok {
			switch x.Op {
			case token.SHR:
				if cst >= 0 && cst < 62 {
					return fmt.Sprintf("(%s/%d)", a, int64(1)<<uint(cst))
				}
			case token.QUO:
				return fmt.Sprintf("(%s/%d)", a, cst)
			case token.AND:
				if cst > 0 && (cst+1)&cst == 0 {
					return fmt.Sprintf("(%s%%%d)", a, cst+1)
				}
			case token.REM:
				return fmt.Sprintf("(%s%%%d)", a, cst)
			}
		}
		return "(" + a + x.Op.String() + symExpr(x.Y, bind, depth+1) + ")"
	case *ssa.Extract:
		if call, ok := x.Tuple.(*ssa.Call); ok {
			if r := symCallResult(call, x.Index, bind, depth); r != "" {
				return r
			}
		}
	case *ssa.Call:
		if r := symCallResult(x, 0, bind, depth); r != "" {
			return r
		}
	}
	return path(v)
}

func symCallResult(call *ssa.Call, idx int, bind map[*ssa.Parameter]string, depth int) string {
	f := call.Call.StaticCallee()
	if f == nil || f.Blocks == nil {
		return ""
	}
	var ret *ssa.Return
	for _, b := range f.Blocks {
		if r, ok := b.Instrs[len(b.Instrs)-1].(*ssa.Return); ok {
			if ret != nil {
				return ""
			}
			ret = r
		}
	}
	if ret == nil || idx >= len(ret.Results) {
		return ""
	}
	nb := map[*ssa.Parameter]string{}
	for k, prm := range f.Params {
		if k < len(call.Call.Args) {
			nb[prm] = symExpr(call.Call.Args[k], bind, depth+1)
		}
	}
	return symExpr(ret.Results[idx], nb, depth+1)
}
