#!/bin/bash
# usage: mutsweep.sh <worktree> <mutant-list> <out>   -- systematic single-edit mutants (bin/mutgen): for each mutant that builds and
# passes the baseline suite, run every rule; prints "<n> <op> <file>:<line> survived <rules|UNFLAGGED>" or "... killed-by-suite / no-build"
export GOFLAGS=-mod=mod GOPROXY=off GOSUMDB=off GOTOOLCHAIN=local; unset GOWORK
wt=$1; list=$2; out=$3
cd /verif
n=0
while IFS=$'\t' read -r file s e repl op; do
  n=$((n+1))
  git -C $wt checkout -q -- . ; git -C $wt clean -fdq
  python3 - "$wt/$file" "$s" "$e" "$repl" <<'PY'
import sys,ast
p,s,e,repl=sys.argv[1],int(sys.argv[2]),int(sys.argv[3]),ast.literal_eval(sys.argv[4].replace('\\x','\\x'))
b=open(p,'rb').read()
open(p,'wb').write(b[:s]+repl.encode()+b[e:])
PY
  line=$(head -c $s $wt/$file | wc -l); line=$((line+1))
  if ! (cd $wt && go build ./... >/dev/null 2>&1); then echo "$n $op $file:$line no-build" >> $out; continue; fi
  ok=1
  for m in . tests fuzz; do
    if ! (cd $wt/$m && timeout 240 go test -vet=off -count=1 -failfast ./... >/dev/null 2>&1); then ok=0; break; fi
  done
  if [ $ok = 0 ]; then echo "$n $op $file:$line killed-by-suite" >> $out; continue; fi
  rules=$(bin/frugalvet -repo $wt -prop ALL -replaydir /tmp/scratch/seedreplay 2>&1 | grep -o "\(VIOLATED\|UNDECIDED\) \[[^]]*\]\|ANALYSIS-ERROR" | sed 's/.*\[\(.*\)\]/\1/' | sort -u | tr '\n' ' ')
  git -C $wt diff > /tmp/scratch/mutsweep/$(basename $out .log)_$n.diff
  echo "$n $op $file:$line survived ${rules:-UNFLAGGED}" >> $out
done < $list
git -C $wt checkout -q -- .
echo done >> $out
