package main

import (
	"fmt"
	"go/constant"
	"go/token"
	"sort"
	"strings"

	"golang.org/x/tools/go/ssa"
)

// Keyword dispatch on SSA: comparisons of one string value against a closed set of words, with the two facts a front end
// needs: (1) a value that equals none of the words is refused, (2) each word yields its own constant.
// The form (switch, if-chain, helper returning (value, ok)) does not matter: only the comparison edges do.

type wordCmp struct {
	word string
	bo   *ssa.BinOp
	x    ssa.Value // the compared value
	yes  *ssa.BasicBlock
	no   *ssa.BasicBlock
}

func strConst(v ssa.Value) (string, bool) {
	if cv, ok := v.(*ssa.Const); ok && cv.Value != nil && cv.Value.Kind() == constant.String {
		return constant.StringVal(cv.Value), true
	}
	return "", false
}

// wordCompares finds, in the functions of pkg, the branches on `x == word` for the given words.
func (c *Ctx) wordCompares(pkg string, words map[string]bool) map[*ssa.Function][]wordCmp {
	out := map[*ssa.Function][]wordCmp{}
	for _, fn := range c.ModuleFuncs(pkg) {
		for _, b := range fn.Blocks {
			iff, ok := b.Instrs[len(b.Instrs)-1].(*ssa.If)
			if !ok {
				continue
			}
			bo, ok := iff.Cond.(*ssa.BinOp)
			if !ok || bo.Op != token.EQL && bo.Op != token.NEQ {
				continue
			}
			w, isW := strConst(bo.Y)
			x := bo.X
			if !isW {
				w, isW = strConst(bo.X)
				x = bo.Y
			}
			if !isW || !words[w] {
				continue
			}
			wc := wordCmp{word: w, bo: bo, x: x, yes: b.Succs[0], no: b.Succs[1]}
			if bo.Op == token.NEQ {
				wc.yes, wc.no = wc.no, wc.yes
			}
			out[fn] = append(out[fn], wc)
		}
	}
	return out
}

// under reports whether block b is the block e or dominated by it, e being entered by one edge only.
func under(e, b *ssa.BasicBlock) bool {
	return len(e.Preds) == 1 && (e == b || e.Dominates(b))
}

// noneRegion: the blocks where the value is known to differ from every word.
func noneRegion(fn *ssa.Function, cmps []wordCmp) []*ssa.BasicBlock {
	var out []*ssa.BasicBlock
	for _, b := range fn.Blocks {
		all := true
		for _, wc := range cmps {
			if !under(wc.no, b) {
				all = false
			}
		}
		if all {
			out = append(out, b)
		}
	}
	return out
}

// refusesUnknown: every way out of the none-region is an error return (or panic), or a `not ok` return whose callers all
// turn it into an error. It returns a description of what was found.
func (c *Ctx) refusesUnknown(fn *ssa.Function, cmps []wordCmp) (bool, string) {
	region := noneRegion(fn, cmps)
	if len(region) == 0 {
		return false, "no block is reached only when the value differs from every keyword (the last alternative is taken for unknown words too)"
	}
	for _, b := range region {
		switch x := b.Instrs[len(b.Instrs)-1].(type) {
		case *ssa.Panic:
		case *ssa.Return:
			if len(x.Results) == 0 {
				return false, "unknown word: plain return at " + c.InstrPos(x)
			}
			last := unspill(x.Results[len(x.Results)-1], b)
			if isErrorType(last.Type()) {
				if !definitelyNonNilErr(last, b) {
					return false, "unknown word: return without a definite error at " + c.InstrPos(x)
				}
				continue
			}
			if cv, ok := last.(*ssa.Const); ok && isBoolType(cv.Type()) && cv.Value != nil && !constant.BoolVal(cv.Value) {
				// (value, false): all callers must refuse
				idx := len(x.Results) - 1
				ncall := 0
				for _, caller := range c.ModuleFuncs(fnPkgPath(fn)) {
					for _, cb := range caller.Blocks {
						for _, ins := range cb.Instrs {
							call, ok := ins.(*ssa.Call)
							if !ok || call.Call.StaticCallee() != fn {
								continue
							}
							ncall++
							if !okResultRefused(call, idx) {
								return false, "unknown word: " + shortFn(caller) + " does not turn the `not ok` result of " + fn.Name() + " into an error at " + c.InstrPos(call)
							}
						}
					}
				}
				if ncall == 0 {
					return false, "keyword helper " + fn.Name() + " is never called"
				}
				continue
			}
			return false, "unknown word: return of " + path(last) + " at " + c.InstrPos(x)
		case *ssa.Jump, *ssa.If:
			// leaves the region only if the successor is outside it: then an unknown word continues like a known one
			for _, sc := range b.Succs {
				in := false
				for _, r := range region {
					if r == sc {
						in = true
					}
				}
				if !in {
					return false, "an unknown word continues at " + c.Pos(firstPos(sc)) + " like a known one"
				}
			}
		}
	}
	return true, fmt.Sprintf("%d block(s) reached only for unknown words, all refusing", len(region))
}

func firstPos(b *ssa.BasicBlock) token.Pos {
	for _, ins := range b.Instrs {
		if ins.Pos().IsValid() {
			return ins.Pos()
		}
	}
	return b.Parent().Pos()
}

// okResultRefused: result idx of call (a bool) is tested and its false edge is an error return.
func okResultRefused(call *ssa.Call, idx int) bool {
	for _, r := range referrers(call) {
		ex, ok := r.(*ssa.Extract)
		if !ok || ex.Index != idx {
			continue
		}
		for _, rr := range referrers(ex) {
			switch y := rr.(type) {
			case *ssa.If:
				if edgeErrors(y.Block().Succs[1]) {
					return true
				}
			case *ssa.UnOp:
				if y.Op == token.NOT {
					for _, r3 := range referrers(y) {
						if iff, ok := r3.(*ssa.If); ok && edgeErrors(iff.Block().Succs[0]) {
							return true
						}
					}
				}
			}
		}
	}
	return false
}

// wordConstants: for each word, the integer constants produced (returned as first result, or merged into a phi) in the
// blocks reached only when the value equals that word.
func wordConstants(fn *ssa.Function, cmps []wordCmp) map[string][]int64 {
	out := map[string][]int64{}
	add := func(w string, v ssa.Value) {
		if n, ok := constInt(v); ok {
			if _, isC := v.(*ssa.Const); isC {
				out[w] = append(out[w], n)
			}
		}
	}
	for _, wc := range cmps {
		for _, b := range fn.Blocks {
			if !under(wc.yes, b) {
				continue
			}
			if ret, ok := b.Instrs[len(b.Instrs)-1].(*ssa.Return); ok && len(ret.Results) > 0 {
				add(wc.word, ret.Results[0])
			}
			for _, sc := range b.Succs {
				if under(wc.yes, sc) {
					continue
				}
				for _, ins := range sc.Instrs {
					phi, ok := ins.(*ssa.Phi)
					if !ok {
						break
					}
					for i, p := range sc.Preds {
						if p == b && !isBoolType(phi.Type()) && !isStringType(phi.Type()) {
							add(wc.word, phi.Edges[i])
						}
					}
				}
			}
		}
	}
	for w := range out {
		sort.Slice(out[w], func(i, j int) bool { return out[w][i] < out[w][j] })
	}
	return out
}

func isStringType(t interface{ String() string }) bool { return t.String() == "string" }

// vsrc is one origin of a value with the branch conditions that hold where it originates.
type vsrc struct {
	v     ssa.Value
	conds []Cond
}

// valueSources follows phis, single-assignment results of module helpers (binding parameters to the call's arguments) and
// conversions back to the leaves a value can come from.
func valueSources(v ssa.Value, depth int) []vsrc {
	seen := map[ssa.Value]bool{}
	var walk func(v ssa.Value, conds []Cond, at *ssa.BasicBlock, depth int) []vsrc
	walk = func(v ssa.Value, conds []Cond, at *ssa.BasicBlock, depth int) []vsrc {
		if seen[v] {
			return nil
		}
		switch x := v.(type) {
		case *ssa.Phi:
			seen[v] = true
			var out []vsrc
			for i, e := range x.Edges {
				p := x.Block().Preds[i]
				cs := append(append([]Cond{}, conds...), domConds(p)...)
				if iff, ok := p.Instrs[len(p.Instrs)-1].(*ssa.If); ok && p.Succs[0] != p.Succs[1] {
					cs = append(cs, Cond{V: iff.Cond, Truth: p.Succs[0] == x.Block(), If: iff})
				}
				out = append(out, walk(e, cs, p, depth)...)
			}
			return out
		case *ssa.Extract:
			if call, ok := x.Tuple.(*ssa.Call); ok {
				if f := call.Call.StaticCallee(); f != nil && f.Blocks != nil && depth < 2 {
					var out []vsrc
					for _, b := range f.Blocks {
						ret, ok := b.Instrs[len(b.Instrs)-1].(*ssa.Return)
						if !ok || x.Index >= len(ret.Results) {
							continue
						}
						r := ret.Results[x.Index]
						cs := append(append([]Cond{}, conds...), domConds(b)...)
						if prm, ok := r.(*ssa.Parameter); ok {
							for k, fp := range f.Params {
								if fp == prm && k < len(call.Call.Args) {
									out = append(out, vsrc{call.Call.Args[k], cs})
								}
							}
							continue
						}
						out = append(out, walk(r, cs, b, depth+1)...)
					}
					return out
				}
			}
		case *ssa.ChangeType:
			return walk(x.X, conds, at, depth)
		}
		return []vsrc{{v, conds}}
	}
	var at *ssa.BasicBlock
	if ins, ok := v.(ssa.Instruction); ok {
		at = ins.Block()
	}
	return walk(v, nil, at, depth)
}

// emptyLenCond: one of the conditions says that some slice or string is empty.
func emptyLenCond(conds []Cond) bool {
	for _, cd := range conds {
		l, op, r, ok := relOf(cd.V, cd.Truth, descInt)
		if !ok {
			continue
		}
		isLen := func(s string) bool { return strings.HasPrefix(s, "len(") }
		switch {
		case op == "==" && (isLen(l) && r == "0" || isLen(r) && l == "0"):
			return true
		case op == "<" && isLen(l) && r == "1":
			return true
		case op == "<=" && isLen(l) && r == "0":
			return true
		}
	}
	return false
}
