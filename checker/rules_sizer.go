package main

import (
	"fmt"
	"go/token"
	"sort"
	"strings"

	"golang.org/x/tools/go/ssa"
)

func init() {
	register(&Rule{ID: "T8.sizer-terms", Min: 5,
		Text: "the size walk adds exactly the terms the write walk emits: per function the set of addends flowing into the returned size equals the expected set - string: strHeaderLen + len; struct: fixedLenFieldSize + per variable field (fieldHeaderLen + FixedSize | fieldHeaderLen + string size | fieldHeaderLen + EncodedSizeFunc) + len(unknown holder) + 1 for STOP, nil struct = 1; list: listHeaderLen + Len x FixedSize (wire width, not memory Size) or per element string size / EncodedSizeFunc with stride Size; map: mapHeaderLen + n x K.FixedSize + n x V.FixedSize or per entry key/value sizes through the same reflect iterator, n = maplen as in the writer's header; the sizer views user memory only as *unsafe.Pointer, *sliceHeader, *string, *[]byte; any other addend, return or typed view is undecided",
		Run:  ruleSizerTerms})
	register(&Rule{ID: "T8.skip-agreement", Min: 5,
		Text: "writer (appendStruct) and sizer ((*tType).EncodedSize) skip the same fields: each has exactly the two skip tests, in the same order - CanSkipEncodeIfNil && slot == nil, then CanSkipIfDefault && Equal(Default, slot) on the same field - and no other way to move to the next field without emitting / counting the field header; (*tField).EncodedSize yields a fixed size only when !IsPointer && Spec != Optional && FixedSize > 0 (both skip flags provably false) and fromDefsFields sums exactly those into fixedLenFieldSize and lists the others in varLenFields",
		Run:  ruleSkipAgreement})
}

// ptrClass names where a pointer argument comes from.
func ptrClass(v ssa.Value) string {
	rs := ptrRoots(v)
	var out []string
	for _, r := range rs {
		switch {
		case r == "call:mapIter.Next#0":
			out = append(out, "iter.k")
		case r == "call:mapIter.Next#1":
			out = append(out, "iter.v")
		case strings.HasPrefix(r, "param:"):
			out = append(out, strings.TrimPrefix(r, "param:"))
		case strings.HasPrefix(r, "load:") && strings.HasSuffix(r, ".Data"):
			out = append(out, "elem")
		case strings.HasPrefix(r, "load:"):
			out = append(out, "*"+strings.TrimPrefix(r, "load:"))
		default:
			out = append(out, r)
		}
	}
	if offs := ptrAddOffsets(v); len(offs) > 0 {
		return "field"
	}
	if offs := ptrAddOffsetsField(v, "unknownFieldsOffset"); len(offs) > 0 {
		return "holder"
	}
	sort.Strings(out)
	return strings.Join(dedup(out), "|")
}

func leafDesc(v ssa.Value) string {
	v = stripConv(v)
	switch x := v.(type) {
	case *ssa.Const:
		if n, ok := constInt(x); ok {
			return fmt.Sprintf("c:%d", n)
		}
	case *ssa.UnOp:
		if x.Op == token.MUL {
			return "ld:" + path(x)
		}
	case *ssa.BinOp:
		if x.Op == token.MUL {
			a, b := leafDesc(x.X), leafDesc(x.Y)
			if a > b {
				a, b = b, a
			}
			return "(" + a + "*" + b + ")"
		}
	case *ssa.Call:
		if isBuiltin(x, "len") {
			arg := x.Call.Args[0]
			if ld := loadOf(arg); ld != nil {
				return "len(" + ld.T.String() + " at " + ptrClass(ld.Ptr) + ")"
			}
			return "len(" + path(arg) + ")"
		}
		if f := x.Call.StaticCallee(); f != nil {
			var as []string
			for _, a := range x.Call.Args {
				if isUnsafePointer(a.Type()) {
					if ld := loadOf(a); ld != nil && isUnsafePointer(ld.T) {
						as = append(as, "*"+ptrClass(ld.Ptr))
					} else {
						as = append(as, ptrClass(a))
					}
				}
			}
			return shortFn(f) + "(" + strings.Join(as, ",") + ")"
		}
	case *ssa.Extract:
		if call, ok := x.Tuple.(*ssa.Call); ok && x.Index == 0 {
			var as []string
			for _, a := range call.Call.Args {
				if isUnsafePointer(a.Type()) {
					as = append(as, ptrClass(a))
				}
			}
			if f := call.Call.StaticCallee(); f != nil {
				recv := ""
				if f.Signature.Recv() != nil && len(call.Call.Args) > 0 {
					recv = path(call.Call.Args[0]) + "."
				}
				return recv + f.Name() + "(" + strings.Join(as, ",") + ")"
			}
			return "dyn:" + path(call.Call.Value) + "(" + strings.Join(as, ",") + ")"
		}
	}
	return "?" + path(v)
}

// sizeLeaves returns the set of addends flowing into the first result of the success returns of fn.
func sizeLeaves(fn *ssa.Function) map[string]bool { return sizeLeavesOf(fn, nil) }

// sizeLeavesOf restricts the walk to one return instruction (nil: all returns).
func sizeLeavesOf(fn *ssa.Function, only *ssa.Return) map[string]bool {
	out := map[string]bool{}
	seen := map[ssa.Value]bool{}
	// under: v is an operand of an addition (or the start value of an accumulator), where a constant 0 adds nothing
	var walk func(v ssa.Value, under bool)
	walk = func(v ssa.Value, under bool) {
		if seen[v] {
			return
		}
		seen[v] = true
		switch x := v.(type) {
		case *ssa.Phi:
			for _, e := range x.Edges {
				if b, ok := e.(*ssa.BinOp); ok && b.Op == token.ADD && (stripConv(b.X) == ssa.Value(x) || stripConv(b.Y) == ssa.Value(x)) {
					under = true // accumulator
				}
			}
			for _, e := range x.Edges {
				walk(e, under)
			}
			return
		case *ssa.BinOp:
			if x.Op == token.ADD {
				walk(x.X, true)
				walk(x.Y, true)
				return
			}
		case *ssa.Convert:
			walk(x.X, under)
			return
		case *ssa.Const:
			if n, ok := constInt(x); ok && n == 0 && under {
				return
			}
		}
		// a module helper that is not one of the known size functions is expanded in place
		if call := sizeHelperCall(v); call != nil && depthGuard < 3 {
			callee := call.Call.StaticCallee()
			depthGuard++
			sub := sizeLeaves(callee)
			depthGuard--
			for l := range sub {
				// substitute the helper's descriptor receiver and pointer parameter by the caller's
				for i, prm := range callee.Params {
					if i >= len(call.Call.Args) {
						break
					}
					switch {
					case namedOf(prm.Type()) == "tType":
						l = strings.ReplaceAll(l, "dyn:"+prm.Name()+".", "dyn:"+path(call.Call.Args[i])+".")
						l = strings.ReplaceAll(l, "ld:"+prm.Name()+".", "ld:"+path(call.Call.Args[i])+".")
						if strings.HasPrefix(l, prm.Name()+".") {
							l = path(call.Call.Args[i]) + l[len(prm.Name()):]
						}
					case isUnsafePointer(prm.Type()):
						l = strings.ReplaceAll(l, "("+prm.Name()+")", "("+ptrClass(call.Call.Args[i])+")")
						l = strings.ReplaceAll(l, " at "+prm.Name()+")", " at "+ptrClass(call.Call.Args[i])+")")
					}
				}
				out[l] = true
			}
			return
		}
		out[leafDesc(v)] = true
	}
	for _, b := range fn.Blocks {
		ret, ok := b.Instrs[len(b.Instrs)-1].(*ssa.Return)
		if !ok || len(ret.Results) == 0 || b == fn.Recover || only != nil && ret != only {
			continue
		}
		walk(ret.Results[0], false)
	}
	return out
}

var depthGuard int

var knownSizeFns = map[string]bool{"encodedStringSize": true, "tType.EncodedSize": true, "tType.encodedMapSize": true, "tType.encodedListSize": true, "maplen": true, "tField.EncodedSize": true}

// sizeHelperCall: v is (the first result of) a static call to a module size helper that is not one of the known size functions.
func sizeHelperCall(v ssa.Value) *ssa.Call {
	v = stripConv(v)
	var call *ssa.Call
	switch x := v.(type) {
	case *ssa.Call:
		call = x
	case *ssa.Extract:
		if x.Index == 0 {
			call, _ = x.Tuple.(*ssa.Call)
		}
	}
	if call == nil {
		return nil
	}
	f := call.Call.StaticCallee()
	if f == nil || f.Blocks == nil || fnPkgPath(f) != pkgReflect || knownSizeFns[shortFn(f)] {
		return nil
	}
	r := f.Signature.Results()
	if r.Len() == 0 || !isInt(r.At(0).Type()) {
		return nil
	}
	return call
}

func ruleSizerTerms(c *Ctx) []Ob {
	s := newSink(c, "T8.sizer-terms")
	fh, _ := c.constOf(pkgReflect, "fieldHeaderLen")
	lh, _ := c.constOf(pkgReflect, "listHeaderLen")
	mh, _ := c.constOf(pkgReflect, "mapHeaderLen")
	sh, _ := c.constOf(pkgReflect, "strHeaderLen")
	type spec struct {
		name   string
		expect func(recv string) []string
	}
	specs := []spec{
		{"encodedStringSize", func(string) []string {
			return []string{fmt.Sprintf("c:%d", sh), "len(string at p)"}
		}},
		{"(*tType).EncodedSize", func(t string) []string {
			f := t + ".Sd.fields[" + t + ".Sd.varLenFields[φrangeindex]]"
			_ = f
			return []string{"c:1", fmt.Sprintf("c:%d", fh), "ld:" + t + ".Sd.fixedLenFieldSize", "FIELD.Type.FixedSize", "encodedStringSize(field)", "encodedStringSize(*field)", "dyn:FIELD.Type.EncodedSizeFunc(field)", "len([]byte at holder)"}
		}},
		{"(*tType).encodedListSize", func(t string) []string {
			return []string{fmt.Sprintf("c:%d", lh), "(ld:conv(p).Len*ld:" + t + ".V.FixedSize)", "encodedStringSize(elem)", "dyn:" + t + ".V.EncodedSizeFunc(elem)"}
		}},
		{"(*tType).encodedMapSize", func(t string) []string {
			return []string{fmt.Sprintf("c:%d", mh), "(ld:" + t + ".K.FixedSize*maplen(*p))", "(ld:" + t + ".V.FixedSize*maplen(*p))", "encodedStringSize(iter.k)", t + ".K.EncodedSize(iter.k)", "encodedStringSize(iter.v)", "dyn:" + t + ".V.EncodedSizeFunc(iter.v)"}
		}},
	}
	for _, sp := range specs {
		fn := c.Func(pkgReflect, sp.name)
		if fn == nil {
			fn = c.SSA[pkgReflect].Func(sp.name)
		}
		if fn == nil {
			if sp.name == "encodedStringSize" {
				continue // written out at its uses: the terms are checked there
			}
			s.bad(sp.name, "-", "size function not found")
			continue
		}
		recv := ""
		if len(fn.Params) > 0 {
			recv = fn.Params[0].Name()
		}
		got := sizeLeaves(fn)
		// normalise field-relative leaves of the struct sizer
		norm := map[string]bool{}
		for l := range got {
			if sp.name == "(*tType).EncodedSize" {
				if i := strings.Index(l, recv+".Sd.fields["); i >= 0 {
					j := strings.Index(l[i:], "]]")
					if j < 0 {
						j = strings.Index(l[i:], "]")
						j--
					}
					l = l[:i] + "FIELD" + l[i+j+2:]
				}
				l = strings.Replace(l, "ld:FIELD.Type.FixedSize", "FIELD.Type.FixedSize", 1)
			}
			norm[l] = true
		}
		want := map[string]bool{}
		for _, w := range sp.expect(recv) {
			want[w] = true
		}
		// the string size written out (strHeaderLen + len(s)) instead of encodedStringSize(s): read it as the helper's term,
		// provided the header constant is there - on its own or folded into a constant the function adds anyway
		if sp.name != "encodedStringSize" {
			var inl, consts []string
			for l := range norm {
				if strings.HasPrefix(l, "len(string at ") {
					inl = append(inl, l)
				}
				if strings.HasPrefix(l, "c:") && !want[l] {
					consts = append(consts, l)
				}
			}
			hdrSeen := false
			repl := map[string]string{}
			for _, l := range consts {
				var k int64
				fmt.Sscanf(l, "c:%d", &k)
				switch {
				case k == sh:
					hdrSeen = true
					repl[l] = ""
				case want[fmt.Sprintf("c:%d", k-sh)]:
					hdrSeen = true
					repl[l] = fmt.Sprintf("c:%d", k-sh)
				}
			}
			if len(inl) > 0 && hdrSeen {
				for l, r := range repl {
					delete(norm, l)
					if r != "" {
						norm[r] = true
					}
				}
				for _, l := range inl {
					delete(norm, l)
					norm["encodedStringSize("+strings.TrimSuffix(strings.TrimPrefix(l, "len(string at "), ")")+")"] = true
				}
			}
		}
		var missing, extra []string
		for w := range want {
			if !norm[w] {
				// optional alternatives: string size of a pointer field appears only when pointers to strings are sized through a chase
				if w == "encodedStringSize(*field)" || w == "encodedStringSize(field)" {
					if norm["encodedStringSize(field)"] || norm["encodedStringSize(*field)"] {
						continue
					}
				}
				missing = append(missing, w)
			}
		}
		for g := range norm {
			if !want[g] {
				extra = append(extra, g)
			}
		}
		sort.Strings(missing)
		sort.Strings(extra)
		key := shortFn(fn) + ":addends"
		switch {
		case len(missing) == 0 && len(extra) == 0:
			s.ok(key, c.Pos(fn.Pos()), fmt.Sprintf("adds exactly %v", keysOf(norm)))
		case len(extra) > 0 && allUnknown(extra):
			s.undec(key, c.Pos(fn.Pos()), fmt.Sprintf("size function adds terms the rule does not recognise: %v (missing: %v)", extra, missing))
		default:
			s.bad(key, c.Pos(fn.Pos()), fmt.Sprintf("size function does not add exactly what the writer emits: unexpected addends %v, missing addends %v (a fast path that bypasses the per-element walk loses retained unknown bytes or mis-measures elements; a wrong multiplier or constant makes EncodedSize differ from the bytes written)", extra, missing))
		}
		// the struct sizer has one legitimate short answer (nil struct = STOP only); every other success return must carry
		// every term: a second fast path that returns a partial sum loses the retained unknown bytes or the variable fields
		if sp.name == "(*tType).EncodedSize" && len(missing) == 0 && len(extra) == 0 {
			for _, b := range fn.Blocks {
				ret, ok := b.Instrs[len(b.Instrs)-1].(*ssa.Return)
				if !ok || len(ret.Results) != 2 || b == fn.Recover || definitelyNonNilErr(unspill(ret.Results[1], b), b) {
					continue
				}
				nilBase := false
				for _, cd := range domConds(b) {
					if bo, ok := cd.V.(*ssa.BinOp); ok && (isNilConst(bo.X) || isNilConst(bo.Y)) && isUnsafePointer(bo.X.Type()) {
						if bo.Op == token.EQL && cd.Truth || bo.Op == token.NEQ && !cd.Truth {
							nilBase = true
						}
					}
				}
				if nilBase {
					continue
				}
				one := sizeLeavesOf(fn, ret)
				var lacks []string
				for _, w := range []string{"c:1", "ld:" + recv + ".Sd.fixedLenFieldSize", "len([]byte at holder)"} {
					if !one[w] {
						lacks = append(lacks, w)
					}
				}
				hasWalk := false
				for l := range one {
					if strings.Contains(l, "EncodedSizeFunc(") {
						hasWalk = true
					}
				}
				if !hasWalk {
					lacks = append(lacks, "the per-field walk")
				}
				s.check(len(lacks) == 0, shortFn(fn)+":return-complete", c.InstrPos(ret), "success return carries the fixed part, the field walk, the unknown-field bytes and STOP", fmt.Sprintf("a success return of the struct sizer omits %v: a short cut around the full walk makes EncodedSize smaller than what the writer emits", lacks))
			}
		}
		// typed views of user memory
		for _, b := range fn.Blocks {
			for _, ins := range b.Instrs {
				cv, ok := ins.(*ssa.Convert)
				if !ok || !isUnsafePointer(cv.X.Type()) {
					continue
				}
				t := cv.Type().String()
				okView := t == "*unsafe.Pointer" || strings.HasSuffix(t, ".sliceHeader") || t == "*string" || t == "*[]byte" || t == "uintptr"
				if !okView {
					s.bad(shortFn(fn)+":typed-view", c.InstrPos(cv), "the sizer reads user memory as "+t+": a cast to a concrete container type is only layout-compatible with one of the Go representations that share this kind (e.g. list<binary> is [][]byte, not []string)")
				}
			}
		}
		// strides in loops
		for _, b := range fn.Blocks {
			for _, ins := range b.Instrs {
				ad, ok := ins.(*ssa.Call)
				if !ok || !isBuiltin(ad, "Add") {
					continue
				}
				p2 := path(ad.Call.Args[1])
				if strings.HasSuffix(p2, ".Offset") || strings.HasSuffix(p2, "unknownFieldsOffset") {
					continue
				}
				okS, what := strideOK(ad.Call.Args[1], recv+".V.Size")
				s.check(okS, shortFn(fn)+":stride", c.InstrPos(ad), what, "the size walk advances by "+what+" instead of the element's memory size")
			}
		}
	}
	// n of the map sizer is maplen like the writer's header (leaf check above includes maplen(*p)); list Len likewise.
	return s.obs
}

func allUnknown(ls []string) bool {
	for _, l := range ls {
		if !strings.HasPrefix(l, "?") {
			return false
		}
	}
	return true
}

// skipTests extracts, for a struct walker, the ordered skip tests of its field loop.
type skipTest struct {
	flag  string // CanSkipEncodeIfNil / CanSkipIfDefault
	inner string // niltest / equal
	field string // path of the field descriptor
	iff   *ssa.If
	skip  *ssa.BasicBlock // target of the skip edge
	from  *ssa.BasicBlock // block whose true edge skips
}

func skipTests(fn *ssa.Function) []skipTest {
	var out []skipTest
	for _, b := range fn.Blocks {
		iff, ok := b.Instrs[len(b.Instrs)-1].(*ssa.If)
		if !ok {
			continue
		}
		recv, typ, f, ok := fieldOf(iff.Cond)
		if !ok || typ != "tField" || f != "CanSkipEncodeIfNil" && f != "CanSkipIfDefault" {
			continue
		}
		st := skipTest{flag: f, field: path(recv), iff: iff}
		tb := b.Succs[0]
		if i2, ok := tb.Instrs[len(tb.Instrs)-1].(*ssa.If); ok {
			switch x := i2.Cond.(type) {
			case *ssa.BinOp:
				if x.Op == token.EQL && isNilConst(x.Y) {
					if ld := loadOf(x.X); ld != nil && isUnsafePointer(ld.T) && ptrClass(ld.Ptr) == "field" {
						st.inner = "niltest"
					}
				}
			case *ssa.Call:
				if cf := x.Call.StaticCallee(); cf != nil && shortFn(cf) == "tType.Equal" && len(x.Call.Args) == 3 {
					if path(x.Call.Args[0]) == st.field+".Type" && path(x.Call.Args[1]) == st.field+".Default" && ptrClass(x.Call.Args[2]) == "field" {
						st.inner = "equal"
					}
				}
			}
			st.skip = tb.Succs[0]
			st.from = tb
		}
		out = append(out, st)
	}
	sort.Slice(out, func(i, j int) bool { return instrDominates(out[i].iff, out[j].iff) })
	return out
}

func ruleSkipAgreement(c *Ctx) []Ob {
	s := newSink(c, "T8.skip-agreement")
	w := c.SSA[pkgReflect].Func("appendStruct")
	z := c.Func(pkgReflect, "(*tType).EncodedSize")
	if w == nil || z == nil {
		s.bad("roles", "-", "appendStruct / (*tType).EncodedSize not found")
		return s.obs
	}
	desc := func(ts []skipTest) string {
		var p []string
		for _, t := range ts {
			p = append(p, t.flag+"&&"+t.inner)
		}
		return strings.Join(p, " ; ")
	}
	wt, zt := skipTests(w), skipTests(z)
	want := "CanSkipEncodeIfNil&&niltest ; CanSkipIfDefault&&equal"
	s.check(desc(wt) == want, "writer:skip-tests", c.Pos(w.Pos()), "writer: "+want, "writer's skip tests are ["+desc(wt)+"], expected ["+want+"]")
	s.check(desc(zt) == want, "sizer:skip-tests", c.Pos(z.Pos()), "sizer: "+want, "sizer's skip tests are ["+desc(zt)+"], expected ["+want+"]: EncodedSize would count a field the writer omits, or the reverse")
	// no other way to the next field without the field header
	fh, _ := c.constOf(pkgReflect, "fieldHeaderLen")
	shl, _ := c.constOf(pkgReflect, "strHeaderLen")
	checkNoOtherSkip := func(fn *ssa.Function, tests []skipTest, isHeader func(b *ssa.BasicBlock) bool, key string) {
		if len(tests) == 0 {
			return
		}
		hdr := loopHeaderOf(tests[0].iff.Block())
		if hdr == nil {
			s.undec(key, c.Pos(fn.Pos()), "field loop not found")
			return
		}
		skipEdges := map[[2]*ssa.BasicBlock]bool{}
		for _, t := range tests {
			if t.from != nil {
				skipEdges[[2]*ssa.BasicBlock{t.from, t.skip}] = true
			}
		}
		// from the loop body entry, reach the header again without passing a header block and without using a skip edge
		entry := tests[0].iff.Block()
		for entry.Idom() != nil && entry.Idom() != hdr && hdr.Dominates(entry.Idom()) {
			entry = entry.Idom()
		}
		seen := map[*ssa.BasicBlock]bool{}
		st := []*ssa.BasicBlock{entry}
		leak := false
		eo := errOnlyBlocks(fn)
		for len(st) > 0 {
			x := st[len(st)-1]
			st = st[:len(st)-1]
			if seen[x] || isHeader(x) || eo[x] {
				continue
			}
			seen[x] = true
			for _, sc := range x.Succs {
				if skipEdges[[2]*ssa.BasicBlock{x, sc}] {
					continue
				}
				if sc == hdr {
					leak = true
				}
				if hdr.Dominates(sc) && sc != hdr {
					st = append(st, sc)
				}
			}
		}
		s.check(!leak, key, c.Pos(fn.Pos()), "every non-skipped field passes the field header", "a field can be passed over without the two recognised skip tests and without its header being written/counted")
	}
	wei := analyseEmits(w)
	checkNoOtherSkip(w, wt, func(b *ssa.BasicBlock) bool {
		for _, e := range wei.events {
			if e.Kind == "bytes" && e.N == 3 && e.Instr.Block() == b {
				return true
			}
		}
		return false
	}, "writer:no-other-skip")
	checkNoOtherSkip(z, zt, func(b *ssa.BasicBlock) bool {
		for _, ins := range b.Instrs {
			if bo, ok := ins.(*ssa.BinOp); ok && bo.Op == token.ADD {
				for _, op := range []ssa.Value{bo.X, bo.Y} {
					// the field header, on its own or folded with the string length header that follows it
					if v, ok := constInt(op); ok && (v == fh || v == fh+shl) {
						return true
					}
					if in, ok := op.(*ssa.BinOp); ok && in.Op == token.ADD {
						if v, ok := constInt(in.X); ok && (v == fh || v == fh+shl) {
							return true
						}
					}
				}
			}
		}
		return false
	}, "sizer:no-other-skip")
	// tField.EncodedSize
	if fe := c.Func(pkgReflect, "(*tField).EncodedSize"); fe != nil {
		f := fe.Params[0].Name()
		optv, _ := c.constOf(pkgDefs, "Optional")
		okAll, nPos := true, 0
		for _, b := range fe.Blocks {
			ret, ok := b.Instrs[len(b.Instrs)-1].(*ssa.Return)
			if !ok {
				continue
			}
			if v, ok := constInt(ret.Results[0]); ok && v < 0 {
				continue
			}
			nPos++
			// value: fieldHeaderLen + f.Type.FixedSize
			ls := map[string]bool{}
			var walk func(v ssa.Value)
			walk = func(v ssa.Value) {
				if bo, ok := v.(*ssa.BinOp); ok && bo.Op == token.ADD {
					walk(bo.X)
					walk(bo.Y)
					return
				}
				ls[leafDesc(v)] = true
			}
			walk(ret.Results[0])
			valOK := len(ls) == 2 && ls[fmt.Sprintf("c:%d", fh)] && ls["ld:"+f+".Type.FixedSize"]
			notPtr := false
			for _, cd := range domConds(b) {
				if _, _, fld, ok := fieldOf(cd.V); ok && fld == "IsPointer" && !cd.Truth {
					notPtr = true
				}
			}
			notOpt := holdsAt(b, fmt.Sprint(optv), "!=", f+".Spec", descInt)
			fixed := holdsAt(b, "0", "<", f+".Type.FixedSize", descInt)
			if !(valOK && notPtr && notOpt && fixed) {
				okAll = false
			}
		}
		s.check(okAll && nPos == 1, "tField.EncodedSize", c.Pos(fe.Pos()), "fixed size = fieldHeaderLen + FixedSize only for non-pointer, non-optional, fixed-width fields", "(*tField).EncodedSize reports a fixed size for a field that may be skipped (pointer or optional) or with the wrong value: fixedLenFieldSize would count bytes the writer does not always emit")
	}
	// fromDefsFields: fixedLenFieldSize += n (n > 0) else varLenFields
	if ff := c.Func(pkgReflect, "(*structDesc).fromDefsFields"); ff != nil {
		d := ff.Params[0].Name()
		sum, vl := false, false
		for _, b := range ff.Blocks {
			for _, ins := range b.Instrs {
				st, ok := ins.(*ssa.Store)
				if !ok {
					continue
				}
				switch path(st.Addr) {
				case d + ".fixedLenFieldSize":
					if bo, ok := st.Val.(*ssa.BinOp); ok && bo.Op == token.ADD {
						if call, ok := bo.Y.(*ssa.Call); ok && call.Call.StaticCallee() != nil && shortFn(call.Call.StaticCallee()) == "tField.EncodedSize" {
							for _, cd := range domConds(b) {
								if c2, ok := cd.V.(*ssa.BinOp); ok && c2.Op == token.GTR && c2.X == ssa.Value(call) && cd.Truth {
									sum = true
								}
							}
						}
					}
				case d + ".varLenFields":
					for _, cd := range domConds(b) {
						if c2, ok := cd.V.(*ssa.BinOp); ok && c2.Op == token.GTR && !cd.Truth {
							if call, ok := c2.X.(*ssa.Call); ok && call.Call.StaticCallee() != nil && shortFn(call.Call.StaticCallee()) == "tField.EncodedSize" {
								vl = true
							}
						}
					}
				}
			}
		}
		if !sum || !vl {
			// the size test of (*tField).EncodedSize written out in the loop: summed exactly under "not a pointer, not optional,
			// fixed width" with the value fieldHeaderLen + FixedSize, walked per value on every edge where one of the three fails
			optv, _ := c.constOf(pkgDefs, "Optional")
			isum, ivl := false, false
			for _, b := range ff.Blocks {
				for _, ins := range b.Instrs {
					st, ok := ins.(*ssa.Store)
					if !ok {
						continue
					}
					switch path(st.Addr) {
					case d + ".fixedLenFieldSize":
						bo, ok := st.Val.(*ssa.BinOp)
						if !ok || bo.Op != token.ADD {
							continue
						}
						ls := map[string]bool{}
						var walk func(v ssa.Value)
						walk = func(v ssa.Value) {
							if x, ok := v.(*ssa.BinOp); ok && x.Op == token.ADD {
								walk(x.X)
								walk(x.Y)
								return
							}
							ls[leafDesc(v)] = true
						}
						walk(bo.Y)
						fld := ""
						for l := range ls {
							if strings.HasPrefix(l, "ld:") && strings.HasSuffix(l, ".Type.FixedSize") {
								fld = strings.TrimSuffix(strings.TrimPrefix(l, "ld:"), ".Type.FixedSize")
							}
						}
						if fld == "" || len(ls) != 2 || !ls[fmt.Sprintf("c:%d", fh)] {
							continue
						}
						notPtr := false
						for _, cd := range domConds(b) {
							if _, _, f2, ok := fieldOf(cd.V); ok && f2 == "IsPointer" && !cd.Truth {
								notPtr = true
							}
						}
						if notPtr && holdsAt(b, fmt.Sprint(optv), "!=", fld+".Spec", descInt) && holdsAt(b, "0", "<", fld+".Type.FixedSize", descInt) {
							isum = true
						}
					case d + ".varLenFields":
						okPreds, nPreds := true, 0
						for _, p := range b.Preds {
							iff, ok := p.Instrs[len(p.Instrs)-1].(*ssa.If)
							if !ok {
								okPreds = false
								continue
							}
							nPreds++
							truth := p.Succs[0] == b
							fails := false
							if _, _, f2, ok := fieldOf(iff.Cond); ok && f2 == "IsPointer" && truth {
								fails = true
							}
							if l, op, r, ok := relOf(iff.Cond, truth, descInt); ok {
								switch {
								case op == "==" && (strings.HasSuffix(l, ".Spec") && r == fmt.Sprint(optv) || strings.HasSuffix(r, ".Spec") && l == fmt.Sprint(optv)):
									fails = true
								case strings.HasSuffix(l, ".Type.FixedSize") && r == "0" && (op == "<=" || op == "==" || op == "<"):
									fails = true
								case strings.HasSuffix(r, ".Type.FixedSize") && l == "0" && (op == ">=" || op == "==" || op == ">"):
									fails = true
								}
							}
							if !fails {
								okPreds = false
							}
						}
						if okPreds && nPreds > 0 {
							ivl = true
						}
					}
				}
			}
			if isum && ivl {
				sum, vl = true, true
			}
		}
		s.check(sum && vl, "fromDefsFields:partition", c.Pos(ff.Pos()), "fields with a fixed size are summed, all others are walked per value", "fields are not partitioned into fixedLenFieldSize (n > 0) and varLenFields (otherwise)")
	}
	return s.obs
}
