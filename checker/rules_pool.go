package main

import (
	"fmt"
	"go/token"
	"go/types"
	"sort"
	"strings"

	"golang.org/x/tools/go/ssa"
)

func init() {
	register(&Rule{ID: "E2.pool-typestate", Min: 8,
		Text: "for every sync.Pool Get in the codec: the asserted type is what the pool's New returns; the object stays call-private (never stored, never converted to an interface except for Put, never passed on except as method receiver); exactly one Put of the same object into the same pool on every exit (defer, or one Put on every path) and no use of the object or of values loaded from it after the Put; the pool-specific reset obligation dominates the first dependent use (bitset: unset over requiredFieldIDs; unknownFields: Reset() before Add/Size/Copy and Reset clears sz and offs; rvPool: Elem().Set(rv) whole-value overwrite; typePool: *p = Type{}); a pool not in the table is undecided",
		Run:  ruleE2})
	register(&Rule{ID: "E2.destination-freshness", Min: 6,
		Text: "the struct decoder writes only the fields present in the message, so every destination it is handed must be fresh: the caller's top-level object, memory obtained from Malloc with the struct's (non-zero) type, a field of such memory, or - for the pooled map key/value slots - cleared by reflect.Value.SetZero on every path of the iteration whose only conditions are T == tSTRUCT and !IsPointer; every non-struct decode (string, binary, list, set, map, nocopy view) stores its destination on every success path, so a reused slot never keeps a previous value",
		Run:  ruleFreshness})
}

type poolSpec struct {
	reset string // none | unset-loop | reset-call | set-whole | zero-struct | slots
	note  string
}

var poolTable = map[string]poolSpec{
	"bitsetPool":        {"unset-loop", "presence set: required ids cleared before the field loop"},
	"unknownFieldsPool": {"reset-call", "unknown-field index: Reset() before use"},
	"decoderPool":       {"none", "bump allocator only hands out fresh ranges (rule E9.bump); nothing to reset"},
	"rvPool":            {"set-whole", "by-value argument copy: whole value overwritten"},
	"MapTmpVarsPool":    {"slots", "map key/value decode slots: rule E2.destination-freshness"},
	"typePool":          {"zero-struct", "defs.Type objects: *p = Type{} before reuse"},
}

func poolName(v ssa.Value) string {
	p := path(v)
	if i := strings.LastIndex(p, "."); i >= 0 {
		p = p[i+1:]
	}
	return p
}

func isPoolCall(call ssa.CallInstruction, method string) bool {
	f := call.Common().StaticCallee()
	return f != nil && f.Name() == method && fnPkgPath(f) == "sync" && strings.Contains(f.String(), "Pool")
}

// aliases of obj: the typeassert value, phis of it, conversions (to unsafe.Pointer and back to typed pointers).
func aliasSet(obj ssa.Value) map[ssa.Value]bool {
	al := map[ssa.Value]bool{obj: true}
	for changed := true; changed; {
		changed = false
		for v := range al {
			for _, r := range referrers(v) {
				switch x := r.(type) {
				case *ssa.Phi:
					if !al[x] {
						al[x] = true
						changed = true
					}
				case *ssa.Convert:
					if !al[x] && (isUnsafePointer(x.Type()) || isPointerType(x.Type())) {
						al[x] = true
						changed = true
					}
				case *ssa.ChangeType:
					if !al[x] {
						al[x] = true
						changed = true
					}
				}
			}
		}
	}
	return al
}

func isPointerType(t types.Type) bool {
	_, ok := t.Underlying().(*types.Pointer)
	return ok
}

func ruleE2(c *Ctx) []Ob {
	s := newSink(c, "E2.pool-typestate")
	for _, fn := range c.ModuleFuncs(pkgReflect, pkgDefs) {
		for _, b := range fn.Blocks {
			for _, ins := range b.Instrs {
				call, ok := ins.(*ssa.Call)
				if !ok || !isPoolCall(call, "Get") {
					continue
				}
				e2GetSite(c, s, fn, call)
			}
		}
	}
	// scratch objects used by the struct decoder are the pooled, call-private ones
	for _, fn := range c.ModuleFuncs(pkgReflect) {
		if fn.Name() == "init" || strings.HasPrefix(shortFn(fn), "unknownFields.") || strings.HasPrefix(shortFn(fn), "bitset.") {
			continue
		}
		for _, b := range fn.Blocks {
			for _, ins := range b.Instrs {
				call, ok := ins.(*ssa.Call)
				if !ok {
					continue
				}
				f := call.Call.StaticCallee()
				if f == nil || f.Signature.Recv() == nil || len(call.Call.Args) == 0 {
					continue
				}
				rt := namedOf(f.Signature.Recv().Type())
				if rt != "unknownFields" && rt != "bitset" {
					continue
				}
				okSrc := true
				seen := map[ssa.Value]bool{}
				var walk func(v ssa.Value)
				walk = func(v ssa.Value) {
					if seen[v] {
						return
					}
					seen[v] = true
					switch x := v.(type) {
					case *ssa.Phi:
						for _, e := range x.Edges {
							walk(e)
						}
					case *ssa.Const:
						if x.Value != nil {
							okSrc = false
						}
					case *ssa.TypeAssert:
						if g, ok := x.X.(*ssa.Call); !ok || !isPoolCall(g, "Get") {
							okSrc = false
						}
					case *ssa.Call:
						// an acquiring helper: every value it returns comes from the pool
						af := x.Call.StaticCallee()
						if af == nil || af.Blocks == nil || af.Signature.Results().Len() != 1 || len(seen) > 8 {
							okSrc = false
							break
						}
						for _, ab := range af.Blocks {
							if ret, ok := ab.Instrs[len(ab.Instrs)-1].(*ssa.Return); ok {
								walk(unspill(ret.Results[0], ab))
							}
						}
					default:
						okSrc = false
					}
				}
				walk(call.Call.Args[0])
				s.check(okSrc, shortFn(fn)+":scratch-private:"+rt+"."+f.Name(), c.InstrPos(call), "scratch object comes from the pool in this call",
					"the "+rt+" used here is not an object taken from the pool by this call (shared scratch: a nested or concurrent decode would overwrite it): "+c.srcLine(call.Pos()))
			}
		}
	}
	// New functions hand out fresh objects: what they build is allocated in the call, and nothing captured from the enclosing
	// function (other than through constructor calls such as reflect.New(t)) is stored into it or returned
	seenNew := map[*ssa.Function]bool{}
	for _, nf := range c.poolNewFns {
		if seenNew[nf] {
			continue
		}
		seenNew[nf] = true
		captured := map[ssa.Value]bool{}
		for _, fv := range nf.FreeVars {
			captured[fv] = true
		}
		// package-level variables that hold references are shared state just like captured variables
		for _, b := range nf.Blocks {
			for _, ins := range b.Instrs {
				if u, ok := ins.(*ssa.UnOp); ok && u.Op == token.MUL {
					if g, ok := u.X.(*ssa.Global); ok && c.InModule2(g) && hasPointers(u.Type()) {
						captured[u] = true
					}
				}
			}
		}
		for changed := true; changed; {
			changed = false
			for _, b := range nf.Blocks {
				for _, ins := range b.Instrs {
					v, ok := ins.(ssa.Value)
					if !ok || captured[v] {
						continue
					}
					switch x := ins.(type) {
					case *ssa.UnOp:
						if captured[x.X] {
							captured[v], changed = true, true
						}
					case *ssa.FieldAddr:
						if captured[x.X] {
							captured[v], changed = true, true
						}
					case *ssa.Field:
						if captured[x.X] {
							captured[v], changed = true, true
						}
					case *ssa.Convert:
						if captured[x.X] {
							captured[v], changed = true, true
						}
					case *ssa.ChangeType:
						if captured[x.X] {
							captured[v], changed = true, true
						}
					case *ssa.Phi:
						for _, e := range x.Edges {
							if captured[e] {
								captured[v], changed = true, true
							}
						}
					}
				}
			}
		}
		bad := ""
		for _, b := range nf.Blocks {
			for _, ins := range b.Instrs {
				switch x := ins.(type) {
				case *ssa.Store:
					if captured[x.Val] {
						bad = "stores a value captured from the enclosing function (" + path(x.Val) + ") at " + c.InstrPos(x)
					}
				case *ssa.MakeInterface:
					if captured[x.X] {
						bad = "returns a value captured from the enclosing function at " + c.InstrPos(x)
					}
					if _, isAlloc := x.X.(*ssa.Alloc); !isAlloc {
						if _, isRet := b.Instrs[len(b.Instrs)-1].(*ssa.Return); isRet && bad == "" {
							if _, isCall := x.X.(*ssa.Call); !isCall {
								bad = "returns something that is not allocated in the call at " + c.InstrPos(x)
							}
						}
					}
				}
			}
		}
		parent := "package level"
		if nf.Parent() != nil {
			parent = shortFn(nf.Parent())
		}
		s.check(bad == "", "pool-new:"+parent+":"+nf.Name(), c.Pos(nf.Pos()), "New builds a fresh object from constructor calls only", "the pool's New function "+bad+": every object of the pool shares that state, so concurrent users of the pool overwrite each other's scratch")
	}
	// a by-value struct argument is encoded from its pooled, addressable copy: the data word of the caller's reflect.Value
	// is used as the struct's address (rvPtr) only where the value is known not to be a struct (for a struct whose only field is
	// a pointer or a map the data word is that field, not the struct's address)
	kStructV, _ := c.constOf("reflect", "Struct")
	kPtrV, _ := c.constOf("reflect", "Ptr")
	for _, fn := range c.ModuleFuncs(pkgReflect) {
		for _, b := range fn.Blocks {
			for _, ins := range b.Instrs {
				call, ok := ins.(*ssa.Call)
				if !ok || call.Call.StaticCallee() == nil || !isRvPtrFn(call.Call.StaticCallee()) || len(call.Call.Args) != 1 {
					continue
				}
				ud := descAccessor(call.Call.Args[0], nil, 0)
				good := false
				for f := range blockFacts(b) {
					if f == fmt.Sprintf("Kind(%s)!=%d", ud, kStructV) || f == fmt.Sprintf("Kind(%s)==%d", ud, kPtrV) {
						good = true
					}
				}
				s.check(good, shortFn(fn)+":rvPtr", c.InstrPos(call), "data word used as the struct address only for non-struct (pointer) arguments", "the data word of the argument's reflect.Value is taken as the struct's address without a dominating test that the argument is not a struct: a by-value struct with a single pointer or map field is stored directly in that word, so the encoder would walk from the field's value instead of the struct")
			}
		}
	}
	// factory pools: objects of defs.typePool become part of long-lived, shared type descriptions (field types, cached
	// descriptors); nothing in the module may hand one back - a second release of the same node makes the pool return one
	// node for two different types
	for _, fn := range c.ModuleFuncs(pkgReflect, pkgDefs, pkgRoot) {
		for _, b := range fn.Blocks {
			for _, ins := range b.Instrs {
				ci, ok := ins.(ssa.CallInstruction)
				if !ok {
					continue
				}
				f := ci.Common().StaticCallee()
				if f == nil || fnPkgPath(f) != pkgDefs {
					continue
				}
				if releaseParam(f, "typePool") >= 0 || f != fn && putsIntoPool(f, "typePool") {
					s.bad(shortFn(fn)+":typePool:release", c.InstrPos(ins), "a defs.Type node is handed back to typePool by "+shortFn(fn)+" (through "+f.Name()+"): the nodes are shared by descriptors and by nested parses, and no ownership argument shows that this is the only release - a node released twice is handed out for two different types")
				}
			}
		}
	}
	// Reset body of unknownFields
	if fn := c.Func(pkgReflect, "(*unknownFields).Reset"); fn != nil {
		szZero, offsTrunc := false, false
		for _, b := range fn.Blocks {
			for _, ins := range b.Instrs {
				st, ok := ins.(*ssa.Store)
				if !ok {
					continue
				}
				switch path(st.Addr) {
				case fn.Params[0].Name() + ".sz":
					if v, ok := constInt(st.Val); ok && v == 0 {
						szZero = true
					}
				case fn.Params[0].Name() + ".offs":
					if sl, ok := st.Val.(*ssa.Slice); ok && sl.Low == nil && sl.High != nil {
						if v, ok := constInt(sl.High); ok && v == 0 {
							offsTrunc = true
						}
					}
				}
			}
		}
		s.check(szZero && offsTrunc, "unknownFields.Reset:body", c.Pos(fn.Pos()), "Reset clears sz and truncates offs", "Reset does not clear both the byte count and the recorded extents")
	} else {
		s.bad("unknownFields.Reset:body", "-", "(*unknownFields).Reset not found")
	}
	// Add records exactly the extent it is given: sz += sz', offs = append(offs, {off, sz'}), nothing conditional
	if fn := c.Func(pkgReflect, "(*unknownFields).Add"); fn != nil && len(fn.Params) == 3 {
		p, off, sz := fn.Params[0].Name(), fn.Params[1], fn.Params[2]
		sumOK, appOK := false, false
		for _, b := range fn.Blocks {
			for _, ins := range b.Instrs {
				st, ok := ins.(*ssa.Store)
				if !ok {
					continue
				}
				switch path(st.Addr) {
				case p + ".sz":
					if bo, ok := st.Val.(*ssa.BinOp); ok && bo.Op == token.ADD && path(bo.X) == p+".sz" && bo.Y == ssa.Value(sz) {
						sumOK = true
					}
				case p + ".offs":
					if call, ok := st.Val.(*ssa.Call); ok && isBuiltin(call, "append") && path(call.Call.Args[0]) == p+".offs" {
						// appended element {off: off, sz: sz}
						if sl, ok := call.Call.Args[1].(*ssa.Slice); ok {
							if al, ok := sl.X.(*ssa.Alloc); ok {
								got := map[string]ssa.Value{}
								for _, r := range referrers(al) {
									ia, ok := r.(*ssa.IndexAddr)
									if !ok {
										continue
									}
									for _, rr := range referrers(ia) {
										switch y := rr.(type) {
										case *ssa.FieldAddr:
											for _, r3 := range referrers(y) {
												if s3, ok := r3.(*ssa.Store); ok {
													got[fieldName(y.X.Type(), y.Field)] = s3.Val
												}
											}
										case *ssa.Store:
											// whole struct value stored: built in a local
											if ld, ok := y.Val.(*ssa.UnOp); ok {
												for _, r4 := range referrers(ld.X) {
													if fa, ok := r4.(*ssa.FieldAddr); ok {
														for _, r5 := range referrers(fa) {
															if s5, ok := r5.(*ssa.Store); ok {
																got[fieldName(fa.X.Type(), fa.Field)] = s5.Val
															}
														}
													}
												}
											}
										}
									}
								}
								appOK = got["off"] == ssa.Value(off) && got["sz"] == ssa.Value(sz)
							}
						}
					}
				}
			}
		}
		s.check(sumOK && appOK && len(fn.Blocks) == 1, "unknownFields.Add:body", c.Pos(fn.Pos()), "Add records exactly (off, sz) and adds sz to the total", "Add does not simply record the extent it is given (conditional merging or different values): the bytes copied out later would not be the skipped fields in message order")
	} else {
		s.bad("unknownFields.Add:body", "-", "(*unknownFields).Add not found")
	}
	return s.obs
}

func e2GetSite(c *Ctx, s *obSink, fn *ssa.Function, get *ssa.Call) {
	pool := get.Call.Args[0]
	pname := poolName(pool)
	fname := shortFn(fn)
	key := fname + ":" + pname
	pos := c.InstrPos(get)
	spec, known := poolTable[pname]
	if !known {
		s.undec(key+":pool", pos, "sync.Pool "+path(pool)+" is not in the pool table: its reset obligation is unknown")
		return
	}
	// (a) asserted type
	var obj ssa.Value
	for _, r := range referrers(get) {
		if ta, ok := r.(*ssa.TypeAssert); ok {
			obj = ta
		}
	}
	if obj == nil {
		s.undec(key+":assert", pos, "result of Get is not type-asserted")
		return
	}
	newT := c.poolNewType(pool, fn)
	if newT == nil {
		s.undec(key+":assert", pos, "cannot resolve the pool's New function")
	} else {
		s.check(types.Identical(newT, obj.Type()), key+":assert", pos, "asserted type "+obj.Type().String()+" is what New returns", "asserted type "+obj.Type().String()+" differs from what New returns ("+newT.String()+")")
	}
	e2Track(c, s, fn, get, obj, pname, spec, key, false, 0)
}

// releaseParam: f puts its k-th parameter back into the pool named pname on every path (a release helper); -1 otherwise.
// putsIntoPool: f hands an object derived from one of its parameters (the receiver included) to the named pool, whatever
// else it does (a release that also walks and releases what the object refers to).
func putsIntoPool(f *ssa.Function, pname string) bool {
	if f == nil || f.Blocks == nil {
		return false
	}
	for _, b := range f.Blocks {
		for _, ins := range b.Instrs {
			ci, ok := ins.(ssa.CallInstruction)
			if !ok || !isPoolCall(ci, "Put") || len(ci.Common().Args) != 2 || poolName(ci.Common().Args[0]) != pname {
				continue
			}
			mi, ok := ci.Common().Args[1].(*ssa.MakeInterface)
			if !ok {
				continue
			}
			for _, prm := range f.Params {
				if aliasSet(prm)[mi.X] {
					return true
				}
			}
		}
	}
	return false
}

func releaseParam(f *ssa.Function, pname string) int {
	if f == nil || f.Blocks == nil {
		return -1
	}
	// a release helper does nothing but give the object back: a function that also works with the object (and may run
	// more than once per object, e.g. recursively) is not one
	for _, b := range f.Blocks {
		for _, ins := range b.Instrs {
			if ci, ok := ins.(ssa.CallInstruction); ok && !isPoolCall(ci, "Put") {
				if _, isBuiltin := ci.Common().Value.(*ssa.Builtin); !isBuiltin {
					return -1
				}
			}
		}
	}
	for _, b := range f.Blocks {
		for _, ins := range b.Instrs {
			ci, ok := ins.(ssa.CallInstruction)
			if !ok || !isPoolCall(ci, "Put") || len(ci.Common().Args) != 2 || poolName(ci.Common().Args[0]) != pname {
				continue
			}
			if _, isDefer := ins.(*ssa.Defer); !isDefer && !b.Dominates(exitBlockOf(f)) {
				continue
			}
			mi, ok := ci.Common().Args[1].(*ssa.MakeInterface)
			if !ok {
				continue
			}
			for k, prm := range f.Params {
				if aliasSet(prm)[mi.X] {
					return k
				}
			}
		}
	}
	return -1
}

// e2Track checks the life of one pooled object in fn from the instruction that produced it (the Get, or the call of an
// acquiring helper that hands the object out): privacy, Put pairing, use after Put, and - unless the helper already did it -
// the pool's reset obligation.
func e2Track(c *Ctx, s *obSink, fn *ssa.Function, get ssa.Instruction, obj ssa.Value, pname string, spec poolSpec, key string, resetDone bool, depth int) {
	pos := c.InstrPos(get)
	al := aliasSet(obj)
	// a helper that zeroes its argument and hands it back (resetType) continues the object's life
	resetBy := map[*ssa.Call]bool{}
	for v := range al {
		for _, r := range referrers(v) {
			if call, ok := r.(*ssa.Call); ok {
				if f := call.Call.StaticCallee(); f != nil && zeroesFirstParam(f) && len(call.Call.Args) == 1 {
					resetBy[call] = true
					for a := range aliasSet(call) {
						al[a] = true
					}
				}
			}
		}
	}
	// (b) privacy and (c) Put pairing
	var puts []ssa.Instruction // Put calls (or defers) of obj into the same pool
	var deferred bool
	returned := false
	private := true
	why := ""
	for v := range al {
		for _, r := range referrers(v) {
			switch x := r.(type) {
			case *ssa.Phi, *ssa.Convert, *ssa.ChangeType, *ssa.DebugRef, *ssa.FieldAddr, *ssa.BinOp:
			case *ssa.UnOp:
				// load through the object: fine
			case *ssa.MakeInterface:
				okPut := false
				for _, rr := range referrers(x) {
					switch y := rr.(type) {
					case *ssa.Defer:
						if isPoolCall(y, "Put") && len(y.Call.Args) == 2 && poolName(y.Call.Args[0]) == pname {
							puts = append(puts, y)
							deferred = true
							okPut = true
						}
					case *ssa.Call:
						if isPoolCall(y, "Put") && len(y.Call.Args) == 2 && poolName(y.Call.Args[0]) == pname {
							puts = append(puts, y)
							okPut = true
						}
					}
				}
				if !okPut {
					private, why = false, "object converted to an interface at "+c.InstrPos(x)
				}
			case *ssa.Defer:
				if f := x.Call.StaticCallee(); f != nil {
					if k := releaseParam(f, pname); k >= 0 && k < len(x.Call.Args) && al[x.Call.Args[k]] {
						puts = append(puts, x)
						deferred = true
						continue
					}
				}
				private, why = false, "object captured by a deferred call at "+c.InstrPos(x)
			case *ssa.Call:
				if resetBy[x] {
					continue
				}
				if f := x.Call.StaticCallee(); f != nil {
					if k := releaseParam(f, pname); k >= 0 && k < len(x.Call.Args) && al[x.Call.Args[k]] {
						puts = append(puts, x)
						continue
					}
				}
				// allowed: receiver of a static method of its own type, or reflect.Value method through load
				f := x.Call.StaticCallee()
				if f != nil && f.Signature.Recv() != nil && len(x.Call.Args) > 0 && al[x.Call.Args[0]] {
					for _, a := range x.Call.Args[1:] {
						if al[a] {
							private, why = false, "object passed as an argument at "+c.InstrPos(x)
						}
					}
					continue
				}
				if f != nil && f.Blocks != nil && c.InModule(f) {
					okAll := true
					for k, a := range x.Call.Args {
						if al[a] && !paramStaysPrivate(f, k, 0) {
							okAll = false
						}
					}
					if okAll {
						continue
					}
				}
				private, why = false, "object passed to "+calleeShort(x)+" at "+c.InstrPos(x)
			case *ssa.Store:
				if al[x.Val] {
					private, why = false, "object stored at "+c.InstrPos(x)
				}
			case *ssa.Return:
				returned = true
			default:
				private, why = false, fmt.Sprintf("object used by %T at %s", r, c.InstrPos(r))
			}
		}
	}
	if returned && spec.reset == "zero-struct" {
		// factory pool: ownership moves to the caller; needs a whole-object reset on the path
		okReset := len(resetBy) > 0
		s.check(okReset, key+":reset", pos, "pooled object is zeroed (*p = T{}) before it is handed out", "pooled object is handed out without being zeroed")
		return
	}
	if returned {
		// an acquiring helper: the object's life continues in every caller, which owes the Put (and the reset, unless it
		// is done here before the object is handed out)
		if depth > 1 {
			s.undec(key+":handoff", pos, "pooled object handed out through more than two levels of helpers")
			return
		}
		s.check(private, key+":private", pos, "pooled object stays private to the helper until it is handed out", "pooled object escapes the call: "+why)
		s.check(len(puts) == 0, key+":put", pos, "the helper hands the object out without putting it back", "the object is both put back and handed out")
		idx := -1
		for _, b := range fn.Blocks {
			if ret, ok := b.Instrs[len(b.Instrs)-1].(*ssa.Return); ok {
				for i, rv := range ret.Results {
					if al[unspill(rv, b)] {
						idx = i
					}
				}
			}
		}
		done := resetDone || e2ResetOK(c, fn, get, al, spec, nil)
		ncall := 0
		for _, caller := range c.ModuleFuncs(pkgReflect, pkgDefs) {
			for _, cb := range caller.Blocks {
				for _, ins := range cb.Instrs {
					call, ok := ins.(*ssa.Call)
					if !ok || call.Call.StaticCallee() != fn {
						continue
					}
					ncall++
					var obj2 ssa.Value
					if fn.Signature.Results().Len() == 1 {
						obj2 = call
					} else {
						for _, r := range referrers(call) {
							if ex, ok := r.(*ssa.Extract); ok && ex.Index == idx {
								obj2 = ex
							}
						}
					}
					k2 := shortFn(caller) + ":" + pname
					if obj2 == nil {
						s.bad(k2+":put", c.InstrPos(call), "the pooled object handed out by "+fn.Name()+" is dropped: it is never put back")
						continue
					}
					e2Track(c, s, caller, call, obj2, pname, spec, k2, done, depth+1)
				}
			}
		}
		s.check(ncall > 0, key+":handoff", pos, fmt.Sprintf("object handed out to %d call site(s), each checked", ncall), "acquiring helper is never called")
		return
	}
	s.check(private, key+":private", pos, "pooled object stays private to the call", "pooled object escapes the call: "+why)
	// Put pairing
	switch {
	case len(puts) == 0:
		s.bad(key+":put", pos, "object taken from the pool is never put back")
	case deferred:
		d := puts[0]
		good := len(puts) == 1 && (d.Block() == get.Block() || get.Block().Dominates(d.Block())) && !isLoopHeaderReachable(d.Block())
		if len(puts) == 1 && !good && !isLoopHeaderReachable(d.Block()) {
			// the object reaches the defer through a merge with nil (taken in one branch): a defer that runs exactly when the
			// object is not nil releases it on every path that has one
			for _, cd := range domConds(d.Block()) {
				if bo, ok := cd.V.(*ssa.BinOp); ok && (bo.Op == token.NEQ) == cd.Truth && (bo.Op == token.NEQ || bo.Op == token.EQL) {
					if al[bo.X] && isNilConst(bo.Y) || al[bo.Y] && isNilConst(bo.X) {
						good = true
					}
				}
			}
		}
		s.check(good, key+":put", c.InstrPos(d), "Put deferred right after Get: runs once on every exit", "deferred Put is not a single defer following the Get outside loops")
	default:
		// explicit Put(s): every return reachable from the Get passes exactly one Put
		good, msg := exactlyOnePut(fn, get, puts)
		s.check(good, key+":put", c.InstrPos(puts[0]), "exactly one Put on every path from Get to a return", msg)
		// no use after Put of the object or of values loaded from it
		derived := map[ssa.Value]bool{}
		for v := range al {
			derived[v] = true
			for _, r := range referrers(v) {
				switch x := r.(type) {
				case *ssa.FieldAddr:
					derived[x] = true
					for _, rr := range referrers(x) {
						if u, ok := rr.(*ssa.UnOp); ok {
							derived[u] = true
						}
					}
				case *ssa.UnOp:
					derived[x] = true
				}
			}
		}
		// close under phi / Add / conversions
		for changed := true; changed; {
			changed = false
			for v := range derived {
				for _, r := range referrers(v) {
					switch x := r.(type) {
					case *ssa.Phi:
						if !derived[x] {
							derived[x] = true
							changed = true
						}
					case *ssa.Convert:
						if !derived[x] {
							derived[x] = true
							changed = true
						}
					case *ssa.Call:
						if isBuiltin(x, "Add") && !derived[x] {
							derived[x] = true
							changed = true
						}
					}
				}
			}
		}
		for _, p := range puts {
			if use := useAfter(p, derived); use != nil {
				s.bad(key+":use-after-put", c.InstrPos(use), "the pooled object (or a value loaded from it) is used after it was put back: another goroutine may already own it: "+c.srcLine(use.Pos()))
			} else {
				s.ok(key+":use-after-put", c.InstrPos(p), "nothing derived from the object is used after Put")
			}
		}
	}
	if deferred {
		// with a deferred Put nothing loaded from the object may leave the function: it would be used after the Put
		derived := map[ssa.Value]bool{}
		for v := range al {
			for _, r := range referrers(v) {
				switch x := r.(type) {
				case *ssa.FieldAddr:
					for _, rr := range referrers(x) {
						if u, ok := rr.(*ssa.UnOp); ok {
							derived[u] = true
						}
					}
				case *ssa.UnOp:
					derived[x] = true
				}
			}
		}
		for changed := true; changed; {
			changed = false
			for v := range derived {
				for _, r := range referrers(v) {
					if p, ok := r.(*ssa.Phi); ok && !derived[p] {
						derived[p] = true
						changed = true
					}
				}
			}
		}
		leak := ssa.Instruction(nil)
		for _, b := range fn.Blocks {
			if ret, ok := b.Instrs[len(b.Instrs)-1].(*ssa.Return); ok {
				for _, rv := range ret.Results {
					v := unspill(rv, b)
					if derived[v] && isUnsafePointer(v.Type()) || al[v] {
						leak = ret
					}
				}
			}
		}
		if leak != nil {
			s.bad(key+":use-after-put", c.InstrPos(leak), "a pointer into the pooled object is returned from the function whose deferred Put gives the object back: the caller uses it after another goroutine may have taken it")
		} else {
			s.ok(key+":use-after-put", pos, "Put is deferred to function exit and nothing loaded from the object is returned")
		}
	}
	// (d) reset obligation
	if resetDone {
		s.ok(key+":reset", pos, "reset by the acquiring helper before the object is handed out")
		return
	}
	var msg string
	good := e2ResetOK(c, fn, get, al, spec, &msg)
	if spec.reset != "none" && spec.reset != "slots" && spec.reset != "reset-call" && spec.reset != "unset-loop" && spec.reset != "set-whole" {
		s.undec(key+":reset", pos, "no reset rule for this pool")
		return
	}
	s.check(good, key+":reset", pos, spec.note, msg)
}

// e2ResetOK evaluates the pool's reset obligation for the object (alias set al) produced by instruction get in fn.
func e2ResetOK(c *Ctx, fn *ssa.Function, get ssa.Instruction, al map[ssa.Value]bool, spec poolSpec, why *string) bool {
	setWhy := func(m string) {
		if why != nil {
			*why = m
		}
	}
	switch spec.reset {
	case "none", "slots":
		return true
	case "reset-call":
		var reset *ssa.Call
		var users []*ssa.Call
		for v := range al {
			for _, r := range referrers(v) {
				if call, ok := r.(*ssa.Call); ok {
					if f := call.Call.StaticCallee(); f != nil && len(call.Call.Args) > 0 && al[call.Call.Args[0]] {
						if f.Name() == "Reset" {
							reset = call
						} else {
							users = append(users, call)
						}
					}
				}
			}
		}
		// Reset in the block of the Get, after it: every path from the Get passes it
		good := reset != nil && reset.Block() == get.Block() && instrIndex(reset) > instrIndex(get)
		if good {
			for _, u := range users {
				if u.Block() == get.Block() && instrIndex(u) < instrIndex(reset) {
					good = false
				}
			}
		}
		setWhy("the recorder taken from the pool is not Reset() right after Get and before its first use: extents of an earlier (possibly failed) decode would be applied to this buffer")
		return good
	case "unset-loop":
		// a range loop over <sd>.requiredFieldIDs calling unset(obj, elem), whose exit dominates every set/test
		var unset *ssa.Call
		var users []*ssa.Call
		for v := range al {
			for _, r := range referrers(v) {
				if call, ok := r.(*ssa.Call); ok {
					if f := call.Call.StaticCallee(); f != nil && len(call.Call.Args) > 0 && al[call.Call.Args[0]] {
						if f.Name() == "unset" {
							unset = call
						} else {
							users = append(users, call)
						}
					}
				}
			}
		}
		good := false
		msg := "the presence set taken from the pool is not cleared for exactly the required ids (a loop `for _, f := range sd.requiredFieldIDs { bs.unset(f) }`) before the field loop: bits left by an earlier decode would hide a missing required field"
		if unset != nil && len(unset.Call.Args) == 2 {
			el := path(unset.Call.Args[1])
			if strings.Contains(el, ".requiredFieldIDs[") && isRangeBody(unset.Block()) {
				good = true
				// loop header of the unset loop must dominate users, and users must not be inside that loop
				hdr := unset.Block().Idom()
				for _, u := range users {
					// every path from the Get to a use goes through the clearing loop's header (and so through the whole loop)
					if u.Block() == unset.Block() || reachesAvoiding(get.Block(), u.Block(), hdr) {
						good = false
					}
					if blockReaches(u.Block(), unset.Block()) {
						good = false
					}
				}
				// the Get/unset must be unconditional except for len(requiredFieldIDs) > 0
				for _, cd := range domConds(get.Block()) {
					okc := false
					if bo, ok := cd.V.(*ssa.BinOp); ok && strings.Contains(path(bo.X), "requiredFieldIDs") {
						okc = true
					}
					if !okc {
						// conditions inherited from the function entry (depth test) are fine when they dominate everything
						if !cd.If.Block().Dominates(fn.Blocks[len(fn.Blocks)-1]) && !leavesFunction(cd.If.Block().Succs[0]) {
							good = false
						}
					}
				}
			}
		}
		setWhy(msg)
		return good
	case "set-whole", "set-whole-direct":
		// reflect.Value.Set(Elem(load obj), rv) before the pointer is extracted
		good := false
		for v := range al {
			for _, r := range referrers(v) {
				u, ok := r.(*ssa.UnOp)
				if !ok {
					continue
				}
				for _, rr := range referrers(u) {
					el, ok := rr.(*ssa.Call)
					if !ok || el.Call.StaticCallee() == nil || el.Call.StaticCallee().Name() != "Elem" {
						continue
					}
					for _, r3 := range referrers(el) {
						if st, ok := r3.(*ssa.Call); ok && st.Call.StaticCallee() != nil && st.Call.StaticCallee().Name() == "Set" && fnPkgPath(st.Call.StaticCallee()) == "reflect" {
							good = true
							// must dominate every conversion of obj to unsafe.Pointer
							for a := range al {
								if cv, ok := a.(*ssa.Convert); ok && isUnsafePointer(cv.Type()) && !instrDominates(st, cv) {
									good = false
								}
							}
						}
					}
				}
			}
		}
		if !good && spec.reset == "set-whole" {
			// the overwrite may be done by a helper that receives the object: the helper sets the whole value before it
			// takes the address, and the caller does not take the address itself before the call
			for v := range al {
				for _, r := range referrers(v) {
					hc, ok := r.(*ssa.Call)
					if !ok || hc.Call.StaticCallee() == nil || hc.Call.StaticCallee().Blocks == nil {
						continue
					}
					hf := hc.Call.StaticCallee()
					for k, a := range hc.Call.Args {
						if a != v || k >= len(hf.Params) {
							continue
						}
						pal := aliasSet(hf.Params[k])
						if e2ResetOK(c, hf, hf.Blocks[0].Instrs[0], pal, poolSpec{reset: "set-whole-direct"}, nil) {
							good = true
							for a2 := range al {
								if cv, ok := a2.(*ssa.Convert); ok && isUnsafePointer(cv.Type()) && !instrDominates(hc, cv) {
									good = false
								}
							}
						}
					}
				}
			}
		}
		setWhy("the pooled copy is not overwritten by Elem().Set(rv) before its address is taken: the encoder would read a previous call's value")
		return good
	}
	return false
}

// reachesAvoiding: to is reachable from from without entering block avoid.
func reachesAvoiding(from, to, avoid *ssa.BasicBlock) bool {
	seen := map[*ssa.BasicBlock]bool{avoid: true}
	st := []*ssa.BasicBlock{}
	for _, sc := range from.Succs {
		st = append(st, sc)
	}
	for len(st) > 0 {
		x := st[len(st)-1]
		st = st[:len(st)-1]
		if seen[x] {
			continue
		}
		seen[x] = true
		if x == to {
			return true
		}
		st = append(st, x.Succs...)
	}
	return false
}

func isRangeBody(b *ssa.BasicBlock) bool {
	h := b.Idom()
	if h == nil {
		return false
	}
	for _, ins := range h.Instrs {
		if p, ok := ins.(*ssa.Phi); ok && p.Comment == "rangeindex" {
			return true
		}
	}
	return false
}

func isLoopHeaderReachable(b *ssa.BasicBlock) bool {
	return blockReaches(b, b)
}

// zeroesFirstParam: function stores the zero value of the pointee through its first parameter.
func zeroesFirstParam(f *ssa.Function) bool {
	if len(f.Params) == 0 || f.Blocks == nil {
		return false
	}
	for _, b := range f.Blocks {
		for _, ins := range b.Instrs {
			if st, ok := ins.(*ssa.Store); ok && st.Addr == ssa.Value(f.Params[0]) {
				if cv, ok := st.Val.(*ssa.Const); ok && cv.Value == nil {
					return true
				}
			}
		}
	}
	return false
}

// poolNewType resolves the dynamic type returned by the pool's New function.
func (c *Ctx) poolNewType(pool ssa.Value, at *ssa.Function) types.Type {
	name := poolName(pool)
	// find stores to a field named New of a sync.Pool whose enclosing object matches the pool
	var best types.Type
	for _, fn := range c.ModuleFuncs(pkgReflect, pkgDefs) {
		for _, b := range fn.Blocks {
			for _, ins := range b.Instrs {
				st, ok := ins.(*ssa.Store)
				if !ok {
					continue
				}
				fa, ok := st.Addr.(*ssa.FieldAddr)
				if !ok || fieldName(fa.X.Type(), fa.Field) != "New" || !strings.Contains(fa.X.Type().String(), "sync.Pool") {
					continue
				}
				owner := path(fa.X)
				match := strings.HasSuffix(owner, name) || strings.Contains(owner, name)
				if !match {
					// pool literal assigned later: d.rvPool = sync.Pool{New: ...}; &sync.Pool{New: ...} returned by initOrGetMapTmpVarsPool
					match = poolLiteralFlowsTo(fa.X, name)
				}
				if !match {
					continue
				}
				var nf *ssa.Function
				switch v := strip(st.Val).(type) {
				case *ssa.MakeClosure:
					nf, _ = v.Fn.(*ssa.Function)
				case *ssa.Function:
					nf = v
				}
				if nf == nil {
					continue
				}
				if nf.Synthetic != "" {
					// bound method value (d.newRV): the wrapper only forwards to the method
					for _, wb := range nf.Blocks {
						for _, wi := range wb.Instrs {
							if wc, ok := wi.(*ssa.Call); ok && wc.Call.StaticCallee() != nil && wc.Call.StaticCallee().Blocks != nil {
								nf = wc.Call.StaticCallee()
							}
						}
					}
				}
				for _, nb := range nf.Blocks {
					if ret, ok := nb.Instrs[len(nb.Instrs)-1].(*ssa.Return); ok && len(ret.Results) == 1 {
						if mi, ok := ret.Results[0].(*ssa.MakeInterface); ok {
							best = mi.X.Type()
						}
					}
				}
				c.poolNewFns = append(c.poolNewFns, nf)
			}
		}
	}
	if best == nil && name == "typePool" {
		// typePool has no New: nil result is handled by the caller (new(Type))
		if o := c.ByPath[pkgDefs].Types.Scope().Lookup("Type"); o != nil {
			return types.NewPointer(o.Type())
		}
	}
	return best
}

// poolLiteralFlowsTo: the sync.Pool value built in alloc x is stored into / returned as something named name.
func poolLiteralFlowsTo(x ssa.Value, name string) bool {
	al, ok := x.(*ssa.Alloc)
	if !ok {
		return false
	}
	for _, r := range referrers(al) {
		switch y := r.(type) {
		case *ssa.UnOp:
			for _, rr := range referrers(y) {
				if st, ok := rr.(*ssa.Store); ok && strings.HasSuffix(path(st.Addr), name) {
					return true
				}
			}
		case *ssa.Return:
			// returned pool pointer: match by the enclosing function being the initialiser of name
			return strings.Contains(strings.ToLower(al.Parent().Name()), strings.ToLower(name))
		}
	}
	return false
}

// exactlyOnePut: every Return reachable from the Get is reached with exactly one Put executed.
func exactlyOnePut(fn *ssa.Function, get ssa.Instruction, puts []ssa.Instruction) (bool, string) {
	isPut := map[ssa.Instruction]bool{}
	for _, p := range puts {
		isPut[p] = true
	}
	// state per block entry: bitmask of possible counts {0,1,2+}
	in := map[*ssa.BasicBlock]int{}
	var work []*ssa.BasicBlock
	start := get.Block()
	// count puts after get within start block
	proc := func(b *ssa.BasicBlock, mask int, from int) int {
		out := mask
		for i := from; i < len(b.Instrs); i++ {
			if isPut[b.Instrs[i]] {
				nm := 0
				if out&1 != 0 {
					nm |= 2
				}
				if out&2 != 0 || out&4 != 0 {
					nm |= 4
				}
				out = nm
			}
		}
		return out
	}
	outStart := proc(start, 1, instrIndex(get)+1)
	okAll := true
	msg := ""
	checkRet := func(b *ssa.BasicBlock, out int) {
		if _, ok := b.Instrs[len(b.Instrs)-1].(*ssa.Return); ok {
			if out != 2 {
				okAll = false
				if out&1 != 0 {
					msg = "a path from Get reaches a return without putting the object back"
				} else {
					msg = "a path from Get puts the object back more than once"
				}
			}
		}
	}
	checkRet(start, outStart)
	for _, sc := range start.Succs {
		if in[sc]|outStart != in[sc] {
			in[sc] |= outStart
			work = append(work, sc)
		}
	}
	for len(work) > 0 {
		b := work[len(work)-1]
		work = work[:len(work)-1]
		out := proc(b, in[b], 0)
		checkRet(b, out)
		for _, sc := range b.Succs {
			if in[sc]|out != in[sc] {
				in[sc] |= out
				work = append(work, sc)
			}
		}
	}
	return okAll, msg
}

// useAfter finds an instruction after put (in CFG order) that uses a derived value.
func useAfter(put ssa.Instruction, derived map[ssa.Value]bool) ssa.Instruction {
	uses := func(in ssa.Instruction) bool {
		if _, ok := in.(*ssa.DebugRef); ok {
			return false
		}
		for _, op := range in.Operands(nil) {
			if *op != nil && derived[*op] {
				// phis merely merging values are not uses by themselves
				if _, isPhi := in.(*ssa.Phi); isPhi {
					return false
				}
				return true
			}
		}
		return false
	}
	b := put.Block()
	for i := instrIndex(put) + 1; i < len(b.Instrs); i++ {
		if uses(b.Instrs[i]) {
			return b.Instrs[i]
		}
	}
	seen := map[*ssa.BasicBlock]bool{}
	st := append([]*ssa.BasicBlock(nil), b.Succs...)
	for len(st) > 0 {
		x := st[len(st)-1]
		st = st[:len(st)-1]
		if seen[x] {
			continue
		}
		seen[x] = true
		for _, in := range x.Instrs {
			if x == b && instrIndex(in) <= instrIndex(put) {
				// reached the put block again through a loop: instructions before the put belong to the next iteration,
				// which takes a new object only if the Get is also inside the loop; be conservative only for later ones
				continue
			}
			if uses(in) {
				return in
			}
		}
		st = append(st, x.Succs...)
	}
	return nil
}

// ---------------------------------------------------------------- destination freshness

func ruleFreshness(c *Ctx) []Ob {
	s := newSink(c, "E2.destination-freshness")
	k, err := c.kinds()
	if err != nil {
		s.undec("kinds", "-", err.Error())
		return s.obs
	}
	dec := c.decodeLoopFn()
	if dec == nil {
		s.bad("roles", "-", "struct decoder not found")
		return s.obs
	}
	closure := c.decodeClosure()
	structural := map[*ssa.Function]bool{dec: true} // callees that may end up decoding a struct in place
	for _, vd := range c.valueDecoders() {
		if shortFn(vd) != "decodeFixedSizeTypes" && shortFn(vd) != "decodeStringNoCopy" {
			structural[vd] = true
		}
	}
	_ = closure
	// (1) call sites of decodeType / Decode: provenance of the destination pointer
	for _, fn := range c.ModuleFuncs(pkgReflect) {
		for _, b := range fn.Blocks {
			for _, ins := range b.Instrs {
				call, ok := ins.(*ssa.Call)
				if !ok {
					continue
				}
				callee := call.Call.StaticCallee()
				if !structural[callee] {
					continue
				}
				var ptr ssa.Value
				for _, a := range call.Call.Args {
					if isUnsafePointer(a.Type()) {
						ptr = a
					}
				}
				key := shortFn(fn) + "->" + callee.Name() + ":dest"
				pos := c.InstrPos(call)
				cls := destClasses(ptr)
				var bad []string
				for _, cl := range cls {
					switch {
					case cl == "param", cl == "user-arg", cl == "malloc", cl == "field-of-base":
					case strings.HasPrefix(cl, "pool-slot:"):
						slot := strings.TrimPrefix(cl, "pool-slot:") // kp or vp
						if !slotCleared(c, s, fn, call, slot, k) {
							bad = append(bad, "pooled map "+slot+" slot is handed to the decoder without being cleared for by-value structs")
						}
					default:
						bad = append(bad, "destination of unknown provenance: "+cl)
					}
				}
				if len(bad) == 0 {
					s.ok(key, pos, "destination is "+strings.Join(cls, "/"))
				} else {
					s.bad(key, pos, strings.Join(bad, "; ")+": "+c.srcLine(call.Pos()))
				}
			}
		}
	}
	// (2) non-struct decodes store their destination on every success path
	nvd := 0
	for _, fn := range c.valueDecoders() {
		if shortFn(fn) == "decodeFixedSizeTypes" {
			continue // rule T7
		}
		nvd++
		destWritten(c, s, fn, k)
	}
	if nvd == 0 {
		s.bad("dest-written", "-", "no value decoder found in the decode closure")
	}
	return s.obs
}

// destClasses classifies where a destination pointer comes from.
func destClasses(v ssa.Value) []string {
	out := map[string]bool{}
	seen := map[ssa.Value]bool{}
	var walk func(v ssa.Value)
	walk = func(v ssa.Value) {
		if seen[v] {
			return
		}
		seen[v] = true
		switch x := v.(type) {
		case *ssa.Phi:
			for _, e := range x.Edges {
				walk(e)
			}
		case *ssa.Parameter:
			out["param"] = true
		case *ssa.Call:
			if isBuiltin(x, "Add") {
				// field of the struct being decoded, or next element of an allocated batch
				if recv, _, f, ok := fieldOf(stripConv(x.Call.Args[1])); ok && f == "Offset" {
					_ = recv
					out["field-of-base"] = true
					return
				}
				walk(x.Call.Args[0])
				return
			}
			f := x.Call.StaticCallee()
			switch {
			case f == nil:
				out["dynamic-call"] = true
			case shortFn(f) == "tDecoder.Malloc":
				out["malloc"] = true
			case shortFn(f) == "tDecoder.mallocIfPointer":
				walk(x.Call.Args[2]) // returns p or fresh memory
				out["malloc"] = true
			case f.Name() == "UnsafePointer" && fnPkgPath(f) == "reflect":
				out["user-arg"] = true
			default:
				out["call:"+shortFn(f)] = true
			}
		case *ssa.UnOp:
			if x.Op == token.MUL {
				if _, typ, f, ok := fieldOf(x); ok && typ == "tmpMapVars" && (f == "kp" || f == "vp") {
					out["pool-slot:"+f] = true
					return
				}
				out["load:"+path(x.X)] = true
				return
			}
			out[x.Name()] = true
		case *ssa.Convert:
			walk(x.X)
		case *ssa.Const:
			if x.Value != nil {
				out[path(v)] = true
			}
		default:
			out[path(v)] = true
		}
	}
	walk(v)
	var r []string
	for k := range out {
		r = append(r, k)
	}
	sort.Strings(r)
	return r
}

func stripConv(v ssa.Value) ssa.Value {
	for {
		switch x := v.(type) {
		case *ssa.Convert:
			v = x.X
		case *ssa.ChangeType:
			v = x.X
		default:
			return v
		}
	}
}

// slotCleared: for the vp slot, a reflect.Value.SetZero on tmp.v executes in the same iteration before the call,
// conditioned at most on (desc.T == tSTRUCT) and (!desc.IsPointer). The kp slot needs no clear while by-value structs are not key types.
func slotCleared(c *Ctx, s *obSink, fn *ssa.Function, call *ssa.Call, slot string, k *kinds) bool {
	if slot == "kp" {
		return !byValueStructIsKeyType(c)
	}
	desc := ""
	for _, a := range call.Call.Args {
		if namedOf(a.Type()) == "tType" {
			desc = path(a)
		}
	}
	for _, b := range fn.Blocks {
		for _, ins := range b.Instrs {
			z, ok := ins.(*ssa.Call)
			if !ok {
				continue
			}
			f := z.Call.StaticCallee()
			if f == nil || fnPkgPath(f) != "reflect" || !(f.Name() == "SetZero") {
				continue
			}
			// receiver: load of tmp.v
			if _, typ, fld, ok := fieldOf(z.Call.Args[0]); !ok || typ != "tmpMapVars" || fld != "v" {
				continue
			}
			// must be in the loop iteration before the call: z's block dominates... the merge after it dominates the call
			if !(b.Dominates(call.Block()) || (len(b.Succs) == 1 && b.Succs[0].Dominates(call.Block()))) {
				continue
			}
			// ... and inside the entry loop itself (once per entry, not once per call)
			if hdr := loopHeaderOf(call.Block()); hdr != nil && !(hdr.Dominates(b) && blockReaches(b, hdr)) {
				continue
			}
			// conditions under which z runs but which do not hold at the call (i.e. guards specific to the clear)
			callConds := map[string]bool{}
			for _, cd := range domConds(call.Block()) {
				callConds[condKey(cd)] = true
			}
			okConds := true
			for _, cd := range domConds(b) {
				if callConds[condKey(cd)] {
					continue
				}
				if !allowedClearCond(cd, desc, k) {
					okConds = false
				}
			}
			if okConds {
				return true
			}
		}
	}
	return false
}

func condKey(cd Cond) string { return fmt.Sprintf("%p/%v", cd.If, cd.Truth) }

func allowedClearCond(cd Cond, desc string, k *kinds) bool {
	// desc.T == tSTRUCT (true) or desc.IsPointer (false)
	if recv, _, f, ok := fieldOf(cd.V); ok && f == "IsPointer" && path(recv) == desc && !cd.Truth {
		return true
	}
	if bo, ok := cd.V.(*ssa.BinOp); ok && bo.Op == token.EQL && cd.Truth {
		if cv, ok := constInt(bo.Y); ok && cv == k.byName["STRUCT"] && path(bo.X) == desc+".T" {
			return true
		}
	}
	return false
}

// byValueStructIsKeyType evaluates defs.(*Type).IsKeyType for a by-value struct.
func byValueStructIsKeyType(c *Ctx) bool {
	kf := c.Func(pkgDefs, "(*Type).IsKeyType")
	tags := c.defsTags()
	if kf == nil || len(tags) == 0 {
		return true // unknown: be conservative
	}
	return predicateValue(kf, map[string]int64{"T": tags["T_struct"], "V.T": tags["T_struct"]}) != triF
}

// destWritten: in fn (pointer parameter p), every return with a possibly-nil error in a non-struct case is reached only through a store to p.
func destWritten(c *Ctx, s *obSink, fn *ssa.Function, k *kinds) {
	var p ssa.Value
	for _, prm := range fn.Params {
		if isUnsafePointer(prm.Type()) {
			p = prm
		}
	}
	if p == nil {
		s.undec(shortFn(fn)+":dest-written", c.Pos(fn.Pos()), "no destination parameter")
		return
	}
	// blocks that store the destination
	writes := map[*ssa.BasicBlock]int{} // block -> index of the first store
	aliases := map[ssa.Value]bool{p: true}
	for changed := true; changed; {
		changed = false
		for v := range aliases {
			for _, r := range referrers(v) {
				switch x := r.(type) {
				case *ssa.Convert:
					if !aliases[x] {
						aliases[x] = true
						changed = true
					}
				case *ssa.FieldAddr:
					if !aliases[x] {
						aliases[x] = true
						changed = true
					}
				}
			}
		}
	}
	for _, b := range fn.Blocks {
		for i, ins := range b.Instrs {
			switch x := ins.(type) {
			case *ssa.Store:
				if aliases[x.Addr] {
					if _, ok := writes[b]; !ok {
						writes[b] = i
					}
				}
			case *ssa.Call:
				if f := x.Call.StaticCallee(); f != nil && shortFn(f) == "sliceHeader.Zero" && aliases[x.Call.Args[0]] {
					if _, ok := writes[b]; !ok {
						writes[b] = i
					}
				}
			}
		}
	}
	for _, b := range fn.Blocks {
		ret, ok := b.Instrs[len(b.Instrs)-1].(*ssa.Return)
		if !ok || len(ret.Results) != 2 || b == fn.Recover {
			continue
		}
		ev := unspill(ret.Results[1], b)
		if definitelyNonNilErr(ev, b) {
			continue
		}
		// tail calls delegate (struct case -> Decode, fixed sizes -> decodeFixedSizeTypes)
		if ex, ok := ev.(*ssa.Extract); ok {
			if _, ok := ex.Tuple.(*ssa.Call); ok {
				continue
			}
		}
		// which case?
		what := "default"
		if cs, _ := caseSet(b, ".T"); cs != nil {
			var ns []string
			for _, cv := range cs {
				ns = append(ns, k.nameOf(cv))
			}
			what = strings.Join(ns, ",")
			if what == "STRUCT" {
				continue
			}
		}
		key := shortFn(fn) + ":dest-written:" + what
		// backward search from the return to the entry avoiding writing blocks; edges on which the returned error is non-nil are pruned
		reach := false
		seen := map[*ssa.BasicBlock]bool{}
		var st []*ssa.BasicBlock
		if _, w := writes[b]; !w {
			st = append(st, b)
		}
		for len(st) > 0 {
			x := st[len(st)-1]
			st = st[:len(st)-1]
			if seen[x] {
				continue
			}
			seen[x] = true
			if x == fn.Blocks[0] {
				reach = true
				break
			}
			for _, pr := range x.Preds {
				if _, w := writes[pr]; w {
					continue
				}
				// prune edge pr->x when it asserts err != nil for the returned error
				if iff, ok := pr.Instrs[len(pr.Instrs)-1].(*ssa.If); ok {
					if bo, ok := iff.Cond.(*ssa.BinOp); ok && (bo.X == ev || bo.Y == ev) && (isNilConst(bo.X) || isNilConst(bo.Y)) {
						nonNilEdge := 0 // successor index on which ev != nil
						if bo.Op == token.EQL {
							nonNilEdge = 1
						}
						if pr.Succs[nonNilEdge] == x && pr.Succs[0] != pr.Succs[1] {
							continue
						}
					}
				}
				st = append(st, pr)
			}
		}
		s.check(!reach, key, c.InstrPos(ret), "every success path stores the destination", "a success return is reachable without storing the destination: a reused or pre-filled slot keeps its previous value: "+c.srcLine(ret.Pos()))
	}
}

// paramStaysPrivate: inside f, parameter k (a pooled object handed in by the caller) is only read through, used as a method
// receiver or converted for reading: it is not stored, returned as such, converted to an interface or passed further (beyond
// one more level).
func paramStaysPrivate(f *ssa.Function, k int, depth int) bool {
	if k >= len(f.Params) || depth > 1 {
		return false
	}
	al := aliasSet(f.Params[k])
	for v := range al {
		for _, r := range referrers(v) {
			switch x := r.(type) {
			case *ssa.Phi, *ssa.Convert, *ssa.ChangeType, *ssa.DebugRef, *ssa.FieldAddr, *ssa.BinOp, *ssa.UnOp:
			case *ssa.Store:
				if al[x.Val] {
					return false
				}
			case *ssa.Call:
				cf := x.Call.StaticCallee()
				if cf != nil && cf.Signature.Recv() != nil && len(x.Call.Args) > 0 && al[x.Call.Args[0]] {
					continue
				}
				okAll := cf != nil && cf.Blocks != nil
				if okAll {
					for j, a := range x.Call.Args {
						if al[a] && !paramStaysPrivate(cf, j, depth+1) {
							okAll = false
						}
					}
				}
				if !okAll {
					return false
				}
			case *ssa.Return:
				for _, rv := range x.Results {
					if al[rv] && !isUnsafePointer(rv.Type()) {
						return false
					}
				}
			default:
				return false
			}
		}
	}
	return true
}

// isRvPtrFn: a module function of one reflect.Value parameter that reinterprets the value's header and returns its data word.
func isRvPtrFn(f *ssa.Function) bool {
	if f.Blocks == nil || len(f.Params) != 1 || f.Params[0].Type().String() != "reflect.Value" || fnPkgPath(f) != pkgReflect {
		return false
	}
	r := f.Signature.Results()
	if r.Len() != 1 || !isUnsafePointer(r.At(0).Type()) {
		return false
	}
	for _, b := range f.Blocks {
		for _, ins := range b.Instrs {
			if cv, ok := ins.(*ssa.Convert); ok && strings.HasSuffix(cv.Type().String(), ".rvtype") {
				return true
			}
		}
	}
	return false
}

// hasPointers: values of the type contain references (slices, maps, pointers, strings excluded as immutable).
func hasPointers(t types.Type) bool {
	switch u := t.Underlying().(type) {
	case *types.Slice, *types.Map, *types.Pointer, *types.Chan, *types.Interface, *types.Signature:
		return true
	case *types.Struct:
		for i := 0; i < u.NumFields(); i++ {
			if hasPointers(u.Field(i).Type()) {
				return true
			}
		}
	case *types.Array:
		return hasPointers(u.Elem())
	}
	return false
}
