package main

import "sort"

// Property ties a property id to the rules (structural clauses) that decide it.
type Property struct {
	ID         string
	Technique  string
	Decides    string
	NotDecided string
	Assumes    []string
	RuleIDs    []string
	Rules      []*Rule
}

var ruleRegistry = map[string]*Rule{}

func register(r *Rule) *Rule {
	if _, dup := ruleRegistry[r.ID]; dup {
		panic("duplicate rule " + r.ID)
	}
	ruleRegistry[r.ID] = r
	return r
}

var commonAssumes = []string{
	"go/types, go/ssa and the VTA/CHA call graphs of golang.org/x/tools v0.29.0 faithfully represent the program (no reflect.Call, no assembly in the module; one go:linkname to runtime.mallocgc, treated as an allocation primitive)",
	"Go's memory safety for in-bounds accesses; semantics of sync.Pool, sync.Mutex, atomic.Pointer and the reflect package as documented",
	"only shape is decided: the structural clauses are necessary conditions of the behavioural property, value-level behaviour is not decided",
}

func properties() map[string]*Property {
	ps := propertyTable()
	m := map[string]*Property{}
	for _, p := range ps {
		for _, id := range p.RuleIDs {
			r := ruleRegistry[id]
			if r == nil {
				panic("property " + p.ID + " refers to unknown rule " + id)
			}
			p.Rules = append(p.Rules, r)
		}
		p.Assumes = append(append([]string{}, p.Assumes...), commonAssumes...)
		m[p.ID] = p
	}
	// pseudo property: every registered rule (used by tools/seedtest.sh to see which rules fire on a changed tree)
	all := &Property{ID: "ALL", Technique: "all rules", Decides: "-", NotDecided: "-"}
	var ids []string
	for id := range ruleRegistry {
		ids = append(ids, id)
	}
	sort.Strings(ids)
	for _, id := range ids {
		all.RuleIDs = append(all.RuleIDs, id)
		all.Rules = append(all.Rules, ruleRegistry[id])
	}
	m["ALL"] = all
	return m
}
