package main

import (
	"fmt"
	"go/token"
	"sort"
	"strings"

	"golang.org/x/tools/go/callgraph"
	"golang.org/x/tools/go/ssa"
)

func init() {
	register(&Rule{ID: "E6.depth", Min: 6,
		Text: "on the call graph restricted to module functions reachable from reflect.Decode: every non-trivial SCC member has an int depth parameter; every intra-SCC call passes param - c with constant c >= 1; every member tests the parameter on entry (== 0 only when every c is 1, or <= k / < k) with the taken edge returning the depth-limit exception, and the test dominates every intra-SCC call; the root passes the constant maxDepthLimit; 48 x |SCC| x max(c) < maxDepthLimit <= 65536 (48 levels always fit, recursion depth is bounded)",
		Run:  ruleE6})
}

func ruleE6(c *Ctx) []Ob {
	s := newSink(c, "E6.depth")
	closure := c.decodeClosure()
	if closure == nil {
		s.bad("closure", "-", "reflect.Decode not found")
		return s.obs
	}
	g := c.CG()
	// adjacency among module functions of the closure
	adj := map[*ssa.Function][]*callgraph.Edge{}
	var nodes []*ssa.Function
	for f := range closure {
		nodes = append(nodes, f)
		n := g.Nodes[f]
		if n == nil {
			continue
		}
		for _, e := range n.Out {
			if closure[e.Callee.Func] {
				adj[f] = append(adj[f], e)
			}
		}
	}
	sort.Slice(nodes, func(i, j int) bool { return nodes[i].String() < nodes[j].String() })
	// Tarjan SCC
	index := map[*ssa.Function]int{}
	low := map[*ssa.Function]int{}
	on := map[*ssa.Function]bool{}
	var stack []*ssa.Function
	var sccs [][]*ssa.Function
	idx := 0
	var strong func(v *ssa.Function)
	strong = func(v *ssa.Function) {
		index[v], low[v] = idx, idx
		idx++
		stack = append(stack, v)
		on[v] = true
		for _, e := range adj[v] {
			w := e.Callee.Func
			if _, seen := index[w]; !seen {
				strong(w)
				if low[w] < low[v] {
					low[v] = low[w]
				}
			} else if on[w] && index[w] < low[v] {
				low[v] = index[w]
			}
		}
		if low[v] == index[v] {
			var comp []*ssa.Function
			for {
				w := stack[len(stack)-1]
				stack = stack[:len(stack)-1]
				on[w] = false
				comp = append(comp, w)
				if w == v {
					break
				}
			}
			sccs = append(sccs, comp)
		}
	}
	for _, n := range nodes {
		if _, seen := index[n]; !seen {
			strong(n)
		}
	}
	limit, okL := c.constOf(pkgReflect, "maxDepthLimit")
	if !okL {
		s.bad("maxDepthLimit", "-", "constant maxDepthLimit not found")
	}
	nRec := 0
	for _, comp := range sccs {
		self := false
		if len(comp) == 1 {
			for _, e := range adj[comp[0]] {
				if e.Callee.Func == comp[0] {
					self = true
				}
			}
			if !self {
				continue
			}
		}
		// recursion over the *type* (descriptor build: doParseType, newTType, fetchStructDesc, ...) is bounded by the finite
		// type graph and the caches; only cycles that consume the input are input-driven
		inputDriven := false
		for _, f := range comp {
			if inputParam(f) != nil {
				inputDriven = true
			}
		}
		if !inputDriven {
			continue
		}
		nRec++
		in := map[*ssa.Function]bool{}
		for _, f := range comp {
			in[f] = true
		}
		sort.Slice(comp, func(i, j int) bool { return comp[i].String() < comp[j].String() })
		depthParam := map[*ssa.Function]*ssa.Parameter{}
		// depth parameter: the last signed-int parameter
		for _, f := range comp {
			var cands []*ssa.Parameter
			for _, p := range f.Params {
				if isSignedInt(p.Type()) {
					cands = append(cands, p)
				}
			}
			if len(cands) == 0 {
				s.bad(shortFn(f)+":depth-param", c.Pos(f.Pos()), "recursive function in the decode closure without a depth parameter: recursion driven by the input is unbounded")
				continue
			}
			depthParam[f] = cands[len(cands)-1]
		}
		guards := map[*ssa.Function]*guardInfo{}
		for _, f := range comp {
			if dp := depthParam[f]; dp != nil {
				guards[f] = entryGuard(f, dp)
			}
		}
		type dedge struct {
			to  *ssa.Function
			dec int64
		}
		edges := map[*ssa.Function][]dedge{}
		okEdges := true
		for _, f := range comp {
			dp := depthParam[f]
			if dp == nil {
				okEdges = false
				continue
			}
			for _, e := range adj[f] {
				if !in[e.Callee.Func] || e.Site == nil {
					continue
				}
				callee := e.Callee.Func
				cdp := depthParam[callee]
				key := fmt.Sprintf("%s->%s:decrement", shortFn(f), shortFn(callee))
				if cdp == nil {
					okEdges = false
					continue
				}
				ai := -1
				for i, p := range callee.Params {
					if p == cdp {
						ai = i
					}
				}
				args := e.Site.Common().Args
				if e.Site.Common().IsInvoke() || ai < 0 || ai >= len(args) {
					s.undec(key, c.InstrPos(e.Site), "recursive call whose depth argument cannot be identified")
					okEdges = false
					continue
				}
				dec, ok := decrementOf(args[ai], dp)
				if !ok {
					s.bad(key, c.InstrPos(e.Site), "recursive call does not pass `"+dp.Name()+" - c` (c >= 0 constant) as depth: "+c.srcLine(e.Site.Pos()))
					okEdges = false
					continue
				}
				if dec < 0 {
					s.bad(key, c.InstrPos(e.Site), fmt.Sprintf("recursive call increases the depth budget (decrement %d)", dec))
					okEdges = false
					continue
				}
				edges[f] = append(edges[f], dedge{callee, dec})
				// in a guarded function the call must come after the guard
				if g0 := guards[f]; g0 != nil {
					okDom := false
					for k := 0; k < 2; k++ {
						if k != g0.errIdx && edgeDominates(g0.iff.Block(), k, e.Site.Block()) {
							okDom = true
						}
					}
					s.check(okDom, key, c.InstrPos(e.Site), fmt.Sprintf("passes %s-%d under the entry guard", dp.Name(), dec), "recursive call is not dominated by the depth test of "+shortFn(f))
				} else {
					s.ok(key, c.InstrPos(e.Site), fmt.Sprintf("passes %s-%d (unguarded member: bounded through the guarded members of the cycle, see cycle obligations)", dp.Name(), dec))
				}
			}
		}
		// guards
		anyEq := false
		nGuarded := 0
		for _, f := range comp {
			g0 := guards[f]
			key := shortFn(f) + ":entry-guard"
			if g0 == nil {
				continue
			}
			nGuarded++
			switch {
			case g0.op == token.EQL && g0.k != 0:
				s.bad(key, c.InstrPos(g0.iff), "depth is tested for equality with a non-zero constant")
			case !g0.errors:
				s.bad(key, c.InstrPos(g0.iff), "the depth-exhausted edge does not return the depth-limit error")
			default:
				if g0.op == token.EQL {
					anyEq = true
				}
				s.ok(key, c.InstrPos(g0.iff), fmt.Sprintf("%s %s %d returns errDepthLimitExceeded", depthParam[f].Name(), g0.op, g0.k))
			}
		}
		if nGuarded == 0 {
			s.bad("cycle:guarded-member", c.Pos(comp[0].Pos()), "no member of the recursive cycle tests the depth: recursion driven by the input is unbounded")
		}
		// cycle obligations on the graph collapsed to guarded members
		maxTotal := int64(0)
		if okEdges && nGuarded > 0 {
			// unguarded sub-graph must be acyclic
			state := map[*ssa.Function]int{}
			cyc := false
			var dfs func(f *ssa.Function)
			dfs = func(f *ssa.Function) {
				state[f] = 1
				for _, e := range edges[f] {
					if guards[e.to] != nil {
						continue
					}
					if state[e.to] == 1 {
						cyc = true
					} else if state[e.to] == 0 {
						dfs(e.to)
					}
				}
				state[f] = 2
			}
			for _, f := range comp {
				if guards[f] == nil && state[f] == 0 {
					dfs(f)
				}
			}
			s.check(!cyc, "cycle:unguarded-acyclic", c.Pos(comp[0].Pos()), "every recursive cycle passes a member that tests the depth", "there is a recursive cycle none of whose members tests the depth")
			if !cyc {
				for _, a := range comp {
					if guards[a] == nil {
						continue
					}
					var walk func(f *ssa.Function, total int64, depth int)
					walk = func(f *ssa.Function, total int64, depth int) {
						if depth > len(comp)+1 {
							return
						}
						for _, e := range edges[f] {
							t := total + e.dec
							if guards[e.to] != nil {
								key := fmt.Sprintf("cycle:%s=>%s", shortFn(a), shortFn(e.to))
								if t > maxTotal {
									maxTotal = t
								}
								switch {
								case t < 1:
									s.bad(key, c.Pos(a.Pos()), "the depth is not decreased between two depth tests: unbounded recursion")
								case anyEq && t != 1:
									s.bad(key, c.Pos(a.Pos()), fmt.Sprintf("the depth decreases by %d between two tests, one of which is `== 0`: the counter can step over zero and the recursion becomes unbounded", t))
								default:
									s.ok(key, c.Pos(a.Pos()), fmt.Sprintf("depth decreases by %d between consecutive depth tests", t))
								}
								continue
							}
							walk(e.to, t, depth+1)
						}
					}
					walk(a, 0, 0)
				}
			}
		}
		if okL && maxTotal > 0 {
			need := 48 * int64(nGuarded) * maxTotal
			s.check(need < limit && limit <= 65536, "limit", "-",
				fmt.Sprintf("48 levels x %d depth tests per level x decrement %d = %d < maxDepthLimit = %d <= 65536", nGuarded, maxTotal, need, limit),
				fmt.Sprintf("maxDepthLimit = %d: 48 nesting levels can cost up to %d units (%d guarded functions per level, decrement %d), and the limit must stay <= 65536 frames", limit, need, nGuarded, maxTotal))
		}
	}
	if nRec == 0 {
		s.bad("scc", "-", "no recursive cycle found in the decode closure (the decoder's recursion anchors were not resolved)")
	}
	// root passes the constant
	if root := c.SSA[pkgReflect].Func("Decode"); root != nil {
		found := false
		for _, b := range root.Blocks {
			for _, in2 := range b.Instrs {
				call, ok := in2.(*ssa.Call)
				if !ok {
					continue
				}
				callee := call.Call.StaticCallee()
				if callee == nil || !closure[callee] || inputParam(callee) == nil || !hasContract(callee) {
					continue
				}
				found = true
				last := call.Call.Args[len(call.Call.Args)-1]
				v, isC := constInt(last)
				s.check(isC && okL && v == limit, "root:initial-depth", c.InstrPos(call), "reflect.Decode starts with maxDepthLimit", "reflect.Decode does not start the recursion with the constant maxDepthLimit (passes "+path(last)+")")
			}
		}
		if !found {
			s.bad("root:initial-depth", c.Pos(root.Pos()), "reflect.Decode does not call the struct decoder")
		}
	}
	return s.obs
}

// decrementOf: arg == dp - c  -> c (0 for dp itself).
func decrementOf(arg ssa.Value, dp *ssa.Parameter) (int64, bool) {
	if arg == ssa.Value(dp) {
		return 0, true
	}
	bo, ok := arg.(*ssa.BinOp)
	if !ok {
		return 0, false
	}
	switch bo.Op {
	case token.SUB:
		if base, ok := decrementOf(bo.X, dp); ok {
			if k, ok := constInt(bo.Y); ok {
				return base + k, true
			}
		}
	case token.ADD:
		if base, ok := decrementOf(bo.X, dp); ok {
			if k, ok := constInt(bo.Y); ok {
				return base - k, true
			}
		}
	}
	return 0, false
}

type guardInfo struct {
	iff    *ssa.If
	op     token.Token // normalised: dp OP k on the error edge
	k      int64
	errIdx int
	errors bool
}

// entryGuard finds, in the entry block chain, the test of the depth parameter whose taken edge leaves the function.
func entryGuard(f *ssa.Function, dp *ssa.Parameter) *guardInfo {
	for _, b := range f.Blocks {
		// must dominate everything that matters: only consider blocks that dominate all call sites is checked by caller;
		iff, ok := b.Instrs[len(b.Instrs)-1].(*ssa.If)
		if !ok {
			continue
		}
		bo, ok := iff.Cond.(*ssa.BinOp)
		if !ok {
			continue
		}
		var k int64
		var okK bool
		op := bo.Op
		switch {
		case bo.X == ssa.Value(dp):
			k, okK = constInt(bo.Y)
		case bo.Y == ssa.Value(dp):
			k, okK = constInt(bo.X)
			switch op {
			case token.LSS:
				op = token.GTR
			case token.LEQ:
				op = token.GEQ
			case token.GTR:
				op = token.LSS
			case token.GEQ:
				op = token.LEQ
			}
		default:
			continue
		}
		if !okK {
			continue
		}
		for idx := 0; idx < 2; idx++ {
			if !leavesFunction(b.Succs[idx]) {
				continue
			}
			eop := op
			if idx == 1 { // negate
				switch op {
				case token.EQL:
					eop = token.NEQ
				case token.NEQ:
					eop = token.EQL
				case token.LSS:
					eop = token.GEQ
				case token.LEQ:
					eop = token.GTR
				case token.GTR:
					eop = token.LEQ
				case token.GEQ:
					eop = token.LSS
				}
			}
			if eop != token.EQL && eop != token.LEQ && eop != token.LSS {
				continue
			}
			gi := &guardInfo{iff: iff, op: eop, k: k, errIdx: idx}
			gi.errors = edgeReturnsDepthErr(b.Succs[idx])
			return gi
		}
	}
	return nil
}

func edgeReturnsDepthErr(b *ssa.BasicBlock) bool {
	for cur, n := b, 0; cur != nil && n < 8; n++ {
		switch x := cur.Instrs[len(cur.Instrs)-1].(type) {
		case *ssa.Return:
			if len(x.Results) == 0 {
				return false
			}
			ev := unspill(x.Results[len(x.Results)-1], cur)
			p := path(ev)
			if mi, ok := ev.(*ssa.MakeInterface); ok {
				p = path(mi.X)
			}
			return strings.Contains(p, "errDepthLimitExceeded") || strings.Contains(strings.ToLower(p), "depth")
		case *ssa.Jump:
			cur = cur.Succs[0]
		default:
			return false
		}
	}
	return false
}
