package main

import (
	"fmt"
	"go/ast"
	"go/constant"
	"go/token"
	"go/types"
	"os"
	"path/filepath"
	"sort"
	"strings"

	"golang.org/x/tools/go/callgraph"
	"golang.org/x/tools/go/callgraph/cha"
	"golang.org/x/tools/go/callgraph/vta"
	"golang.org/x/tools/go/packages"
	"golang.org/x/tools/go/ssa"
	"golang.org/x/tools/go/ssa/ssautil"
)

const (
	modPath    = "github.com/cloudwego/frugal"
	pkgReflect = modPath + "/internal/reflect"
	pkgDefs    = modPath + "/internal/defs"
	pkgOpts    = modPath + "/internal/opts"
	pkgDebug   = modPath + "/debug"
	pkgRoot    = modPath
)

// Ctx is the loaded, type-checked program in SSA form.
type Ctx struct {
	Repo        string
	GOARCH      string
	Fset        *token.FileSet
	Pkgs        []*packages.Package          // module packages (root module of /repo)
	ByPath      map[string]*packages.Package // all loaded packages by import path
	Prog        *ssa.Program
	SSA         map[string]*ssa.Package // module packages by import path
	Sizes       types.Sizes
	cgVTA       *callgraph.Graph
	cgCHA       *callgraph.Graph
	allFns      map[*ssa.Function]bool
	NumFns      int // functions with bodies in module packages
	useCHA      bool
	fileSrc     map[string][]byte
	boundsCache map[*ssa.Function]*linAn
	encCl       *encClosure
	addrTk      map[*ssa.Function]bool
	escCache    map[string][]escLine
	thorough    bool
	plainCtx    *Ctx // the same program without helper expansion (lazily loaded by plain)
	gwMemo      map[*ssa.Global]bool
	ExpandNotes []string        // what the helper expansion did (inline.go)
	poolNewFns  []*ssa.Function // New functions of the sync.Pools met by rule E2 (filled by poolNewType)
}

// Load type-checks the root module of repo and builds SSA for the whole program.
// loadWithoutExpansion: Load applies the rename normalisation but leaves helper functions where they are (see Ctx.plain).
var loadWithoutExpansion bool

// plain returns the program with renamed declarations read under their reference names but WITHOUT the helper expansion:
// every function of the compiled program exists in it under its own lines. Rules that map facts reported by the compiler
// (file:line of a heap site) onto functions use it, because an expanded-and-dropped helper has no lines of its own any more.
func (c *Ctx) plain() *Ctx {
	expanded := false
	for _, n := range c.ExpandNotes {
		if strings.HasPrefix(n, "expanded ") || strings.HasPrefix(n, "dropped ") {
			expanded = true
		}
	}
	if !expanded {
		return c
	}
	if c.plainCtx != nil {
		return c.plainCtx
	}
	loadWithoutExpansion = true
	defer func() { loadWithoutExpansion = false }()
	keep := tableCtx
	p, err := Load(c.Repo, c.GOARCH)
	tableCtx = keep
	if err != nil {
		return c
	}
	p.thorough = c.thorough
	p.useCHA = c.useCHA
	c.plainCtx = p
	return p
}

func Load(repo, goarch string) (*Ctx, error) {
	env := []string{}
	for _, e := range os.Environ() {
		if strings.HasPrefix(e, "GOFLAGS=") || strings.HasPrefix(e, "GOWORK=") || strings.HasPrefix(e, "GOARCH=") ||
			strings.HasPrefix(e, "GOPROXY=") || strings.HasPrefix(e, "GOTOOLCHAIN=") || strings.HasPrefix(e, "GOSUMDB=") {
			continue
		}
		env = append(env, e)
	}
	env = append(env, "GOFLAGS=-mod=mod", "GOPROXY=off", "GOWORK=off", "GOSUMDB=off", "GOTOOLCHAIN=local", "CGO_ENABLED=0")
	if goarch != "" {
		env = append(env, "GOARCH="+goarch)
	} else {
		goarch = "amd64"
	}
	cfg := &packages.Config{Mode: packages.LoadAllSyntax, Dir: repo, Env: env, Tests: false}
	pkgs, err := packages.Load(cfg, "./...")
	if err != nil {
		return nil, fmt.Errorf("packages.Load: %w", err)
	}
	if len(pkgs) == 0 {
		return nil, fmt.Errorf("no packages loaded from %s", repo)
	}
	c := &Ctx{Repo: repo, GOARCH: goarch, ByPath: map[string]*packages.Package{}, SSA: map[string]*ssa.Package{}, fileSrc: map[string][]byte{}}
	collect := func(pkgs []*packages.Package) (map[string]*packages.Package, []*packages.Package, []string) {
		by := map[string]*packages.Package{}
		var mod []*packages.Package
		var errs []string
		packages.Visit(pkgs, nil, func(p *packages.Package) {
			by[p.PkgPath] = p
			for _, e := range p.Errors {
				errs = append(errs, p.PkgPath+": "+e.Error())
			}
		})
		for _, p := range pkgs {
			if p.PkgPath == modPath || strings.HasPrefix(p.PkgPath, modPath+"/") {
				mod = append(mod, p)
			}
		}
		return by, mod, errs
	}
	by, mod, errs := collect(pkgs)
	if len(errs) > 0 {
		return nil, fmt.Errorf("type/load errors:\n  %s", strings.Join(errs, "\n  "))
	}
	if len(mod) == 0 {
		return nil, fmt.Errorf("module %s not found under %s", modPath, repo)
	}
	// expansion of helper functions that the reference tree does not have (see inline.go); at most three rounds
	if os.Getenv("FRUGALVET_NO_EXPAND") == "" {
		overlay := map[string][]byte{}
		readSrc := func(name string) []byte {
			if b, ok := overlay[name]; ok {
				return b
			}
			b, err := os.ReadFile(name)
			if err != nil {
				return nil
			}
			return b
		}
		// renamed declarations are read under their reference names (rename.go); up to three rounds (types first);
		// before that, reference fields grouped into a new nested struct are read as fields of the struct itself (flatten.go)
		for round := -1; round <= 3; round++ {
			var ov map[string][]byte
			var notes []string
			if round <= 0 {
				ov, notes = flattenNested(mod, pkgs[0].Fset, readSrc)
				if len(ov) == 0 {
					round = 0
					continue
				}
			} else {
				ov, notes = undoRenames(mod, pkgs[0].Fset, readSrc)
			}
			if len(ov) == 0 {
				break
			}
			next := map[string][]byte{}
			for k, v := range overlay {
				next[k] = v
			}
			for k, v := range ov {
				next[k] = v
			}
			cfg2 := &packages.Config{Mode: packages.LoadAllSyntax, Dir: repo, Env: env, Tests: false, Overlay: next}
			pkgs2, err2 := packages.Load(cfg2, "./...")
			if err2 != nil || len(pkgs2) == 0 {
				c.ExpandNotes = append(c.ExpandNotes, fmt.Sprintf("rename normalisation abandoned: %v", err2))
				break
			}
			by2, mod2, errs2 := collect(pkgs2)
			if len(errs2) > 0 || len(mod2) == 0 {
				msg := ""
				if len(errs2) > 0 {
					msg = errs2[0]
				}
				c.ExpandNotes = append(c.ExpandNotes, "rename normalisation abandoned (the renamed program does not type-check: "+msg+")")
				break
			}
			if round > 0 {
				// a reference name given back to a declaration must not be captured by a local variable of that name
				touched := map[string]bool{}
				for k := range ov {
					touched[k] = true
				}
				if !sameShapes(bindingShape(mod, pkgs[0].Fset, touched), bindingShape(mod2, pkgs2[0].Fset, touched)) {
					c.ExpandNotes = append(c.ExpandNotes, "rename normalisation abandoned (a reference name would be captured by a local variable)")
					break
				}
			}
			pkgs, by, mod, overlay = pkgs2, by2, mod2, next
			c.ExpandNotes = append(c.ExpandNotes, notes...)
		}
		// renamed local variables of reference functions are read under their reference names (locals.go)
		if ov, notes := undoLocalRenames(mod, pkgs[0].Fset, readSrc); len(ov) > 0 {
			next := map[string][]byte{}
			for k, v := range overlay {
				next[k] = v
			}
			for k, v := range ov {
				next[k] = v
			}
			cfg2 := &packages.Config{Mode: packages.LoadAllSyntax, Dir: repo, Env: env, Tests: false, Overlay: next}
			if pkgs2, err2 := packages.Load(cfg2, "./..."); err2 == nil && len(pkgs2) > 0 {
				if by2, mod2, errs2 := collect(pkgs2); len(errs2) == 0 && len(mod2) > 0 {
					// the renaming must not change which variable any identifier denotes (a use of an outer variable captured
					// by a renamed inner one would type-check and mean something else)
					touched := map[string]bool{}
					for k := range ov {
						touched[k] = true
					}
					if sameShapes(bindingShape(mod, pkgs[0].Fset, touched), bindingShape(mod2, pkgs2[0].Fset, touched)) {
						pkgs, by, mod, overlay = pkgs2, by2, mod2, next
						c.ExpandNotes = append(c.ExpandNotes, notes...)
					} else {
						c.ExpandNotes = append(c.ExpandNotes, "normalisation of renamed locals abandoned (a reference name would capture another variable)")
					}
				} else if len(errs2) > 0 {
					c.ExpandNotes = append(c.ExpandNotes, "normalisation of renamed locals abandoned (does not type-check: "+errs2[0]+")")
				}
			}
		}
		// helpers that the rules recognise by their construct (a one-byte bool writer, a string writer, a dispatch
		// forwarder, the skip wrapper, a pool release) are kept as functions: the rules read them as such
		skip := map[string]bool{}
		if nf := newFuncKeys(mod); len(nf) > 0 {
			prog0, _ := ssautil.AllPackages(pkgs, ssa.InstantiateGenerics)
			prog0.Build()
			for fn := range ssautil.AllFunctions(prog0) {
				if fn.Blocks == nil || fn.Pkg == nil || fn.Parent() != nil {
					continue
				}
				key := fn.Pkg.Pkg.Path() + "\t" + fn.Name()
				if recv := fn.Signature.Recv(); recv != nil {
					key = fn.Pkg.Pkg.Path() + "\t" + namedOf(recv.Type()) + "." + fn.Name()
				}
				if !nf[key] {
					continue
				}
				role := isBoolEmitHelper(fn) || strEmitHelper(fn) || isDispatchHelper(fn) || skipWrapperOf(fn) >= 0 || isRefillHelper(fn)
				for pname := range poolTable {
					if releaseParam(fn, pname) >= 0 {
						role = true
					}
				}
				if role {
					skip[key] = true
					c.ExpandNotes = append(c.ExpandNotes, "kept as a function (recognised by construct): "+fn.Name())
				}
			}
			strEmitMemo = map[*ssa.Function]bool{}
		}
		for pass := 1; pass <= 4 && !loadWithoutExpansion; pass++ {
			ov, notes := expandHelpers(mod, pkgs[0].Fset, readSrc, pass, skip)
			if len(ov) == 0 {
				break
			}
			next := map[string][]byte{}
			for k, v := range overlay {
				next[k] = v
			}
			for k, v := range ov {
				next[k] = v
			}
			cfg2 := &packages.Config{Mode: packages.LoadAllSyntax, Dir: repo, Env: env, Tests: false, Overlay: next}
			pkgs2, err2 := packages.Load(cfg2, "./...")
			if err2 != nil || len(pkgs2) == 0 {
				c.ExpandNotes = append(c.ExpandNotes, fmt.Sprintf("helper expansion abandoned in round %d: %v", pass, err2))
				break
			}
			by2, mod2, errs2 := collect(pkgs2)
			if len(errs2) > 0 || len(mod2) == 0 {
				msg := ""
				if len(errs2) > 0 {
					msg = errs2[0]
				}
				c.ExpandNotes = append(c.ExpandNotes, fmt.Sprintf("helper expansion abandoned in round %d (the expanded program does not type-check: %s)", pass, msg))
				if d := os.Getenv("FRUGALVET_DUMP_EXPAND"); d != "" {
					_ = os.MkdirAll(d, 0o755)
					for k, v := range next {
						_ = os.WriteFile(d+"/FAILED_"+strings.ReplaceAll(strings.TrimPrefix(k, repo+"/"), "/", "_"), v, 0o644)
					}
				}
				break
			}
			pkgs, by, mod, overlay = pkgs2, by2, mod2, next
			c.ExpandNotes = append(c.ExpandNotes, notes...)
		}
		for k, v := range overlay {
			c.fileSrc[k] = v
			if d := os.Getenv("FRUGALVET_DUMP_EXPAND"); d != "" {
				_ = os.MkdirAll(d, 0o755)
				_ = os.WriteFile(d+"/"+strings.ReplaceAll(strings.TrimPrefix(k, repo+"/"), "/", "_"), v, 0o644)
			}
		}
	}
	tableCtx = c
	c.ByPath = by
	c.Pkgs = mod
	sort.Slice(c.Pkgs, func(i, j int) bool { return c.Pkgs[i].PkgPath < c.Pkgs[j].PkgPath })
	c.Fset = pkgs[0].Fset
	c.Sizes = types.SizesFor("gc", goarch)
	prog, _ := ssautil.AllPackages(pkgs, ssa.InstantiateGenerics)
	prog.Build()
	c.Prog = prog
	for _, p := range c.Pkgs {
		sp := prog.Package(p.Types)
		if sp == nil {
			return nil, fmt.Errorf("no SSA for %s", p.PkgPath)
		}
		c.SSA[p.PkgPath] = sp
	}
	c.allFns = ssautil.AllFunctions(prog)
	for fn := range c.allFns {
		if c.InModule(fn) && fn.Blocks != nil {
			c.NumFns++
		}
	}
	return c, nil
}

func (c *Ctx) InModule(fn *ssa.Function) bool {
	p := fnPkgPath(fn)
	return p == modPath || strings.HasPrefix(p, modPath+"/")
}

func fnPkgPath(fn *ssa.Function) string {
	for fn.Parent() != nil {
		fn = fn.Parent()
	}
	if fn.Pkg != nil {
		return fn.Pkg.Pkg.Path()
	}
	if o := fn.Object(); o != nil && o.Pkg() != nil {
		return o.Pkg().Path()
	}
	if fn.Origin() != nil {
		return fnPkgPath(fn.Origin())
	}
	return ""
}

// CG returns the call graph (VTA seeded with CHA, or plain CHA when useCHA).
func (c *Ctx) CG() *callgraph.Graph {
	if c.cgCHA == nil {
		c.cgCHA = cha.CallGraph(c.Prog)
	}
	if c.useCHA {
		return c.cgCHA
	}
	if c.cgVTA == nil {
		c.cgVTA = vta.CallGraph(c.allFns, c.cgCHA)
	}
	return c.cgVTA
}

// Func finds a package-level function or method ("(*tDecoder).Decode", "tType.Equal") in a module package.
func (c *Ctx) Func(pkg, name string) *ssa.Function {
	sp := c.SSA[pkg]
	if sp == nil {
		return nil
	}
	if strings.HasPrefix(name, "(") {
		// (*T).M or (T).M
		r := strings.Index(name, ")")
		recv := name[1:r]
		m := name[r+2:]
		ptr := strings.HasPrefix(recv, "*")
		recv = strings.TrimPrefix(recv, "*")
		tn, ok := sp.Pkg.Scope().Lookup(recv).(*types.TypeName)
		if !ok {
			return nil
		}
		var t types.Type = tn.Type()
		if ptr {
			t = types.NewPointer(t)
		}
		sel := c.Prog.MethodSets.MethodSet(t).Lookup(sp.Pkg, m)
		if sel == nil {
			return nil
		}
		return c.Prog.MethodValue(sel)
	}
	return sp.Func(name)
}

// ModuleFuncs returns all functions with bodies (including closures) of module packages, sorted by position.
func (c *Ctx) ModuleFuncs(pkgs ...string) []*ssa.Function {
	var out []*ssa.Function
	for fn := range c.allFns {
		if fn.Blocks == nil || !c.InModule(fn) || fn.Synthetic != "" && !strings.HasPrefix(fn.Synthetic, "package init") {
			continue
		}
		if len(pkgs) > 0 {
			ok := false
			for _, p := range pkgs {
				if fnPkgPath(fn) == p {
					ok = true
				}
			}
			if !ok {
				continue
			}
		}
		out = append(out, fn)
	}
	sort.Slice(out, func(i, j int) bool {
		if out[i].Pos() != out[j].Pos() {
			return out[i].Pos() < out[j].Pos()
		}
		return out[i].String() < out[j].String()
	})
	return out
}

func (c *Ctx) Pos(p token.Pos) string {
	if !p.IsValid() {
		return "-"
	}
	ps := c.Fset.Position(p)
	f := ps.Filename
	if rel, err := filepath.Rel(c.Repo, f); err == nil && !strings.HasPrefix(rel, "..") {
		f = rel
	}
	return fmt.Sprintf("%s:%d", f, ps.Line)
}

// InstrPos gives the best source position for an instruction (falls back to operands / block neighbours).
func (c *Ctx) InstrPos(in ssa.Instruction) string {
	if in.Pos().IsValid() {
		return c.Pos(in.Pos())
	}
	if v, ok := in.(ssa.Value); ok {
		for _, op := range in.Operands(nil) {
			if *op != nil && (*op).Pos().IsValid() {
				_ = v
				return c.Pos((*op).Pos())
			}
		}
	}
	b := in.Block()
	for _, x := range b.Instrs {
		if x.Pos().IsValid() {
			return c.Pos(x.Pos())
		}
	}
	return c.Pos(in.Parent().Pos())
}

func fnName(fn *ssa.Function) string {
	if fn == nil {
		return "<nil>"
	}
	s := fn.String()
	s = strings.ReplaceAll(s, modPath+"/internal/", "")
	s = strings.ReplaceAll(s, modPath, "frugal")
	return s
}

// ---------------------------------------------------------------- SSA helpers

func constInt(v ssa.Value) (int64, bool) {
	c, ok := v.(*ssa.Const)
	if !ok || c.Value == nil || c.Value.Kind() != constant.Int {
		return 0, false
	}
	n, ok := constant.Int64Val(c.Value)
	if !ok {
		u, ok2 := constant.Uint64Val(c.Value)
		return int64(u), ok2
	}
	return n, true
}

func isNilConst(v ssa.Value) bool {
	c, ok := v.(*ssa.Const)
	return ok && c.Value == nil
}

// strip removes value-preserving wrappers (ChangeType, same-size Convert between named/unnamed forms).
func strip(v ssa.Value) ssa.Value {
	for {
		switch x := v.(type) {
		case *ssa.ChangeType:
			v = x.X
		default:
			return v
		}
	}
}

// staticCallee resolves the callee of a call instruction (static function, method, or closure made in place).
func staticCallee(call ssa.CallInstruction) *ssa.Function {
	cc := call.Common()
	if f := cc.StaticCallee(); f != nil {
		return f
	}
	return nil
}

func calleeFullName(call ssa.CallInstruction) string {
	cc := call.Common()
	if f := cc.StaticCallee(); f != nil {
		return f.String()
	}
	if cc.IsInvoke() {
		return "invoke " + cc.Value.Type().String() + "." + cc.Method.Name()
	}
	if b, ok := cc.Value.(*ssa.Builtin); ok {
		return "builtin " + b.Name()
	}
	return "dynamic " + cc.Value.Name()
}

func isBuiltin(call ssa.CallInstruction, name string) bool {
	b, ok := call.Common().Value.(*ssa.Builtin)
	return ok && b.Name() == name
}

// edge (from block b, successor index k) dominates target when succ has b as its only predecessor and dominates target.
func edgeDominates(b *ssa.BasicBlock, k int, target *ssa.BasicBlock) bool {
	s := b.Succs[k]
	if len(s.Preds) != 1 {
		return false
	}
	return s == target || s.Dominates(target)
}

// Cond is a branch condition known to hold (Truth) at some block.
type Cond struct {
	V     ssa.Value
	Truth bool
	If    *ssa.If
}

// domConds returns the branch conditions that hold on entry to block b (dominating edges), short-circuit aware:
// for `a && b` the true edge carries both, for `a || b` the false edge carries both negations (they are separate Ifs in SSA).
func domConds(b *ssa.BasicBlock) []Cond {
	var out []Cond
	fn := b.Parent()
	for _, d := range fn.Blocks {
		if len(d.Instrs) == 0 {
			continue
		}
		iff, ok := d.Instrs[len(d.Instrs)-1].(*ssa.If)
		if !ok {
			continue
		}
		for k := 0; k < 2; k++ {
			if d.Succs[0] == d.Succs[1] {
				continue
			}
			if edgeDominates(d, k, b) {
				out = append(out, expandCond(Cond{V: iff.Cond, Truth: k == 0, If: iff}, 0)...)
			}
		}
	}
	return out
}

// expandCond: a condition that is the value form of a && b (phi of false and b) being true implies a and b; the value form of
// a || b (phi of true and b) being false implies !a and !b. The implied conditions are those that hold where b was evaluated.
func expandCond(cd Cond, depth int) []Cond {
	out := []Cond{cd}
	phi, ok := cd.V.(*ssa.Phi)
	if !ok || depth > 3 {
		return out
	}
	var rest []int
	for i, e := range phi.Edges {
		if cv, ok := e.(*ssa.Const); ok && cv.Value != nil && cv.Value.Kind() == constant.Bool && constant.BoolVal(cv.Value) != cd.Truth {
			continue // this edge gives the opposite value: not taken
		}
		rest = append(rest, i)
	}
	if len(rest) != 1 {
		return out
	}
	i := rest[0]
	if _, isConst := phi.Edges[i].(*ssa.Const); isConst {
		return out
	}
	p := phi.Block().Preds[i]
	out = append(out, domConds(p)...)
	out = append(out, expandCond(Cond{V: phi.Edges[i], Truth: cd.Truth, If: cd.If}, depth+1)...)
	return out
}

// blockReaches reports whether 'to' is reachable from 'from' in the CFG (from==to counts only via a cycle unless self=true).
func blockReaches(from, to *ssa.BasicBlock) bool {
	seen := map[*ssa.BasicBlock]bool{}
	var st []*ssa.BasicBlock
	st = append(st, from.Succs...)
	for len(st) > 0 {
		x := st[len(st)-1]
		st = st[:len(st)-1]
		if seen[x] {
			continue
		}
		seen[x] = true
		if x == to {
			return true
		}
		st = append(st, x.Succs...)
	}
	return false
}

// instrIndex returns the index of instruction in its block.
func instrIndex(in ssa.Instruction) int {
	for i, x := range in.Block().Instrs {
		if x == in {
			return i
		}
	}
	return -1
}

// instrDominates: a executes before b on every path to b.
func instrDominates(a, b ssa.Instruction) bool {
	if a.Block() == b.Block() {
		return instrIndex(a) < instrIndex(b)
	}
	return a.Block().Dominates(b.Block())
}

// path gives a canonical access-path string for an SSA value ("t.V.IsPointer", "sd.fields[i].Type", "reflect.typeToSize[t]").
// Loads are transparent: the path of *(&x.f) is "x.f". Opaque values get a unique name.
func path(v ssa.Value) string {
	return pathD(v, 0)
}

func pathD(v ssa.Value, d int) string {
	if d > 12 {
		return "?" + v.Name()
	}
	switch x := v.(type) {
	case *ssa.Parameter:
		return x.Name()
	case *ssa.FreeVar:
		return "free:" + x.Name()
	case *ssa.Global:
		return x.Pkg.Pkg.Name() + "." + x.Name()
	case *ssa.Const:
		if x.Value == nil {
			return "nil"
		}
		return x.Value.ExactString()
	case *ssa.FieldAddr:
		return pathD(x.X, d+1) + "." + fieldName(x.X.Type(), x.Field)
	case *ssa.Field:
		return pathD(x.X, d+1) + "." + fieldName(x.X.Type(), x.Field)
	case *ssa.IndexAddr:
		return pathD(x.X, d+1) + "[" + pathD(x.Index, d+1) + "]"
	case *ssa.Index:
		return pathD(x.X, d+1) + "[" + pathD(x.Index, d+1) + "]"
	case *ssa.UnOp:
		if x.Op == token.MUL {
			return pathD(x.X, d+1)
		}
		return x.Op.String() + pathD(x.X, d+1)
	case *ssa.ChangeType:
		return pathD(x.X, d+1)
	case *ssa.Convert:
		return "conv(" + pathD(x.X, d+1) + ")"
	case *ssa.Phi:
		// a hoisted load that is only defined on some paths (phi of a zero constant and one value) names that value
		uniq := ""
		n := 0
		for _, e := range x.Edges {
			if cst, ok := e.(*ssa.Const); ok {
				if cst.Value == nil {
					continue
				}
				if z, ok := constInt(cst); ok && z == 0 {
					continue
				}
			}
			if e == ssa.Value(x) {
				continue
			}
			if _, isPhi := e.(*ssa.Phi); isPhi {
				n = 99
				break
			}
			p := pathD(e, d+1)
			if p != uniq {
				uniq = p
				n++
			}
		}
		if n == 1 && d < 10 && !strings.HasPrefix(uniq, "φ") && strings.Contains(uniq, ".") {
			return uniq
		}
		if x.Comment != "" {
			return "φ" + x.Comment
		}
		return "φ" + x.Name()
	case *ssa.Extract:
		return pathD(x.Tuple, d+1) + "#" + fmt.Sprint(x.Index)
	case *ssa.Call:
		if b, ok := x.Call.Value.(*ssa.Builtin); ok {
			var as []string
			for _, a := range x.Call.Args {
				as = append(as, pathD(a, d+1))
			}
			return b.Name() + "(" + strings.Join(as, ",") + ")"
		}
		return "call:" + x.Name()
	case *ssa.Alloc:
		if x.Comment != "" {
			return "&" + x.Comment
		}
		return "alloc:" + x.Name()
	}
	return v.Name()
}

func fieldName(t types.Type, i int) string {
	if p, ok := t.Underlying().(*types.Pointer); ok {
		t = p.Elem()
	}
	if s, ok := t.Underlying().(*types.Struct); ok && i < s.NumFields() {
		return s.Field(i).Name()
	}
	return fmt.Sprintf("f%d", i)
}

// fieldOf reports the (struct type name, field name) if v is a load of a struct field or its address.
func fieldOf(v ssa.Value) (recv ssa.Value, typ string, field string, ok bool) {
	v = strip(v)
	if u, isU := v.(*ssa.UnOp); isU && u.Op == token.MUL {
		v = u.X
	}
	switch x := v.(type) {
	case *ssa.FieldAddr:
		return x.X, namedOf(x.X.Type()), fieldName(x.X.Type(), x.Field), true
	case *ssa.Field:
		return x.X, namedOf(x.X.Type()), fieldName(x.X.Type(), x.Field), true
	}
	return nil, "", "", false
}

func namedOf(t types.Type) string {
	if p, ok := t.Underlying().(*types.Pointer); ok {
		t = p.Elem()
	}
	if p, ok := t.(*types.Pointer); ok {
		t = p.Elem()
	}
	if n, ok := t.(*types.Named); ok {
		return n.Obj().Name()
	}
	return t.String()
}

func isInt(t types.Type) bool {
	b, ok := t.Underlying().(*types.Basic)
	return ok && b.Info()&types.IsInteger != 0
}
func isUnsigned(t types.Type) bool {
	b, ok := t.Underlying().(*types.Basic)
	return ok && b.Info()&types.IsUnsigned != 0
}
func isByteSlice(t types.Type) bool {
	s, ok := t.Underlying().(*types.Slice)
	if !ok {
		return false
	}
	b, ok := s.Elem().Underlying().(*types.Basic)
	return ok && b.Kind() == types.Uint8
}
func isUnsafePointer(t types.Type) bool {
	b, ok := t.Underlying().(*types.Basic)
	return ok && b.Kind() == types.UnsafePointer
}
func isErrorType(t types.Type) bool {
	return types.Identical(t, types.Universe.Lookup("error").Type())
}

// referrers returns the instructions using v (nil-safe).
func referrers(v ssa.Value) []ssa.Instruction {
	r := v.Referrers()
	if r == nil {
		return nil
	}
	return *r
}

// constOf evaluates a named constant in a module package.
func (c *Ctx) constOf(pkg, name string) (int64, bool) {
	p := c.ByPath[pkg]
	if p == nil {
		return 0, false
	}
	k, ok := p.Types.Scope().Lookup(name).(*types.Const)
	if !ok {
		return 0, false
	}
	n, ok := constant.Int64Val(constant.ToInt(k.Val()))
	return n, ok
}

// tableOf evaluates a package-level array/composite literal `var name = [N]T{k: v, ...}` into key->constant value.
// ok is false when the variable is not initialised by such a literal with constant keys and values.
func (c *Ctx) tableOf(pkg, name string) (map[int64]constant.Value, token.Pos, bool) {
	p := c.ByPath[pkg]
	if p == nil {
		return nil, 0, false
	}
	for _, f := range p.Syntax {
		for _, d := range f.Decls {
			gd, ok := d.(*ast.GenDecl)
			if !ok || gd.Tok != token.VAR {
				continue
			}
			for _, s := range gd.Specs {
				vs := s.(*ast.ValueSpec)
				for i, n := range vs.Names {
					if n.Name != name || i >= len(vs.Values) {
						continue
					}
					cl, ok := vs.Values[i].(*ast.CompositeLit)
					if !ok {
						return nil, n.Pos(), false
					}
					out := map[int64]constant.Value{}
					next := int64(0)
					for _, e := range cl.Elts {
						var val ast.Expr = e
						if kv, ok := e.(*ast.KeyValueExpr); ok {
							tv := p.TypesInfo.Types[kv.Key]
							if tv.Value == nil {
								return nil, n.Pos(), false
							}
							k, ok := constant.Int64Val(constant.ToInt(tv.Value))
							if !ok {
								return nil, n.Pos(), false
							}
							next = k
							val = kv.Value
						}
						tv := p.TypesInfo.Types[val]
						if tv.Value == nil {
							return nil, n.Pos(), false
						}
						out[next] = tv.Value
						next++
					}
					return out, n.Pos(), true
				}
			}
		}
	}
	// a function of the same name that maps a kind to a constant takes the table's place: evaluated for every code
	if sp := c.SSA[pkg]; sp != nil {
		if fn := sp.Func(name); fn != nil {
			if tab, ok := constIntFuncTable(fn); ok {
				out := map[int64]constant.Value{}
				for k, v := range tab {
					out[k] = constant.MakeInt64(v)
				}
				return out, fn.Pos(), true
			}
		}
	}
	return nil, 0, false
}

// funcDecl returns the AST of a function by (pkg, name) where name is "F" or "T.M".
func (c *Ctx) funcDecl(pkg, name string) (*ast.FuncDecl, *packages.Package) {
	p := c.ByPath[pkg]
	if p == nil {
		return nil, nil
	}
	for _, f := range p.Syntax {
		for _, d := range f.Decls {
			fd, ok := d.(*ast.FuncDecl)
			if !ok {
				continue
			}
			n := fd.Name.Name
			if fd.Recv != nil && len(fd.Recv.List) == 1 {
				t := fd.Recv.List[0].Type
				if s, ok := t.(*ast.StarExpr); ok {
					t = s.X
				}
				if id, ok := t.(*ast.Ident); ok {
					n = id.Name + "." + n
				}
			}
			if n == name {
				return fd, p
			}
		}
	}
	return nil, nil
}

// srcText returns the source text between two positions of one file.
func (c *Ctx) srcText(pos, end token.Pos) string {
	ps, pe := c.Fset.PositionFor(pos, false), c.Fset.PositionFor(end, false)
	b, ok := c.fileSrc[ps.Filename]
	if !ok {
		b, _ = os.ReadFile(ps.Filename)
		c.fileSrc[ps.Filename] = b
	}
	if ps.Offset >= 0 && pe.Offset <= len(b) && ps.Offset <= pe.Offset {
		return string(b[ps.Offset:pe.Offset])
	}
	return ""
}

func (c *Ctx) srcLine(pos token.Pos) string {
	ps := c.Fset.PositionFor(pos, false)
	b, ok := c.fileSrc[ps.Filename]
	if !ok {
		b, _ = os.ReadFile(ps.Filename)
		c.fileSrc[ps.Filename] = b
	}
	lines := strings.Split(string(b), "\n")
	if ps.Line-1 < len(lines) && ps.Line > 0 {
		return strings.TrimSpace(lines[ps.Line-1])
	}
	return ""
}

// addrTaken: module functions used as values (stored, passed, bound) anywhere in the program.
func (c *Ctx) addrTaken() map[*ssa.Function]bool {
	if c.addrTk != nil {
		return c.addrTk
	}
	c.addrTk = map[*ssa.Function]bool{}
	for fn := range c.allFns {
		for _, b := range fn.Blocks {
			for _, ins := range b.Instrs {
				var callee ssa.Value
				if ci, ok := ins.(ssa.CallInstruction); ok {
					callee = ci.Common().Value
				}
				for _, op := range ins.Operands(nil) {
					if *op == nil {
						continue
					}
					f, ok := (*op).(*ssa.Function)
					if !ok {
						continue
					}
					if *op == callee {
						// called directly here; still counts as a value when it also appears among the arguments
						isArg := false
						if ci, ok := ins.(ssa.CallInstruction); ok {
							for _, a := range ci.Common().Args {
								if a == *op {
									isArg = true
								}
							}
						}
						if !isArg {
							continue
						}
					}
					c.addrTk[f] = true
				}
				if mc, ok := ins.(*ssa.MakeClosure); ok {
					if f, ok := mc.Fn.(*ssa.Function); ok {
						c.addrTk[f] = true
					}
				}
			}
		}
	}
	return c.addrTk
}

// reachableFrom computes the set of functions reachable from roots in the call graph, not crossing `stop` nodes
// and not following edges for which skipEdge returns true.
func (c *Ctx) reachableFrom(roots []*ssa.Function, skipEdge func(e *callgraph.Edge) bool) map[*ssa.Function]bool {
	g := c.CG()
	seen := map[*ssa.Function]bool{}
	var st []*ssa.Function
	for _, r := range roots {
		if r != nil {
			st = append(st, r)
		}
	}
	for len(st) > 0 {
		f := st[len(st)-1]
		st = st[:len(st)-1]
		if seen[f] {
			continue
		}
		seen[f] = true
		n := g.Nodes[f]
		if n == nil {
			continue
		}
		for _, e := range n.Out {
			if skipEdge != nil && skipEdge(e) {
				continue
			}
			// a function whose address is never taken cannot be the target of a call through a function value
			// (refines CHA, which matches dynamic calls by signature only)
			if e.Site != nil && e.Site.Common().StaticCallee() == nil && !e.Site.Common().IsInvoke() && c.InModule(e.Callee.Func) && !c.addrTaken()[e.Callee.Func] {
				continue
			}
			if !seen[e.Callee.Func] {
				st = append(st, e.Callee.Func)
			}
		}
		// closures made inside f are considered reachable when f is (they may be called through std callbacks)
		for _, af := range f.AnonFuncs {
			if !seen[af] {
				st = append(st, af)
			}
		}
	}
	return seen
}

// relOf normalises a comparison that is known to hold (cond with truth) into (lhs, op, rhs) with op in {<, <=, ==, !=},
// operands described by describe(). ok is false for non-comparisons.
func relOf(cond ssa.Value, truth bool, describe func(ssa.Value) string) (lhs, op, rhs string, ok bool) {
	bo, isB := cond.(*ssa.BinOp)
	if !isB {
		return "", "", "", false
	}
	o := bo.Op
	if !truth {
		switch o {
		case token.LSS:
			o = token.GEQ
		case token.LEQ:
			o = token.GTR
		case token.GTR:
			o = token.LEQ
		case token.GEQ:
			o = token.LSS
		case token.EQL:
			o = token.NEQ
		case token.NEQ:
			o = token.EQL
		default:
			return "", "", "", false
		}
	}
	x, y := describe(bo.X), describe(bo.Y)
	switch o {
	case token.LSS:
		return x, "<", y, true
	case token.LEQ:
		return x, "<=", y, true
	case token.GTR:
		return y, "<", x, true
	case token.GEQ:
		return y, "<=", x, true
	case token.EQL:
		if x > y {
			x, y = y, x
		}
		return x, "==", y, true
	case token.NEQ:
		if x > y {
			x, y = y, x
		}
		return x, "!=", y, true
	}
	return "", "", "", false
}

// holdsAt reports whether relation (lhs op rhs), op in {<,<=,==,!=}, is established by a dominating branch of block b.
// For integers `a < b` also satisfies a request for `a <= b`, and `c <= a` with constant... (only syntactic variants are handled).
func holdsAt(b *ssa.BasicBlock, lhs, op, rhs string, describe func(ssa.Value) string) bool {
	for _, cd := range domConds(b) {
		l, o, r, ok := relOf(cd.V, cd.Truth, describe)
		if !ok {
			continue
		}
		if o == "==" || o == "!=" {
			if op == o && (l == lhs && r == rhs || l == rhs && r == lhs) {
				return true
			}
			continue
		}
		if l == lhs && r == rhs && (o == op || o == "<" && op == "<=") {
			return true
		}
	}
	return false
}

// descInt describes an integer operand for relOf: constants by value, everything else by access path (conversions stripped).
func descInt(v ssa.Value) string {
	v = stripConv(v)
	if n, ok := constInt(v); ok {
		return fmt.Sprint(n)
	}
	if c, ok := v.(*ssa.Call); ok && isBuiltin(c, "len") {
		return "len(" + path(c.Call.Args[0]) + ")"
	}
	return path(v)
}

// InModule2: the global belongs to the module under analysis.
func (c *Ctx) InModule2(g *ssa.Global) bool {
	return g.Pkg != nil && g.Pkg.Pkg != nil && (g.Pkg.Pkg.Path() == pkgReflect || g.Pkg.Pkg.Path() == pkgDefs || g.Pkg.Pkg.Path() == pkgRoot || g.Pkg.Pkg.Path() == pkgOpts)
}
