package main

import (
	"fmt"
	"go/constant"
	"go/token"
	"strings"

	"golang.org/x/tools/go/ssa"
)

// kindWalk follows one function from its entry for one value of `param.Kind()`: branch conditions that depend only on
// that kind (comparisons with constants, lookups in constant package-level tables indexed by it, values merged from such)
// are evaluated; the walk stops at the first branch it cannot evaluate, at a return or at a panic. It reports how the walk
// ended and the last value given to a variable of the named type (the Thrift tag chosen for the kind).
//
// One deterministic path per kind, a finite domain (27 kinds): no solver, nothing executed.

type kval struct {
	known bool
	i     int64
	s     string // string constants (table of suggestions)
	isStr bool
	sym   string // a value that is known to be a call result such as T_int(): non-zero, not a constant
}

type kindWalker struct {
	// kindOf, when set, gives the kind of other values whose Kind() is taken (a type obtained from the argument, its element type)
	kindOf func(v ssa.Value) (int64, bool)
	c      *Ctx
	fn     *ssa.Function
	param  *ssa.Parameter
	kind   int64
	pkg    string
	env    map[ssa.Value]kval
	// calls whose result is a non-zero value of interest (e.g. rtTypePtr)
	symCalls map[string]bool
}

func (w *kindWalker) val(v ssa.Value, depth int) kval {
	if depth > 8 {
		return kval{}
	}
	if kv, ok := w.env[v]; ok {
		return kv
	}
	if w.kindOf != nil {
		// a type value is represented by its kind, so that a type variable merged from several types carries the kind of the
		// one the walk came through
		if _, isCall := v.(*ssa.Call); isCall || v == ssa.Value(w.param) {
			if k, ok := w.kindOf(v); ok {
				return kval{known: true, i: k}
			}
		}
	}
	switch x := v.(type) {
	case *ssa.Const:
		if x.Value == nil {
			return kval{}
		}
		switch x.Value.Kind() {
		case constant.Int:
			if n, ok := constant.Int64Val(x.Value); ok {
				return kval{known: true, i: n}
			}
		case constant.String:
			return kval{known: true, s: constant.StringVal(x.Value), isStr: true}
		case constant.Bool:
			if constant.BoolVal(x.Value) {
				return kval{known: true, i: 1}
			}
			return kval{known: true, i: 0}
		}
	case *ssa.Convert:
		return w.val(x.X, depth+1)
	case *ssa.ChangeType:
		return w.val(x.X, depth+1)
	case *ssa.Call:
		if x.Call.IsInvoke() && x.Call.Method.Name() == "Kind" && x.Call.Value == ssa.Value(w.param) {
			return kval{known: true, i: w.kind}
		}
		if w.kindOf != nil {
			if x.Call.IsInvoke() && x.Call.Method.Name() == "Kind" {
				if k, ok := w.kindOf(x.Call.Value); ok {
					return kval{known: true, i: k}
				}
			}
			if f := x.Call.StaticCallee(); f != nil && f.String() == "(reflect.Value).Kind" && len(x.Call.Args) == 1 {
				if k, ok := w.kindOf(x.Call.Args[0]); ok {
					return kval{known: true, i: k}
				}
			}
		}
		if f := x.Call.StaticCallee(); f != nil && len(x.Call.Args) == 0 && fnPkgPath(f) == w.pkg {
			return kval{sym: f.Name() + "()"}
		}
		if f := x.Call.StaticCallee(); f != nil && w.symCalls[f.Name()] {
			return kval{sym: f.Name() + "(..)"}
		}
		if isBuiltin(x, "len") {
			if at, ok := arrayLenOf(x.Call.Args[0]); ok {
				return kval{known: true, i: at}
			}
		}
	case *ssa.UnOp:
		switch x.Op {
		case token.NOT:
			a := w.val(x.X, depth+1)
			if a.known {
				return kval{known: true, i: 1 - a.i}
			}
		case token.MUL:
			if ia, ok := x.X.(*ssa.IndexAddr); ok {
				if g, ok := ia.X.(*ssa.Global); ok {
					idx := w.val(ia.Index, depth+1)
					if tab, _, ok := w.c.tableOf(g.Pkg.Pkg.Path(), g.Name()); ok && idx.known {
						if cv, ok := tab[idx.i]; ok {
							if cv.Kind() == constant.String {
								return kval{known: true, s: constant.StringVal(cv), isStr: true}
							}
							if n, ok := constant.Int64Val(constant.ToInt(cv)); ok {
								return kval{known: true, i: n}
							}
						}
						// absent entry: the zero value of the element type
						if strings.Contains(x.Type().String(), "string") {
							return kval{known: true, isStr: true}
						}
						return kval{known: true}
					}
				}
			}
		}
	case *ssa.BinOp:
		a, b := w.val(x.X, depth+1), w.val(x.Y, depth+1)
		tr := func(t bool) kval {
			if t {
				return kval{known: true, i: 1}
			}
			return kval{known: true, i: 0}
		}
		if a.known && b.known {
			if a.isStr || b.isStr {
				switch x.Op {
				case token.EQL:
					return tr(a.s == b.s)
				case token.NEQ:
					return tr(a.s != b.s)
				}
				return kval{}
			}
			switch x.Op {
			case token.EQL:
				return tr(a.i == b.i)
			case token.NEQ:
				return tr(a.i != b.i)
			case token.LSS:
				return tr(a.i < b.i)
			case token.LEQ:
				return tr(a.i <= b.i)
			case token.GTR:
				return tr(a.i > b.i)
			case token.GEQ:
				return tr(a.i >= b.i)
			case token.AND:
				return kval{known: true, i: a.i & b.i}
			case token.OR:
				return kval{known: true, i: a.i | b.i}
			}
		}
		// a call result such as T_int() is a valid (non-zero) tag
		if (a.sym != "" && b.known && b.i == 0) || (b.sym != "" && a.known && a.i == 0) {
			switch x.Op {
			case token.EQL:
				return tr(false)
			case token.NEQ:
				return tr(true)
			}
		}
	}
	return kval{}
}

func arrayLenOf(v ssa.Value) (int64, bool) {
	t := v.Type().Underlying()
	if p, ok := t.(interface{ Elem() interface{} }); ok {
		_ = p
	}
	s := v.Type().String()
	// *[N]T or [N]T
	s = strings.TrimPrefix(s, "*")
	if strings.HasPrefix(s, "[") {
		var n int64
		if _, err := fmt.Sscanf(s, "[%d]", &n); err == nil {
			return n, true
		}
	}
	return 0, false
}

// run returns how the walk ended ("error", "return", "panic", "continues") and the last value of a variable of type
// typeName that was merged or assigned on the way ("" if none).
func (w *kindWalker) run(typeName string) (end string, tag kval, at ssa.Instruction) {
	b := w.fn.Blocks[0]
	var prev *ssa.BasicBlock
	var last kval
	for steps := 0; steps < 400; steps++ {
		if prev != nil {
			idx := -1
			for i, p := range b.Preds {
				if p == prev {
					idx = i
				}
			}
			type pv struct {
				phi *ssa.Phi
				v   kval
			}
			var vals []pv
			for _, ins := range b.Instrs {
				phi, ok := ins.(*ssa.Phi)
				if !ok {
					break
				}
				if idx >= 0 {
					vals = append(vals, pv{phi, w.val(phi.Edges[idx], 0)})
				}
			}
			for _, x := range vals {
				w.env[x.phi] = x.v
				if namedOf(x.phi.Type()) == typeName {
					last = x.v
				}
			}
		}
		term := b.Instrs[len(b.Instrs)-1]
		switch x := term.(type) {
		case *ssa.Return:
			if len(x.Results) > 0 {
				ev := unspill(x.Results[len(x.Results)-1], b)
				if isErrorType(ev.Type()) && definitelyNonNilErr(ev, b) {
					return "error", last, x
				}
			}
			return "return", last, x
		case *ssa.Panic:
			return "panic", last, x
		case *ssa.Jump:
			prev, b = b, b.Succs[0]
		case *ssa.If:
			cv := w.val(x.Cond, 0)
			if !cv.known {
				return "continues", last, x
			}
			if cv.i != 0 {
				prev, b = b, b.Succs[0]
			} else {
				prev, b = b, b.Succs[1]
			}
		default:
			return "continues", last, term
		}
	}
	return "continues", last, nil
}

// evalIntFunc evaluates a module function of one integer parameter whose returns are integer constants chosen by comparisons
// of the parameter with constants (a switch / if-chain over a kind) at the argument v. Nothing is executed: the CFG is
// walked, every branch must be a comparison of the parameter with a constant.
func evalIntFunc(fn *ssa.Function, v int64) (int64, bool) {
	if fn == nil || fn.Blocks == nil || len(fn.Params) != 1 {
		return 0, false
	}
	prm := fn.Params[0]
	b := fn.Blocks[0]
	for steps := 0; steps < 4096; steps++ {
		last := b.Instrs[len(b.Instrs)-1]
		switch x := last.(type) {
		case *ssa.Return:
			if len(x.Results) != 1 {
				return 0, false
			}
			r := x.Results[0]
			for {
				if cv, ok := r.(*ssa.Convert); ok {
					r = cv.X
					continue
				}
				break
			}
			n, ok := constInt(r)
			return n, ok
		case *ssa.Jump:
			b = b.Succs[0]
		case *ssa.If:
			bo, ok := x.Cond.(*ssa.BinOp)
			if !ok {
				return 0, false
			}
			var cst int64
			var okc bool
			swap := false
			if stripConv(bo.X) == ssa.Value(prm) {
				cst, okc = constInt(stripConv(bo.Y))
			} else if stripConv(bo.Y) == ssa.Value(prm) {
				cst, okc = constInt(stripConv(bo.X))
				swap = true
			}
			if !okc {
				return 0, false
			}
			l, r := v, cst
			if swap {
				l, r = cst, v
			}
			var t bool
			switch bo.Op {
			case token.EQL:
				t = l == r
			case token.NEQ:
				t = l != r
			case token.LSS:
				t = l < r
			case token.LEQ:
				t = l <= r
			case token.GTR:
				t = l > r
			case token.GEQ:
				t = l >= r
			default:
				return 0, false
			}
			if t {
				b = b.Succs[0]
			} else {
				b = b.Succs[1]
			}
		default:
			return 0, false
		}
		// blocks between branches may only hold the comparisons themselves
		for _, ins := range b.Instrs[:len(b.Instrs)-1] {
			switch ins.(type) {
			case *ssa.BinOp, *ssa.Convert, *ssa.ChangeType, *ssa.DebugRef:
			default:
				return 0, false
			}
		}
	}
	return 0, false
}

// constIntFuncTable: the function as a table over 0..255 (only non-zero values are entries), when it can be evaluated for
// every argument.
func constIntFuncTable(fn *ssa.Function) (map[int64]int64, bool) {
	if fn == nil || len(fn.Params) != 1 || !isInt(fn.Params[0].Type()) || fn.Signature.Results().Len() != 1 || !isInt(fn.Signature.Results().At(0).Type()) {
		return nil, false
	}
	out := map[int64]int64{}
	for v := int64(0); v < 256; v++ {
		n, ok := evalIntFunc(fn, v)
		if !ok {
			return nil, false
		}
		if n != 0 {
			out[v] = n
		}
	}
	return out, true
}
